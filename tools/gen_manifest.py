#!/usr/bin/env python3
"""Regenerates /verif/MANIFEST.json from the table below (single source of truth for the claims)."""
import json
import os
import subprocess

VERIF = os.path.dirname(os.path.dirname(os.path.abspath(__file__)))
props = [json.loads(l) for l in open(os.path.join(VERIF, "properties.jsonl"))]

CLAIMS = {
    "C20": dict(
        category="proof",
        text=("Theorems (lean/RNacos/Props/C20.lean) for every u64, every record-length sequence and every partition "
              "into chunks: varint reader/writer/size agree; a fresh MessageBufReader fed any chunking of a well-formed "
              "stream yields exactly the written frames (drain_any_chunking, any buffer capacity); the end-of-log scan "
              "counts min(count,n) records and stops at the first zero length, never earlier (scan_any_chunking, "
              "scan_to_end); FileMessageReader::read_index_position returns offset/length of record i and read_next, called "
              "until it fails, returns exactly the frames in order wherever the stream starts in the file and however "
              "short its last record is (fileReader_index_position, fileReader_read_next); the check's "
              "oracle equals the spec (oracle_is_spec). Tie: differential correspondence against the real functions "
              "(including real-file scans through LogInnerManager::init), oracle judging the implementation's answers."),
        note=("trusted: Lean kernel; hand model RNacos/Model/{Varint,BufReader,FileReader}.lean; bytes<256; tokio file "
              "reads deliver chunks (theorem covers every chunking)"),
        technique="Lean 4 theorem + differential correspondence"),
    "C14": dict(
        category="proof",
        text=("Theorems (lean/RNacos/Props/C14.lean) for every cluster size, validity pattern and hash value: a live node "
              "considers itself owner iff every live node routes the key to it (owner_iff_route), exactly one live owner "
              "exists (exactly_one_owner), no key is unowned (never_unowned); the pre-fix rule is refuted by a "
              "kernel-checked counter-example. Tie: exhaustive correspondence of the model against the real "
              "InnerNodeManage actor + NodeManage::route_addr for sizes 1..5 x all liveness subsets x all local ids, "
              "liveness produced by the genuine 15 s timer; the spec oracle (one owner per residue, all routes agree) "
              "runs on the implementation's own answers."),
        note=("trusted: Lean kernel; hand model RNacos/Model/Distro.lean; all live nodes share one view (premise of the "
              "property); BTreeMap order = ascending ids; hash values represented by residues mod 60 in the "
              "correspondence only"),
        technique="Lean 4 theorem + exhaustive differential correspondence"),
    "C18": dict(
        category="proof",
        text=("Theorems (lean/RNacos/Props/C18.lean) on a model of privilege.rs + build_namespace_privilege: the decision is "
              "exactly 'whitelisted (or all) and not blacklisted (or all)' for every stored group and namespace "
              "(check_iff_permitted), the blacklist wins (blacklist_wins), an empty whitelist permits nothing, a disabled "
              "group restricts nothing, every spelling of the default namespace is decided by the same list entry and needs "
              "that entry like any other namespace (default_spellings_agree, default_needs_listing). How a user's group is stored and changed is modelled too (Privilege.addUser / updateUser = "
              "UserManager::add_user / update_user): every list and flag an update names replaces the stored one, an empty list "
              "included, what it does not name stays (update_sets_given_fields, update_keeps_unnamed_fields), so that revoking "
              "works (cleared_whitelist_permits_nothing, update_blacklist_excludes). Whether every handler "
              "takes that decision is settled per endpoint by the sweep of the real console as restricted users: 37 data "
              "endpoints of both API versions x 50 privilege groups x 6 namespace spellings, writes verified through the "
              "actors; plus users created and changed through the console's own /user/add and /user/update and logged in through "
              "the real /login/login (the session then carries what was stored, revocations included); the oracle applies the model's decision to each answer (nothing of an excluded namespace shown, no "
              "write there effective, nothing permitted refused). Known finding F18: ten v1 routes reuse the OpenAPI "
              "handlers without any check."),
        note=("trusted: Lean kernel; hand model RNacos/Model/Privilege.lean; the sweep harness's classification of answers; "
              "MCP endpoints are not swept; role checks are C17's; the theorems are about the decision function, the "
              "'for every endpoint' part is exhaustive testing of the endpoints that exist today, not a proof"),
        technique="Lean 4 theorem (decision logic) + exhaustive endpoint sweep against the real console with the model as oracle"),
    "C19": dict(
        category="proof",
        text=("Theorems (lean/RNacos/Props/C19.lean), all for unbounded op sequences: replicated counters hand out "
              "disjoint, increasing ranges per key between explicit resets, also when a log suffix is applied twice "
              "(db_ranges_disjoint_increasing, db_replay_never_repeats); a node's SeqGroup never hands out an id twice "
              "under any interleaving of requests and range arrivals (group_unique; reordering can make ids go backwards "
              "- kept as a visible counter-example theorem); config history ids are strictly increasing across leader "
              "changes and restarts for any number of nodes and batch size (history_ids_strictly_increasing), also when a "
              "node restarts from a snapshot taken EARLIER (possibly in the middle of a block of ids) plus the replay of the "
              "requests committed since, of which only block-opening ones carry a mark "
              "(history_ids_increasing_with_snapshots). Tie: "
              "differential correspondence on the real SequenceDbManager actor, SeqGroup and SimpleSequence objects; "
              "oracle = uniqueness/monotonicity of the implementation's own answers."),
        note=("trusted: Lean kernel; hand model RNacos/Model/Sequence.lean; the harness re-states how ConfigActor wires "
              "SimpleSequence for the `c` family; the `r` family and the apply harness (`reqd`) use real ConfigActors and the "
              "guarded hook VerifConfigSeq (draw = next_state as ConfigAsyncCmd::Add does, snapshot value = get_end_id); assumes the request that "
              "carries a new mark commits and that Raft applies in the same order everywhere; u64 overflow out of scope"),
        technique="Lean 4 theorem (invariants by induction over op sequences) + differential correspondence"),
    "C16": dict(
        category="proof",
        text=("Theorems (lean/RNacos/Props/C16.lean): for EVERY request path - not only registered routes - whose "
              "router-visible form (percent-decoding as actix does it) contains /nacos/ or /rnacos/v1/ in any letter "
              "case and is not one of the property's exceptions, the middleware answers 403 unless the token resolves to "
              "a session, whatever the carrier (http_guarded, http_guarded_raw, http_pass_needs_session, "
              "token_carrier_order); the code's IGNORE_PATH grants nothing beyond the property's exceptions "
              "(ignore_within_exceptions, kernel-evaluated over the regenerated table); for ANY gRPC type string outside "
              "server/health check and the cluster types a missing session gives 403 (grpc_refused_without_session), "
              "cluster types need the cluster token when configured (cluster_requests_need_token). Tie: a scenario with the real "
              "binary (auth on, access tokens that live 3 s, real logins, kill + restart: an absent, made-up or outlived token is "
              "answered 403 before and after every restart), the real gRPC service object served by tonic on loopback (fill_token_session "
              "reads the payload's headers: user token x cluster token absent / empty / prefix / exact / longer / garbage x every "
              "request type) and tables "
              "re-extracted by the translator each run + correspondence sweep of endpoints x spellings x carriers x "
              "token values through the real ApiCheckAuth/app_config and InvokerHandler::handle in-process; the oracle "
              "rejects any non-exempt data endpoint reached without a valid token (this found and fixed a real "
              "percent-encoding bypass)."),
        note=("trusted: Lean kernel; translator (recognised shapes only, fails loudly otherwise); hand model "
              "RNacos/Model/Auth.lean incl. actix_router requote; gRPC fill_token_session modelled but not executed; "
              "main.rs wiring of the middleware not executed; token expiry represented by an expired cache entry"),
        technique="Lean 4 theorem over generated tables + differential correspondence sweep"),
    "C17": dict(
        category="proof",
        text=("Theorems (lean/RNacos/Props/C17.lean), table theorems closed by kernel evaluation over the whole "
              "regenerated route/grant tables: every registered console API route outside the login exceptions is "
              "refused without a valid session (api_needs_session, ignore_list_within_exceptions, "
              "no_api_path_is_static); a visitor reaches no mutating handler (visitor_readonly); a developer reaches no "
              "user-management or transfer handler (developer_no_user_admin_no_transfer); lower role => higher role on "
              "every registered route (role_monotone); unknown role strings grant nothing, several roles are the union, "
              "a positive decision always stems from a concrete grant entry and no grant is a wildcard "
              "(unknown_role_nothing, multi_role_is_union, unlisted_unreachable, no_wildcard_grants). Tie: exhaustive "
              "product of paths x methods x role sets through the real UserRole::match_url_by_roles, and every route x "
              "session state x spelling (incl. query strings that end in a static-file suffix) through the real CheckLogin middleware around console_config in-process."),
        note=("trusted: Lean kernel; translator; hand model RNacos/Model/Auth.lean; the mutating/admin-only "
              "classification of handlers is a hand-written oracle by handler name (DESIGN.md App. C); sessions are "
              "injected into the cache actor, the login flow is not exercised"),
        technique="Lean 4 theorem (decide +kernel over generated tables) + exhaustive differential correspondence"),
    "C06": dict(
        category="proof",
        text=("Theorems (lean/RNacos/Props/C06.lean): what r-nacos adds to Raft on this path is telling the client the truth. "
              "The translator reads off the source, on every run, whether each of the 13 Results on the way of a "
              "configuration write (leader handler, client_write, local/remote/unknown route, leader-side routed request) is "
              "propagated, and whether the router's only success exit is the fall-through of the routing match (a success "
              "answered before the write is routed acknowledges something nobody was asked to commit); with all propagated (all_results_propagated, kernel-evaluated) a client is told success only if "
              "Raft committed the entry, on every route and whatever happens to the messages (ack_implies_committed, "
              "uncommitted_is_error, committed_is_success); the repaired defect stays visible "
              "(dropped_result_acknowledges_uncommitted). Tie: translator + correspondence on a complete standalone node "
              "(real ConfigRoute; commits made impossible by close-write) with the oracle 'acknowledged => served'. Found and "
              "fixed: F27. 'Committed entries survive and all nodes converge' is Raft's guarantee given the storage contract "
              "(C02-C05, C07); async-raft itself is trusted."),
        note=("partial: the multi-node part (kills, restarts, leader changes, SetTmpValue ordering on followers) is not "
              "proved; it is Raft's guarantee plus runtime behaviour, explored on real 3-process clusters: three directed "
              "scenarios in both tiers (the same key written through every node; the leader killed and followers written to "
              "before the election; a key published through one node and removed through another right away, all six pairs; a "
              "follower frozen during a burst of 24 writes and continued), random fault scenarios in the thorough tier; the standalone node is also driven through "
              "handle_route, the leader's side of a forwarded write (rpub / rdel)"),
        technique="translator-regenerated call-site table + Lean 4 theorem (decision model of the answer) + differential correspondence on a real standalone node"),
    "C07": dict(
        category="proof",
        text=("Theorems (lean/RNacos/Props/C07.lean): the three hand-written copies of the match over ClientRequest - leader "
              "apply, follower do_send, start-up load_log - are re-extracted by the translator on every run as dispatch tables "
              "(variant -> target component, message expression, delivery syntax stripped) and proved equal row by row and "
              "complete for the enum by kernel evaluation (paths_same_dispatch, every_variant_has_a_row, "
              "rows_only_for_variants); for ARBITRARY behaviour of the seven components, equal tables give equal states for "
              "every committed request sequence and every split into follower batches (any_batching_same_state) and for "
              "replay (replay_same_state); the one way the paths differ - a malformed ConfigFullValue ends a follower batch - "
              "is a visible counter-example theorem. Tie: translator + correspondence on three complete nodes (child "
              "processes with the real config_factory wiring) fed the same requests through the three RaftStorage paths, "
              "dumps of served state compared."),
        note=("trusted: Lean kernel; translator (purpose-built recogniser of raftdata.rs, fails on unknown shapes); the "
              "components are parameters of the theorems (their own rules: C09, C19, ...); harness follows async-raft's call "
              "order; MCP/cache requests covered by the table theorem only; 1 open finding F23 (node-local priority "
              "metadata of persistent instances) and F32 (a namespace AddOnly/Update overtakes the asynchronous creation of the "
              "namespace's entry on the follower path); the dump also holds what is *served* for user namespaces, the "
              "membership and node addresses, and one node draws history ids like a leader (reqd)"),
        technique="translator-regenerated tables + Lean 4 theorem (kernel-evaluated table equality, refinement for any component semantics) + differential correspondence across three real nodes"),
    "C01": dict(
        category="proof",
        text=("Theorems (lean/RNacos/Props/C01.lean): restart = snapshot load + replay of the log suffix reproduces the state "
              "of having applied the whole sequence, for every sequence and every compaction point, given the per-component "
              "snapshot round trip (restart_reproduces, on C07's regenerated tables; the log suffix is C02/C03, the catalogue "
              "and last_applied C05); the round trip itself is proved for the configuration component on C09's model "
              "(config_value_roundtrip, get_after_snapshot_load, publish/update/import_snapshotable; temporary values as a "
              "visible caveat) and for the namespace component on RNacos/Model/Namespace.lean (namespace_component_roundtrip: the "
              "user-created namespaces served after a start from a snapshot are those of the node that wrote it, in use or not; "
              "that model is executed by the driver against the namespace list the never-stopped node serves), for the replicated "
              "sequences on RNacos/Model/Components.lean (sequence_component_roundtrip, sequence_next_after_restart: id_to_bin / "
              "bin_to_id byte by byte, any map order, the next id handed out after a restart is the one the stopped node would "
              "have handed out; the SEQ_CONFIG branch of load_snapshot as a visible caveat) and for the user and cache tables "
              "(table_component_roundtrip, tables_ok_reachable; trees other than T_USER / T_CACHE are dropped on load: visible "
              "caveat) - both models are executed by the driver and must predict the ids the never-stopped node answers and "
              "its T_SEQUENCE / T_USER / T_CACHE snapshot records byte for byte - for the registry's persistent instances on C11's "
              "registry model (naming_component_roundtrip: for every state that satisfies C11's invariant, hence every reachable "
              "one, a registry that loads the snapshot holds under every service and address exactly the persistent instance "
              "the writer held, and no ephemeral one; Model/NamingSnap.lean is executed against the real NamingActor: ops "
              "snap / reload through the real build_snapshot, snapshot writer/reader and load_snapshot_record) - and is a "
              "hypothesis for the other two components (MCP, direct cache), checked by the correspondence: node R is "
              "compacted, restarted, killed, compacted-and-interrupted at arbitrary points and must dump the same served "
              "state as node L that never stops (component snapshot records, served configurations, served user namespaces, "
              "history ids drawn by the node itself). Found and fixed this way: F22 (stale tail of an interrupted snapshot "
              "resurrects deleted items)."),
        note=("trusted: as C07; partial by construction: the configuration, namespace, sequence, table and registry components' encoders are modelled (instance metadata, "
              "cluster and application name are not part of the registry model); the other "
              "two are compared through their own snapshot encoding and the configuration queries; the tables' own id sequences "
              "(TableInfo.seq, used by no request path) are not part of a snapshot; normType "
              "idempotence is a hypothesis (core String functions do not reduce in the kernel); the race between a snapshot "
              "build and concurrent applies is not reproduced; 1 open finding F23"),
        technique="Lean 4 theorem (composition + configuration round trip) + translator tables + differential correspondence across real nodes with restarts"),
    "C02": dict(
        category="proof",
        text=("Theorems (lean/RNacos/Props/C02.lean) over a byte-level model of one log file (header, varint index area, "
              "record stream, zero padding, cursors, handle position): a representation invariant WF f es ('the file holds "
              "exactly es') is established by create and preserved by every append (with and without an index step), "
              "rejected append, truncation and reopen, hence by every history (history_holds_spec / run_wf, refinement to a "
              "list); reads return exactly the slice of the specified log - same index, term, payload, in order "
              "(read_returns_spec), never anything else (read_subset_spec); reopening from the bytes alone reconstructs "
              "index list, cursors and counts for any number of index entries and record sizes (reopen_same_entries) and "
              "reports the last entry's index and term (reopen_reports_last, reopen_reports_empty); append_ack / "
              "append_refused. The record codec round trip is proved (decFrame_frame). Tie: differential correspondence "
              "against the real LogInnerManager on real files incl. a hash of the whole file after each case, sizes that "
              "align frames with the 1024-byte read chunks, records of 0.5-6 MB that cross the 1 MiB steps in which the file is "
              "pre-allocated (the file-length bookkeeping), 2/3-byte index steps, small index geometry through a guarded "
              "hook; oracle = list of acknowledged entries. Several files: a model of RaftLogManager (catalogue of files + what each "
              "holds, RNacos/Model/LogManager.lean) in which *when a file is full* is a parameter; for every such oracle, "
              "every record size and any number of files, append / replicate and reads equal the list specification and the "
              "catalogue invariant Chain is kept (manager_append_refines, manager_get_refines). That model is executed step by "
              "step against the real FileStore: the roll-over decisions are read off the catalogue the real manager persisted "
              "after the operation, and the model's catalogue must equal it."),
        note=("trusted: Lean kernel; hand models RNacos/Model/LogFile.lean and LogManager.lean; the chunked readers are "
              "represented by the whole-stream parse (C20 proves them equal for every chunking of frames+zeros); binary "
              "search modelled as last entry <= start; file < 2^64 bytes, indexes >= 1; manager level: a file is abstract "
              "(list of its records), an empty file takes a record (hfresh), batches are contiguous"),
        technique="Lean 4 theorem (representation invariant, refinement for all histories) + differential correspondence"),
    "C03": dict(
        category="proof",
        text=("Theorems (lean/RNacos/Props/C03.lean) on the same model and invariant, for every file holding any entry list "
              "(any number of index entries, record sizes, cursor state, fresh or reopened) and every cut k: the file "
              "afterwards holds exactly the entries below k, end index = k (truncate_keeps_prefix, below_cut_unchanged); "
              "nothing at or above k is readable (above_cut_unreadable); the append at k is accepted and becomes the last "
              "entry (append_at_cut_accepted, strip_not_full); the removed suffix never comes back under any later history "
              "of appends of any size, further cuts and reopens (removed_never_returns); the reported term is that of the "
              "last remaining entry (truncate_reports_last_term); cuts outside the log are no-ops / refused "
              "(truncate_outside). Tie: differential correspondence against the real LogInnerManager over cut points "
              "k-1/k/k+1 around every index entry x re-append shorter/equal/longer x reopen, file hash compared; four "
              "genuine defects found this way and fixed (F02-F05). Several files (rollover, compaction pointer, installed "
              "snapshot): on the manager-level model (see C02) delete_logs_from equals the specification's deleteFrom for "
              "every file geometry - exactly the entries from k on disappear whichever files hold them, the file that holds "
              "the cut is the open log again, the next append is expected at k (manager_delete_refines); a compaction / "
              "installation pointer replaces everything up to its index and nothing else (manager_pointer_refines); the "
              "model is executed step by step against the real FileStore's persisted catalogue; F09, F10b, F11, F28 were "
              "found at this level."),
        note=("trusted: as C02; the manager-level theorems carry hypotheses that Raft's use satisfies and the generators "
              "respect: the cut is not below a compaction/snapshot pointer, a pointer lies inside the log and not below the "
              "previous one (the excluded point is where F28 was found)"),
        technique="Lean 4 theorem (representation invariant) + differential correspondence"),
    "C04": dict(
        category="fault_enumeration",
        text=("Decided by complete enumeration of crash points, not by a theorem: the real FileStore runs generated histories "
              "(appends, batches with rollover, truncations across files, hard-state and last-applied saves, flush points) "
              "under an LD_PRELOAD interposer that journals every file mutation in kernel order with acknowledgement markers; "
              "EVERY prefix of the journal is materialised and opened by the real recovery code in a fresh process, judged by "
              "the oracle CrashOK (opens; contiguous; a log that existed; everything acknowledged-and-flushed present; "
              "metadata written at some point; applied index inside the log) and probed for usability (append, restart, "
              "re-read). Lean (Props/C04.lean) proves what the single-file byte model carries: operations that issue one file "
              "write are atomic and both crash points recover exactly (C02's invariant); the one two-write operation of a "
              "log file, the append that completes an index step, recovers from the crash point between its writes to the "
              "file the complete append produces, for any number of earlier index entries and record sizes (torn_index_step, "
              "through the repair added by fix F24); the other two-write operation, the truncation inside a file (index entries "
              "zeroed, then records), recovers from the crash point between its writes to the file as it was before the "
              "truncation, for any cut, any number of dropped index entries and any record sizes, under the scan limit of "
              "init that the proof forces as a hypothesis (torn_truncation, by induction over the rounds of the repair loop); "
              "a truncation that drops no index entry is one write; the repair is the identity on complete files. Found and "
              "fixed: F24 (torn index step), F25 (index entry before its record), F26 (file before catalogue)."),
        note=("machine-checked proof does not decide this property: the crash points of the multi-write operations "
              "(rollover, multi-file truncation, catalogue and snapshot steps) are interleavings of four actors' file writes that "
              "vary from run to run, so the check enumerates the journals the real code produces; what is trusted: the "
              "interposer (write/pwrite/ftruncate/open/unlink/rename), the crash model of the property itself, the list "
              "specification; compaction and snapshot installation are not enumerated; observed but not demonstrated: an "
              "append into a freshly created log file may be acknowledged before the catalogue write of that file has "
              "been issued"),
        technique="fault enumeration over every prefix of the journal of file mutations (real recovery code) + Lean 4 theorems for single-write operations"),
    "C05": dict(
        category="proof",
        text=("Theorems (lean/RNacos/Props/C05.lean) over the index file byte by byte: reopening after write_index returns "
              "exactly the record written whatever was in the file before - shorter, equal or longer record, stale tail "
              "bytes (reopen_after_writeIndex, parse_frame); write_last_applied_log leaves the record untouched and is read "
              "back for every u64 (reopen_after_writeApplied); each mutator replaces only its own fields "
              "(catalogue_updates_keep_vote, hardState_keeps_rest, member_updates_keep_logs, logs_update_keeps_members, "
              "addAddr_lookup, addAddr_keeps_others); for EVERY history of hard-state / membership / address / log- and "
              "snapshot-catalogue / last-applied saves the file decodes to the state in memory, so any number of restarts "
              "read the last saved term+vote and membership (history_consistent, restart_reads_last_hard_state, "
              "restart_reads_last_membership); the pre-fix new-file threshold is refuted by evaluation "
              "(old_threshold_forgets_vote). The same at the level raft sees it: term and vote saved through the real FileStore::save_hard_state are what "
              "get_initial_state reports - with an empty log, after the log was cut back to nothing, across reopens (logstore "
              "specification model + oracle). Tie: differential correspondence against the real RaftIndexManager actor on "
              "real files incl. file sizes; oracle = last saved value per field after every reopen."),
        note=("trusted: Lean kernel; hand model RNacos/Model/IndexFile.lean incl. quick-protobuf's encoding of RaftIndex, "
              "whose round trip is a hypothesis of the theorems (RoundTrips r, evaluated on examples, exercised by the "
              "correspondence); crash inside one write is C04's subject; ack-before-write window of the actor noted in "
              "DESIGN.md"),
        technique="Lean 4 theorem (byte-level file model, induction over histories) + differential correspondence"),
    "C08": dict(
        category="proof",
        text=("Theorems (lean/RNacos/Props/C08.lean) on a model of installation and restart that is generic in the state and "
              "whose two switches - does apply_snapshot load the records, does the start-up path load the last snapshot - are "
              "read off the source by the translator on every run: after a restart the node serves the installed snapshot's "
              "data and keeps doing so (restart_after_install_serves_snapshot, restarts_keep_serving), the snapshot's "
              "membership is recorded at once (install_records_membership). The first half of the property is FALSE on the "
              "current tree and stated as such (install_without_restart_is_stale): known finding F10, replayed on a real "
              "3-process cluster. Tie: translator + scenarios with real rnacos processes (two nodes, small snapshot "
              "threshold, 30-70 writes, third node started late, restarted twice; all nodes' answers compared) + the deterministic "
              "installation path of the apply harness (the leader's snapshot reaches the joiner's RaftStorage in chunks written "
              "at their offsets, one of them twice - async-raft's retransmission)."),
        note=("partial: the model states the composition (install, restart) for an arbitrary state; that the snapshot file "
              "carries every component is C01/C07; when a snapshot is sent is async-raft's decision (trusted); settling "
              "times are generous bounds; 1 open finding F10"),
        technique="translator-read switches + Lean 4 theorem (composition) + real 3-process cluster scenarios with an agreement oracle"),
    "C15": dict(
        category="proof",
        text=("Theorems (lean/RNacos/Props/C15.lean) on a message-level model of the naming synchronisation (owner's instances, "
              "pending changes, the queue of HTTP heartbeats with its own 15 s flush, coalesced batches in flight over an ordered "
              "link, receiver's copy): for EVERY interleaving of client operations, heartbeats, delayed flushes, heartbeat "
              "flushes and deliveries, whenever nothing is pending, queued or in flight the "
              "receiver's copy equals the owner's instances (quiescent_copy_is_own, by the invariant 'copy + everything on its "
              "way = owner'), two receivers agree (receivers_agree), and keeping only the last change per key does not change "
              "a batch's effect (coalescing_sound). The periodic digest of a node's gRPC connections (RNacos/Model/Digest.lean; the "
              "registry's part of it, Naming.diffClientData, is executed against the real NamingActor) makes a peer's record of "
              "that node's connections equal to the node's own, whatever the peer held before - nothing is left for a "
              "connection the digest does not name, the empty digest clears everything (receive_matches_sender, "
              "empty_digest_clears, digest_round_heals; that the digest is sent also when it is empty is read off the source by "
              "the translator on every run, Gen.digestSentWhenEmpty; unsent_empty_digest_leaves_ghosts keeps the alternative "
              "visible). That the queues do drain is liveness over the real scheduler: explored on "
              "real 3-process clusters (HTTP registrations addressed to arbitrary nodes, a kill/restart in between, lists of "
              "every node compared after settling; directed scenarios: a rolling replacement through every node, heart-beating "
              "clients of which one deregisters right after a beat - compared after the owner's next heartbeat flush; a node "
              "restarted at once while its only gRPC client withdraws its instance - the others must forget it)."),
        note=("partial: safety form of convergence only; 'eventually', node-death detection and gRPC-held instances are not "
              "proved - they are exercised by directed scenarios (gRPC clients = the nacos_rust_client crate: the node a client "
              "is connected to is killed, a node that learned the instances by snapshot must drop them too; class flips; "
              "heartbeat flush); the model is hand-written and tied to the code only through the "
              "cluster scenarios' agreement oracle; the model's link delivers batches in order, the real sender "
              "(ClusteSyncSender) starts one request per 500 ms batch without waiting for the previous one - order is an "
              "assumption about the transport, not enforced by the code; open known finding F33: a persistent registration "
              "re-registered as ephemeral within the commit latency is lost on every node (the nodes agree; the generated "
              "scenarios keep such operations 1.5 s apart); observed: a register/deregister/register of one persistent "
              "instance issued back to back can lose the last registration likewise - recorded in DESIGN.md"),
        technique="Lean 4 theorem (invariant over all interleavings of a message-level model) + real 3-process cluster scenarios with an agreement oracle"),
    "C09": dict(
        category="proof",
        text=("Theorems (lean/RNacos/Props/C09.lean) by an invariant preserved by every operation (publish, remove, "
              "full import, temporary value) over arbitrary keys and histories: md5 matches content (md5_matches); every "
              "applied configuration is listed exactly once, the size counter equals the listing, whatever is listed is "
              "stored (listed_exactly_once, listed_is_stored); a read after a publish returns exactly the published "
              "content/md5 with sticky type/description (get_after_publish, type_desc_after_publish), not-found after a "
              "remove, other keys untouched (get_after_remove, get_other_key); pages partition the listing with a constant "
              "total (pages_partition); history is newest-first, one entry per content change, bounded by 100 "
              "(history_after_change, history_unchanged, history_page_spec). Tie: differential correspondence on the real "
              "ConfigActor through its actor messages + hook dump of index and cache; the oracle is a naive map from key "
              "to last applied publish."),
        note=("trusted: Lean kernel; hand model RNacos/Model/Config.lean; md5 modelled as an injective tag (harness "
              "checks reported md5 = md5 of content); BTreeMap order = byte-wise string order (ASCII in the "
              "correspondence); key codec round trip is corresponded, not proved; imported histories <= 100 entries"),
        technique="Lean 4 theorem (invariant by induction over op sequences) + differential correspondence"),
    "C10": dict(
        category="proof",
        text=("Theorems (lean/RNacos/Props/C10.lean): the title as an invariant - in every state reachable through any "
              "interleaving of listen / tick / subscribe / unsubscribe / client removal / publish / remove, every "
              "registered long-poll holds exactly the current md5 of each of its keys and is wired into the per-key index "
              "that notify consults (no_stale_waiter, noStale_step); a differing md5 is answered in the same step with "
              "exactly the differing keys (immediate_if_differs); a change answers every long-poll registered under the "
              "key (change_answers_all); expired long-polls are answered by the next tick (tick_answers_expired); "
              "publish/remove notify exactly the current subscribers (publish_notifies_subscribers, "
              "remove_notifies_subscribers). Temporary values (SetTmpValue on a node that forwarded a publish) change the served "
              "md5 without telling anybody (kernel-checked counter-example, outside the property's alphabet); the committed "
              "publish that follows notifies whatever it contains and answers every long-poll registered under the key "
              "(publish_after_tmp_notifies, publish_after_tmp_answers) - the spec oracle enforces this on the real actor. Kept "
              "visible: remove drops gRPC subscriptions (known finding F13, "
              "replayed on the real actor every run; attributed per observation - only the missing notification of a subscriber "
              "whose subscription was in force at the removal and who has not subscribed again; one who subscribes again must be "
              "told like anybody else). Tie: differential correspondence on the real ConfigActor with real "
              "oneshot receivers and the NotifyConfig hook log."),
        note=("trusted: Lean kernel; hand model RNacos/Model/Listener.lean with ghost md5s of pending long-polls; the "
              "wall-clock bound 'no later than its timeout' depends on the actix 500 ms timer (runtime, only sampled); "
              "delivery of NotifyConfig to the client is not modelled"),
        technique="Lean 4 theorem (invariant over all interleavings) + differential correspondence"),
    "C11": dict(
        category="proof",
        text=("Theorems (lean/RNacos/Props/C11.lean + Lemmas/{NamingSvc,Naming}.lean): an invariant preserved by every "
              "registry operation (register/update from HTTP, gRPC, cluster sync with any update tag, deregistration "
              "with any client id, client removal, time checks at any times, console removal, empty-service clean-up, the apply of a "
              "committed Raft removal, a peer's digest of its gRPC connections, the result of a host probe) and "
              "hence true in every reachable state (inv_reachable): instance count = number of instances, healthy count "
              "= number of healthy ones (counters_exact), persistent set = non-ephemeral instances "
              "(persistent_set_exact), every service listed exactly once (index_exact), every instance recorded for a "
              "client exists and belongs to it (client_map_exact), a service is only dropped when it has no instance "
              "(empty_drop_safe, console_remove_refused). Hypothesis OriginOK (HTTP handlers never set a client id) is "
              "explicit. Tie: differential correspondence on the real NamingActor (frozen clock, hook dump) with an "
              "audit oracle on the implementation's own counters vs its own query results; two real defects found and "
              "fixed (F14, F15)."),
        note=("trusted: Lean kernel; hand model RNacos/Model/Naming.lean (metadata, cluster names, notifications not "
              "modelled); LD_PRELOAD clock shim; process range exercised as 'none' and 'everything' only"),
        technique="Lean 4 theorem (invariant by induction over op sequences) + differential correspondence"),
    "C12": dict(
        category="proof",
        text=("Theorems (lean/RNacos/Props/C12.lean): whatever an instance query returns is an enabled stored instance "
              "of that service, health flag raised only by the protection rule (query_only_registered); every enabled "
              "stored instance is returned (all), every healthy one (healthy-only), every one when the threshold is "
              "reached (query_complete, healthy_only_unless_protected); a new registration is stored with exactly its "
              "fields (new_carries_fields); a deregistration with a different non-empty client id does not remove an "
              "ephemeral instance, a matching or empty one does (deregister_guard, deregister_own); when a connection "
              "ends every ephemeral instance it registered is removed and no instance of another client and no "
              "persistent instance is (disconnect_removes_own, disconnect_keeps_others). Tie: correspondence on the real "
              "NamingActor incl. complete k-of-n threshold boundaries; oracle on the implementation's own answers."),
        note=("trusted: Lean kernel; hand model RNacos/Model/Naming.lean; thresholds/weights as thousandths; metadata "
              "overrides not modelled; LD_PRELOAD clock shim"),
        technique="Lean 4 theorem + differential correspondence"),
    "C13": dict(
        category="proof",
        text=("PARTIAL (timers and cluster propagation are runtime). Theorems (lean/RNacos/Props/C13.lean) about a time "
              "check at any time over arbitrary contents of the two time-out sets: an instance heard of within the "
              "health time-out is neither marked nor removed (never_while_beating); persistent, gRPC and replicated "
              "instances are never touched (persistent_grpc_never_expire); a silent HTTP instance is unhealthy (or "
              "gone) after the first check past the health time-out and gone after the first check past the instance "
              "time-out (unhealthy_after, removed_after), with the arming facts they need (update_arms, "
              "markUnhealthy_arms); a heartbeat (PUT /instance/beat: an update tag with nothing set) never changes what a "
              "registered instance is - persistence class, enabled, weight, the persistent set (beat_keeps_persistence); a "
              "failed TCP probe of a persistent instance's host marks it unhealthy and queues it, and still no time check "
              "removes it (probed_persistent_never_expires; probe_ok_instance for the recovery). "
              "Kept visible: taken_over_never_expires = open known finding F16c (replayed on the "
              "real actor every run); F16a found and fixed. Tie: correspondence on the real NamingActor with a frozen "
              "wall clock incl. the exact +-1 ms boundaries of both time-outs; timeline oracle on the "
              "implementation's answers. Also when the process range moves a service out of the node's range (op range2: the harness searches a real "
              "ProcessRange with the named services in / out): the instances the node registered itself still expire there. Not covered: the 2 s timer that issues the checks, 'and then everywhere' "
              "(see C15)."),
        note=("trusted: Lean kernel; hand model RNacos/Model/Naming.lean; LD_PRELOAD clock shim; time checks issued as "
              "explicit PeekListenerTimeout messages; default time-outs 18 s / 33 s"),
        technique="Lean 4 theorem (timeline lemmas over the time-out sets) + differential correspondence"),
}

PENDING_REASON = ("not yet built in this session (planned, see DESIGN.md §9); no claim is made until its theorems and "
                  "correspondence exist")

hook_commits = []
try:
    out = subprocess.check_output(["git", "-C", "/repo", "log", "--format=%h %s"], text=True)
    hook_commits = [l.split()[0] for l in out.splitlines() if l.split(" ", 1)[1].startswith("verif-hook")]
except Exception:
    pass

m = {
    "version": 1,
    "setup_cmd": "cd /verif && ./setup.sh",
    "hooks": {
        "guard": "nacos_group_r_nacos_verif",
        "enable": ("rustc --cfg nacos_group_r_nacos_verif via /verif/harness/.cargo/config.toml [build] rustflags "
                   "(the harness crate has a path dependency on /repo)"),
        "baseline_off_cmd": ("cd /repo && (cargo nextest run --workspace --no-fail-fast --test-threads 8 --offline || "
                             "cargo test --workspace --no-fail-fast --offline)"),
        "source_commits": hook_commits,
        "add_only": False,
    },
    "engines": [{
        "name": "lean4+correspondence", "path": "/verif/check", "serves_properties": sorted(CLAIMS),
        "kind_free_text": ("Lean 4 theorems over hand-written executable models (lean/RNacos) + differential "
                           "correspondence of the compiled model driver against the real code (harness/) + spec oracle "
                           "on the implementation's trace; generated tables re-extracted by translate/ on every run"),
    }],
    "checks": [],
    "not_applicable": [],
    "notes": ("Every check: regenerate tables, lake build of the property module, #print axioms audit, rebuild the "
              "harness from /repo's working tree, correspondence + oracle, failing-input search; see DESIGN.md §5."),
}
for p in props:
    pid = p["id"]
    if pid in CLAIMS:
        c = CLAIMS[pid]
        m["checks"].append({
            "property_id": pid,
            "quick_cmd": f"./check {pid} --tier quick",
            "thorough_cmd": f"./check {pid} --tier thorough",
            "evidence_file": f"evidence/{pid}.json",
            "replay_cmd_template": f"./check {pid} --replay {{path}}",
            "engine": "lean4+correspondence",
            "level_claimed": {"category": c["category"], "text": c["text"], "design_ref": f"DESIGN.md §7 {pid}"},
            "level_note": c["note"],
            "technique": c["technique"],
        })
    else:
        m["not_applicable"].append({"property_id": pid, "reason": PENDING_REASON})
json.dump(m, open(os.path.join(VERIF, "MANIFEST.json"), "w"), indent=1)
print("claimed:", sorted(CLAIMS))
