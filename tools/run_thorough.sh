#!/bin/sh
# runs every registered thorough check once (sequentially); prints one line per property with its duration
cd "$(dirname "$0")/.."
for p in ${@:-C01 C02 C03 C04 C05 C06 C07 C08 C09 C10 C11 C12 C13 C14 C15 C16 C17 C18 C19 C20}; do
  t0=$(date +%s)
  out=$(timeout 5400 ./check $p --tier thorough 2>&1); rc=$?
  t1=$(date +%s)
  echo "$p rc=$rc $((t1-t0))s $(echo "$out" | grep -c '^VIOLATION') violations | $(echo "$out" | grep "^$p:" | cut -c1-150)"
done
