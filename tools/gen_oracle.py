#!/usr/bin/env python3
"""Writes lean/RNacos/Props/OracleTables.lean: the hand-written oracle tables (taken from the property
*texts*, not from the code) as byte lists.  Run by hand when an oracle table is edited; the output is
checked in."""
import os
V = os.path.dirname(os.path.dirname(os.path.abspath(__file__)))


def b(s):
    return "[" + ", ".join(str(x) for x in s.encode()) + "]"


def lst(name, doc, xs):
    body = ",\n".join(f"  {b(x)} /- {x} -/" for x in xs)
    return f"/-- {doc} -/\ndef {name} : List (List Nat) := [\n{body}]\n"


out = ["/- Oracle tables copied from the property texts (C16, C17, C18); written by tools/gen_oracle.py -/",
       "namespace RNacos.Props.Oracle\n"]
out.append(lst("openapiExceptions",
               "C16: endpoints that may be served without a token: the login endpoints, /nacos/metrics, the file-gated close-write",
               ["/nacos/v1/auth/login", "/nacos/v1/auth/users/login", "/nacos/v3/auth/user/login",
                "/rnacos/v1/auth/user/login", "/nacos/metrics", "/nacos/v1/raft/close-write"]))
out.append(lst("grpcNoSessionTypes",
               "C16: gRPC request types that may be answered without a user session: server check, health check and the cluster-internal types",
               ["ServerCheckRequest", "HealthCheckRequest", "RaftAppendRequest", "RaftSnapshotRequest",
                "RaftVoteRequest", "RaftRouteRequest", "NamingRouteRequest"]))
out.append(lst("grpcClusterTypes", "C16: cluster-internal gRPC request types",
               ["RaftAppendRequest", "RaftSnapshotRequest", "RaftVoteRequest", "RaftRouteRequest",
                "NamingRouteRequest"]))
out.append(lst("grpcDataTypes", "C16: gRPC request types that read or change configuration or registry data",
               ["ConfigQueryRequest", "ConfigPublishRequest", "ConfigRemoveRequest", "ConfigBatchListenRequest",
                "InstanceRequest", "BatchInstanceRequest", "SubscribeServiceRequest", "ServiceQueryRequest",
                "ServiceListRequest"]))
out.append(lst("consoleLoginExceptions",
               "C17: console API endpoints reachable without a session: login, captcha, login configuration, OAuth2 callback",
               ["/rnacos/api/console/login/login", "/rnacos/api/console/login/captcha",
                "/rnacos/api/console/v2/login/login", "/rnacos/api/console/v2/login/captcha",
                "/rnacos/api/console/v2/login/config", "/rnacos/api/console/v2/login/oauth2/login"]))
out.append(lst("mutatingPrefixes", "C17: handler-name prefixes that change data",
               ["add_", "update_", "remove_", "del_", "import_", "publish_"]))
out.append(lst("readonlyPrefixes", "C17: handler-name prefixes that only read (POST download/query included)",
               ["query_", "get_", "download_", "gen_"]))
out.append(lst("sessionHandlers", "C17: session handling and self-service (own password) handlers",
               ["login", "logout", "oauth2_callback", "reset_password"]))
out.append(lst("adminOnlyHandlers", "C17: user management handlers (by base name) – manager only",
               ["add_user", "update_user", "remove_user", "get_user_page_list"]))
out.append(lst("transferMarkers", "C17: full-data transfer handlers live in this module",
               ["transfer_api"]))
out.append(f"def roleManager : List Nat := {b('0')}\ndef roleDeveloper : List Nat := {b('1')}\ndef roleVisitor : List Nat := {b('2')}\n")
out.append(f"def methodGet : List Nat := {b('GET')}\n")
out.append("end RNacos.Props.Oracle\n")
open(os.path.join(V, "lean/RNacos/Props/OracleTables.lean"), "w").write("\n".join(out))
