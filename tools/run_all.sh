#!/bin/sh
# runs every registered quick check once; prints one line per property
cd "$(dirname "$0")/.."
for p in C01 C02 C03 C04 C05 C06 C07 C08 C09 C10 C11 C12 C13 C14 C15 C16 C17 C18 C19 C20; do
  out=$(./check $p 2>&1); rc=$?
  echo "$p rc=$rc $(echo "$out" | grep -c '^VIOLATION') violations | $(echo "$out" | grep "^$p:" | cut -c1-150)"
done
