//! model `codec` (C20): the real varint functions, MessageBufReader, FileMessageReader and the
//! real end-of-log scan (through LogInnerManager::init on a crafted file).
use crate::util::*;
use rnacos::common::protobuf_utils::*;
use rnacos::raft::filestore::raftlog::LogInnerManager;
use std::panic::{catch_unwind, AssertUnwindSafe};

fn show_msgs(ms: &[Vec<u8>], hung: bool) -> String {
    let lens: Vec<String> = ms.iter().map(|m| m.len().to_string()).collect();
    let all: Vec<u8> = ms.iter().flatten().cloned().collect();
    format!(
        "msgs n={} lens={} h={} hung={}",
        ms.len(),
        lens.join(","),
        fnv(&all),
        if hung { 1 } else { 0 }
    )
}

fn drain(chunks: &[Vec<u8>]) -> String {
    let mut reader = MessageBufReader::new();
    let mut ms: Vec<Vec<u8>> = vec![];
    let mut window = 0usize;
    for ch in chunks {
        reader.append_next_buf(ch);
        window += ch.len();
        let fuel = window + 1;
        let mut n = 0;
        loop {
            if n == fuel {
                return show_msgs(&ms, true);
            }
            n += 1;
            match reader.next_message_vec() {
                Some(v) => {
                    window -= v.len();
                    ms.push(v.to_vec());
                }
                None => break,
            }
        }
    }
    show_msgs(&ms, false)
}

pub fn scanfile(rt: &tokio::runtime::Runtime, dir: &std::path::Path, stream: &[u8]) -> String {
    let path = dir.join("scan_log");
    let _ = std::fs::remove_file(&path);
    let p = path.to_string_lossy().to_string();
    let r: anyhow::Result<String> = rt.block_on(async {
        {
            let _m = LogInnerManager::init(p.clone(), 1, 0, 0).await?;
        }
        {
            use std::io::{Seek, SeekFrom, Write};
            let mut f = std::fs::OpenOptions::new().write(true).open(&p)?;
            f.set_len(4096)?;
            f.seek(SeekFrom::Start(4096))?;
            f.write_all(stream)?;
            f.flush()?;
        }
        let m = LogInnerManager::init(p.clone(), 1, 0, 0).await?;
        let s = format!("{}", m);
        let cur = s
            .split("data_cursor:")
            .nth(1)
            .and_then(|x| x.split(',').next())
            .and_then(|x| x.parse::<u64>().ok())
            .unwrap_or(0);
        Ok(format!("scan cur={} c={} hung=0", cur - 4096, m.get_end_index() - 1))
    });
    match r {
        Ok(s) => s,
        Err(e) => format!("err {}", e.to_string().replace('\n', " ")),
    }
}

fn fpos(rt: &tokio::runtime::Runtime, dir: &std::path::Path, data: &[u8], start: u64, index: usize) -> String {
    let path = dir.join("fpos_file");
    std::fs::write(&path, data).unwrap();
    rt.block_on(async {
        let f = tokio::fs::OpenOptions::new().read(true).open(&path).await.unwrap();
        let mut fr = FileMessageReader::new(f, start);
        if fr.seek_start(start).await.is_err() {
            return "err".to_string();
        }
        match fr.read_index_position(index).await {
            Ok(p) => format!("pos {} {}", p.position, p.len),
            Err(_) => "err".to_string(),
        }
    })
}

/// `read_next` until it fails, at most `count` times: the frames it returned
fn fnext(rt: &tokio::runtime::Runtime, dir: &std::path::Path, data: &[u8], start: u64, count: usize) -> String {
    let path = dir.join("fnext_file");
    std::fs::write(&path, data).unwrap();
    rt.block_on(async {
        let f = tokio::fs::OpenOptions::new().read(true).open(&path).await.unwrap();
        let mut fr = FileMessageReader::new(f, start);
        if fr.seek_start(start).await.is_err() {
            return "err".to_string();
        }
        let mut ms = vec![];
        for _ in 0..count {
            match fr.read_next().await {
                Ok(m) => ms.push(m),
                Err(_) => break,
            }
        }
        show_msgs(&ms, false)
    })
}

pub fn run() {
    let rt = tokio::runtime::Builder::new_current_thread().enable_all().build().unwrap();
    let dir = tempfile::tempdir().unwrap();
    let mut reader = MessageBufReader::new();
    for_each_line(|l| {
        if l.starts_with('#') {
            reader = MessageBufReader::new();
            return l.to_string();
        }
        let ws: Vec<&str> = l.split_whitespace().collect();
        let r = catch_unwind(AssertUnwindSafe(|| -> String {
            match ws.as_slice() {
                ["w", n] => match n.parse::<u64>() {
                    Ok(v) => {
                        let bs = write_varint64(v);
                        let back = match catch_unwind(|| read_varint64(&write_varint64(v))) {
                            Ok(Ok(x)) => format!("ok {}", x),
                            Ok(Err(_)) => "err toolong".to_string(),
                            Err(_) => "panic".to_string(),
                        };
                        format!("w {} size={} back={}", to_hex(&bs), inner_sizeof_varint(v), back)
                    }
                    Err(_) => "bad-op".to_string(),
                },
                ["r", bs, off] => match (parse_bytes(bs), off.parse::<usize>()) {
                    (Some(b), Ok(o)) => match catch_unwind(|| read_varint64_offset(&b, o)) {
                        Ok(Ok(x)) => format!("ok {}", x),
                        Ok(Err(_)) => "err toolong".to_string(),
                        Err(_) => "panic".to_string(),
                    },
                    _ => "bad-op".to_string(),
                },
                ["new"] => {
                    reader = MessageBufReader::new();
                    "ok".to_string()
                }
                ["newdata", bs, st] => match (parse_bytes(bs), st.parse::<usize>()) {
                    (Some(b), Ok(s)) => {
                        if s <= b.len() {
                            reader = MessageBufReader::new_with_data(b, s);
                            "ok".to_string()
                        } else {
                            "panic".to_string()
                        }
                    }
                    _ => "bad-op".to_string(),
                },
                ["app", bs] => match parse_bytes(bs) {
                    Some(b) => {
                        reader.append_next_buf(&b);
                        "ok".to_string()
                    }
                    None => "bad-op".to_string(),
                },
                ["next"] => match reader.next_message_vec() {
                    Some(v) => format!("some {}", to_hex(v)),
                    None => "none".to_string(),
                },
                ["empty"] => format!("{}", reader.is_empty()),
                ["drain", cs @ ..] => {
                    let chunks: Option<Vec<Vec<u8>>> = cs.iter().map(|c| parse_bytes(c)).collect();
                    match chunks {
                        Some(c) => drain(&c),
                        None => "bad-op".to_string(),
                    }
                }
                ["scanfile", bs] => match parse_bytes(bs) {
                    Some(b) => scanfile(&rt, dir.path(), &b),
                    None => "bad-op".to_string(),
                },
                ["fnext", bs, st, cnt] => match (parse_bytes(bs), st.parse::<u64>(), cnt.parse::<usize>()) {
                    (Some(b), Ok(s), Ok(c)) => fnext(&rt, dir.path(), &b, s, c),
                    _ => "bad-op".to_string(),
                },
                ["fpos", bs, st, idx] => match (parse_bytes(bs), st.parse::<u64>(), idx.parse::<usize>()) {
                    (Some(b), Ok(s), Ok(i)) => fpos(&rt, dir.path(), &b, s, i),
                    _ => "bad-op".to_string(),
                },
                _ => "bad-op".to_string(),
            }
        }));
        match r {
            Ok(s) => s,
            Err(_) => "panic".to_string(),
        }
    });
}
