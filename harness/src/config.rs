//! model `config` (C09, C10): the real ConfigActor (standalone, no raft) driven through its
//! actor messages; NotifyConfig observed through the cfg-guarded hook log.
use crate::util::*;
use actix::prelude::*;
use rnacos::config::config_index::ConfigQueryParam;
use rnacos::config::core::{ConfigActor, ConfigCmd, ConfigKey, ConfigResult, ListenerItem, ListenerResult};
use rnacos::config::dal::ConfigHistoryParam;
use rnacos::config::model::{ConfigHistoryItemDO, ConfigRaftCmd, ConfigValueDO};
use std::sync::Arc;

fn unesc(s: &str) -> String {
    if s == "-" {
        return String::new();
    }
    let b = s.as_bytes();
    let mut out = vec![];
    let mut i = 0;
    while i < b.len() {
        if b[i] == b'%' && i + 2 < b.len() + 0 && i + 2 <= b.len() - 1 + 0 {
            if let (Some(x), Some(y)) = ((b[i + 1] as char).to_digit(16), (b[i + 2] as char).to_digit(16)) {
                out.push((x * 16 + y) as u8);
                i += 3;
                continue;
            }
        }
        out.push(b[i]);
        i += 1;
    }
    String::from_utf8_lossy(&out).to_string()
}

fn esc(s: &str) -> String {
    if s.is_empty() {
        return "-".to_string();
    }
    let mut o = String::new();
    for c in s.chars() {
        if c.is_ascii_alphanumeric() || c == '.' || c == '_' || c == ':' || c == '@' {
            o.push(c);
        } else {
            o.push_str(&format!("%{:02x}", c as u32));
        }
    }
    o
}

fn parse_key(s: &str) -> ConfigKey {
    let p: Vec<&str> = s.split('|').collect();
    match p.as_slice() {
        [d, g, t] => ConfigKey::new(&unesc(d), &unesc(g), &unesc(t)),
        [d, g] => ConfigKey::new(&unesc(d), &unesc(g), ""),
        _ => ConfigKey::new(s, "", ""),
    }
}

fn show_key_parts(d: &str, g: &str, t: &str) -> String {
    format!("{}|{}|{}", esc(d), esc(g), esc(t))
}

fn kv<'a>(ws: &'a [&'a str], k: &str) -> &'a str {
    for w in ws {
        if let Some(v) = w.strip_prefix(k) {
            if let Some(v) = v.strip_prefix('=') {
                return v;
            }
        }
    }
    ""
}

fn opt_s(s: &str) -> Option<Arc<String>> {
    if s == "-" || s.is_empty() {
        None
    } else {
        Some(Arc::new(unesc(s)))
    }
}

fn content_of(tok: &str) -> String {
    String::from_utf8_lossy(&parse_bytes(tok).unwrap_or_default()).to_string()
}

fn md5_hex(s: &str) -> String {
    format!("{:x}", md5::compute(s.as_bytes()))
}

fn parse_items(ws: &[&str]) -> Vec<ListenerItem> {
    let mut v = vec![];
    for w in ws {
        let p: Vec<&str> = w.split('=').collect();
        if p.len() == 2 && p[0] != "dl" {
            let md5 = if p[1] == "-" { String::new() } else { md5_hex(&content_of(p[1])) };
            v.push(ListenerItem::new(parse_key(p[0]), Arc::new(md5)));
        }
    }
    v
}

struct Waiter {
    label: String,
    rx: tokio::sync::oneshot::Receiver<ListenerResult>,
}

pub fn run() {
    let sys = actix_rt::System::new();
    let mut actor: Addr<ConfigActor> = sys.block_on(async { ConfigActor::new().start() });
    let mut waiters: Vec<Waiter> = vec![];
    for_each_line(|l| {
        if l.starts_with('#') {
            actor = sys.block_on(async { ConfigActor::new().start() });
            waiters.clear();
            rnacos::verif_hooks::drain();
            return l.to_string();
        }
        let ws: Vec<&str> = l.split_whitespace().collect();
        let a = actor.clone();
        let mut new_waiter: Option<Waiter> = None;
        let pre: String = sys.block_on(async {
            match ws.as_slice() {
                ["add", k, rest @ ..] => {
                    let key = parse_key(k);
                    let cmd = ConfigRaftCmd::ConfigAdd {
                        key: key.build_key(),
                        value: Arc::new(content_of(kv(rest, "c"))),
                        config_type: opt_s(kv(rest, "type")),
                        desc: opt_s(kv(rest, "desc")),
                        history_id: kv(rest, "hid").parse().unwrap_or(0),
                        history_table_id: kv(rest, "mark").parse().ok(),
                        op_time: kv(rest, "time").parse().unwrap_or(0),
                        op_user: opt_s(kv(rest, "user")),
                    };
                    match a.send(cmd).await {
                        Ok(Ok(_)) => "ok".to_string(),
                        _ => "err".to_string(),
                    }
                }
                ["remove", k] => match a.send(ConfigRaftCmd::ConfigRemove { key: parse_key(k).build_key() }).await {
                    Ok(Ok(_)) => "ok".to_string(),
                    _ => "err".to_string(),
                },
                ["tmp", k, rest @ ..] => {
                    match a.send(ConfigCmd::SetTmpValue(parse_key(k), Arc::new(content_of(kv(rest, "c"))))).await {
                        Ok(Ok(_)) => "ok".to_string(),
                        _ => "err".to_string(),
                    }
                }
                ["full", k, rest @ ..] => {
                    let hist = kv(rest, "hist");
                    let mut hs = vec![];
                    if hist != "-" && !hist.is_empty() {
                        for e in hist.split(';') {
                            let p: Vec<&str> = e.split(':').collect();
                            if p.len() >= 3 {
                                hs.push(ConfigHistoryItemDO {
                                    id: Some(p[0].parse().unwrap_or(0)),
                                    content: Some(content_of(p[1])),
                                    last_time: Some(p[2].parse().unwrap_or(0)),
                                    op_user: if p.len() > 3 { opt_s(p[3]).map(|x| x.to_string()) } else { None },
                                });
                            }
                        }
                    }
                    let vdo = ConfigValueDO {
                        content: Some(content_of(kv(rest, "c"))),
                        histories: hs,
                        config_type: opt_s(kv(rest, "type")).map(|x| x.to_string()),
                        desc: opt_s(kv(rest, "desc")).map(|x| x.to_string()),
                    };
                    let cmd = ConfigRaftCmd::SetFullValue { key: parse_key(k), value: vdo.into(), last_id: kv(rest, "lastid").parse().ok() };
                    match a.send(cmd).await {
                        Ok(Ok(_)) => "ok".to_string(),
                        _ => "err".to_string(),
                    }
                }
                ["get", k] => match a.send(ConfigCmd::GET(parse_key(k))).await {
                    Ok(Ok(ConfigResult::Data { value, md5, config_type, desc, last_modified })) => format!(
                        "data len={} h={} md5ok={} type={} desc={} lm={}",
                        value.len(),
                        fnv(value.as_bytes()),
                        if md5.as_str() == md5_hex(&value) { 1 } else { 0 },
                        config_type.map(|x| esc(&x)).unwrap_or("-".to_string()),
                        desc.map(|x| esc(&x)).unwrap_or("-".to_string()),
                        last_modified
                    ),
                    Ok(Ok(_)) => "none".to_string(),
                    _ => "err".to_string(),
                },
                ["page", rest @ ..] => {
                    let mut q = ConfigQueryParam {
                        tenant: Some(Arc::new(unesc(kv(rest, "t")))),
                        offset: kv(rest, "off").parse().unwrap_or(0),
                        limit: kv(rest, "lim").parse().unwrap_or(0),
                        query_context: true,
                        ..Default::default()
                    };
                    let g = kv(rest, "g");
                    if let Some(x) = g.strip_prefix('=') {
                        q.group = Some(Arc::new(unesc(x)));
                    } else if let Some(x) = g.strip_prefix('~') {
                        q.like_group = Some(unesc(x));
                    }
                    let d = kv(rest, "d");
                    if let Some(x) = d.strip_prefix('=') {
                        q.data_id = Some(Arc::new(unesc(x)));
                    } else if let Some(x) = d.strip_prefix('~') {
                        q.like_data_id = Some(unesc(x));
                    }
                    match a.send(ConfigCmd::QueryPageInfo(Box::new(q))).await {
                        Ok(Ok(ConfigResult::ConfigInfoPage(total, list))) => format!(
                            "total={} keys={}",
                            total,
                            list.iter().map(|i| show_key_parts(&i.data_id, &i.group, &i.tenant)).collect::<Vec<_>>().join(",")
                        ),
                        _ => "err".to_string(),
                    }
                }
                ["hist", k, rest @ ..] => {
                    let key = parse_key(k);
                    let kk = key.build_key();
                    let parts: Vec<&str> = kk.split('\x02').collect();
                    let p = ConfigHistoryParam {
                        id: None,
                        data_id: Some(parts.first().unwrap_or(&"").to_string()),
                        group: Some(parts.get(1).unwrap_or(&"").to_string()),
                        tenant: Some(parts.get(2).unwrap_or(&"").to_string()),
                        order_by: None,
                        order_by_desc: None,
                        limit: kv(rest, "lim").parse().ok(),
                        offset: kv(rest, "off").parse().ok(),
                    };
                    match a.send(ConfigCmd::QueryHistoryPageInfo(Box::new(p))).await {
                        Ok(Ok(ConfigResult::ConfigHistoryInfoPage(total, list))) => format!(
                            "total={} items={}",
                            total,
                            list.iter()
                                .map(|h| format!(
                                    "{}:{}:{}",
                                    h.id.unwrap_or(0),
                                    fnv(h.content.clone().unwrap_or_default().as_bytes()),
                                    h.modified_time.unwrap_or(0)
                                ))
                                .collect::<Vec<_>>()
                                .join(",")
                        ),
                        _ => "err".to_string(),
                    }
                }
                ["listen", label, rest @ ..] => {
                    let now = rnacos::common::datetime_utils::now_millis_i64();
                    let dl = match kv(rest, "dl") {
                        "past" => now - 1000,
                        "zero" => 0,
                        _ => now + 3_600_000,
                    };
                    let (tx, rx) = tokio::sync::oneshot::channel();
                    new_waiter = Some(Waiter { label: label.to_string(), rx });
                    match a.send(ConfigCmd::LISTENER(parse_items(rest), tx, dl)).await {
                        Ok(Ok(_)) => "ok".to_string(),
                        _ => "err".to_string(),
                    }
                }
                ["tick"] => {
                    tokio::time::sleep(std::time::Duration::from_millis(650)).await;
                    "ok".to_string()
                }
                ["sub", client, rest @ ..] => {
                    match a.send(ConfigCmd::Subscribe(parse_items(rest), Arc::new(client.to_string()))).await {
                        Ok(Ok(ConfigResult::ChangeKey(keys))) => {
                            let mut ks: Vec<String> = keys.iter().map(|k| {
                                let kk = k.build_key();
                                let p: Vec<&str> = kk.split('\x02').collect();
                                show_key_parts(p.first().unwrap_or(&""), p.get(1).unwrap_or(&""), p.get(2).unwrap_or(&""))
                            }).collect();
                            ks.sort();
                            format!("change={}", ks.join("+"))
                        }
                        Ok(Ok(_)) => "none".to_string(),
                        _ => "err".to_string(),
                    }
                }
                ["unsub", client, rest @ ..] => {
                    let items: Vec<ListenerItem> = rest.iter().map(|k| ListenerItem::new(parse_key(k), Arc::new(String::new()))).collect();
                    match a.send(ConfigCmd::RemoveSubscribe(items, Arc::new(client.to_string()))).await {
                        Ok(Ok(_)) => "ok".to_string(),
                        _ => "err".to_string(),
                    }
                }
                ["rmclient", client] => match a.send(ConfigCmd::RemoveSubscribeClient(Arc::new(client.to_string()))).await {
                    Ok(Ok(_)) => "ok".to_string(),
                    _ => "err".to_string(),
                },
                ["dump"] => match a.send(rnacos::verif_hooks::VerifDumpConfig).await {
                    Ok(s) => s,
                    _ => "err".to_string(),
                },
                _ => "bad-op".to_string(),
            }
        });
        if pre == "bad-op" {
            return pre;
        }
        if let Some(w) = new_waiter {
            waiters.push(w);
        }
        // events: answered long-polls and recorded notifications
        let mut evs: Vec<String> = vec![];
        let mut still = vec![];
        for mut w in waiters.drain(..) {
            match w.rx.try_recv() {
                Ok(ListenerResult::DATA(keys)) => {
                    let mut ks: Vec<String> = keys.iter().map(|k| {
                        let kk = k.build_key();
                        let p: Vec<&str> = kk.split('\x02').collect();
                        show_key_parts(p.first().unwrap_or(&""), p.get(1).unwrap_or(&""), p.get(2).unwrap_or(&""))
                    }).collect();
                    ks.sort();
                    evs.push(format!("{}:DATA:{}", w.label, ks.join("+")));
                }
                Ok(ListenerResult::NULL) => evs.push(format!("{}:NULL", w.label)),
                Err(tokio::sync::oneshot::error::TryRecvError::Empty) => still.push(w),
                Err(_) => evs.push(format!("{}:DROPPED", w.label)),
            }
        }
        waiters = still;
        for line in rnacos::verif_hooks::drain() {
            // "notify-config d/g/t c1,c2"
            let p: Vec<&str> = line.splitn(3, ' ').collect();
            if p.len() >= 2 && p[0] == "notify-config" {
                let kp: Vec<&str> = p[1].split('/').collect();
                let clients = p.get(2).unwrap_or(&"").replace(',', "+");
                evs.push(format!(
                    "notify:{}:{}",
                    show_key_parts(kp.first().unwrap_or(&""), kp.get(1).unwrap_or(&""), kp.get(2).unwrap_or(&"")),
                    clients
                ));
            }
        }
        evs.sort();
        format!("{} ev=[{}]", pre, evs.join(" "))
    });
}
