//! model `apply` (C07, C01): three complete nodes as child processes (`harness node <dir>`), fed the same
//! committed request sequence: L through the leader's apply path, F through the follower's batch replication
//! path, R through the leader path plus compactions and restarts (snapshot load + log replay).
use crate::util::*;
use std::io::{BufRead, BufReader, Write};
use std::process::{Child, ChildStdin, ChildStdout, Command, Stdio};

struct Node {
    dir: tempfile::TempDir,
    child: Option<(Child, ChildStdin, BufReader<ChildStdout>)>,
}

impl Node {
    fn new() -> Self {
        Node { dir: tempfile::tempdir().unwrap(), child: None }
    }
    fn start(&mut self) -> String {
        self.stop(false);
        let exe = std::env::current_exe().unwrap();
        let mut c = Command::new(exe)
            .arg("node")
            .arg(self.dir.path().join("db"))
            // r-nacos probes the address of every persistent instance by TCP (every 60 s by default) and sets `healthy`
            // from the result: a node-local observation of the environment, not part of the replicated state. The
            // generated addresses do not exist; a node that runs for a minute would differ from one restarted meanwhile.
            .env("RNACOS_NAMING_PERPETUAL_INSTANCE_PROBE_INTERVAL_SECOND", "2000000000")
            .stdin(Stdio::piped())
            .stdout(Stdio::piped())
            .stderr(if std::env::var("VERIF_RAW").is_ok() { Stdio::inherit() } else { Stdio::null() })
            .spawn()
            .unwrap();
        let stdin = c.stdin.take().unwrap();
        let mut out = BufReader::new(c.stdout.take().unwrap());
        let mut line = String::new();
        let _ = out.read_line(&mut line);
        self.child = Some((c, stdin, out));
        line.trim().to_string()
    }
    fn stop(&mut self, kill: bool) {
        if let Some((mut c, mut stdin, _)) = self.child.take() {
            if kill {
                let _ = c.kill();
            } else {
                let _ = stdin.write_all(b"quit\n");
                let _ = stdin.flush();
            }
            drop(stdin);
            let _ = c.wait();
        }
    }
    fn ask(&mut self, l: &str) -> String {
        match &mut self.child {
            None => "down".to_string(),
            Some((_, stdin, out)) => {
                if stdin.write_all(format!("{}\n", l).as_bytes()).is_err() || stdin.flush().is_err() {
                    return "dead".to_string();
                }
                let mut line = String::new();
                match out.read_line(&mut line) {
                    Ok(0) | Err(_) => "dead".to_string(),
                    Ok(_) => line.trim().to_string(),
                }
            }
        }
    }
}

pub fn run() {
    let mut nodes: Vec<Node> = vec![];
    let mut seq: u64 = 0;
    // requests handed to the follower node and not yet replicated: its queue lives in the child process
    let mut queued: Vec<String> = vec![];
    // every request so far ("kind a b seq", log index = position + 1) and how many of them the late joiner N has
    let mut history: Vec<String> = vec![];
    let mut joiner_next: usize = 0;
    for_each_line(|l| {
        if l.starts_with('#') {
            for n in nodes.iter_mut() {
                n.stop(true);
            }
            nodes = vec![];
            seq = 0;
            queued = vec![];
            history = vec![];
            joiner_next = 0;
            return l.to_string();
        }
        let ws: Vec<&str> = l.split_whitespace().collect();
        let idx = |name: &str| match name {
            "L" => Some(0usize),
            "F" => Some(1),
            "R" => Some(2),
            "N" => Some(3),
            _ => None,
        };
        match ws.as_slice() {
            ["start"] => {
                // L, F, R receive every request; N is a node that joins late and is caught up by snapshot installation only
                nodes = vec![Node::new(), Node::new(), Node::new(), Node::new()];
                let r: Vec<String> = nodes.iter_mut().map(|n| n.start()).collect();
                if r.iter().all(|x| x.starts_with("ready")) { "ok".to_string() } else { format!("dead {}", r.join("|")) }
            }
            ["req", kind, a, b] if nodes.len() == 4 => {
                seq += 1;
                history.push(format!("{} {} {} {}", kind, a, b, seq));
                let rl = nodes[0].ask(&format!("L {} {} {} {}", kind, a, b, seq));
                let q = format!("Q {} {} {} {}", kind, a, b, seq);
                let rf = nodes[1].ask(&q);
                queued.push(q);
                let rr = nodes[2].ask(&format!("L {} {} {} {}", kind, a, b, seq));
                format!("req L={} F={} R={}", rl, rf, rr)
            }
            // a publish whose history id is drawn by node <n>'s own sequence (that node plays the leader for this write)
            ["reqd", n, a, b] if nodes.len() == 4 => match idx(n) {
                Some(i) if i != 1 && i != 3 => {
                    let d = nodes[i].ask("draw");
                    let w: Vec<&str> = d.split_whitespace().collect();
                    if w.len() != 3 || w[0] != "drawn" {
                        format!("reqd nodraw {}", d)
                    } else {
                        seq += 1;
                        let kind = format!("cfgsetd:{}:{}", w[1], w[2]);
                        history.push(format!("{} {} {} {}", kind, a, b, seq));
                        let rl = nodes[0].ask(&format!("L {} {} {} {}", kind, a, b, seq));
                        let q = format!("Q {} {} {} {}", kind, a, b, seq);
                        let rf = nodes[1].ask(&q);
                        queued.push(q);
                        let rr = nodes[2].ask(&format!("L {} {} {} {}", kind, a, b, seq));
                        format!("reqd id={} mark={} L={} F={} R={}", w[1], w[2], rl, rf, rr)
                    }
                }
                _ => "bad-op".to_string(),
            },
            ["flush", sizes] if nodes.len() == 4 => {
                queued.clear();
                format!("flush {}", nodes[1].ask(&format!("F {}", sizes)))
            }
            ["compact", n] if nodes.len() == 4 => match idx(n) {
                Some(i) => {
                    let r = nodes[i].ask("compact");
                    format!("compact {}", r.split_whitespace().next().unwrap_or("err"))
                }
                None => "bad-op".to_string(),
            },
            ["halfcompact", n] if nodes.len() == 4 => match idx(n) {
                Some(i) => format!("halfcompact {}", nodes[i].ask("halfcompact")),
                None => "bad-op".to_string(),
            },
            ["restart", n] | ["crash", n] if nodes.len() == 4 => match idx(n) {
                Some(i) => {
                    if ws[0] == "crash" {
                        // the property's stop points are those at which every acknowledged write has reached the OS:
                        // a round trip through the node and a moment for tokio's blocking file writes, then SIGKILL
                        let _ = nodes[i].ask("dump");
                        std::thread::sleep(std::time::Duration::from_millis(40));
                    }
                    nodes[i].stop(ws[0] == "crash");
                    let r = nodes[i].start();
                    if i == 1 {
                        for q in &queued {
                            let _ = nodes[1].ask(q);
                        }
                    }
                    if r.starts_with("ready") { format!("restarted {}", r) } else { format!("dead {}", r) }
                }
                None => "bad-op".to_string(),
            },
            ["files", n] if nodes.len() == 4 => match idx(n) {
                Some(i) => {
                    let mut v: Vec<String> = std::fs::read_dir(nodes[i].dir.path().join("db"))
                        .map(|rd| rd.filter_map(|e| e.ok()).map(|e| format!("{}:{}", e.file_name().to_string_lossy(), e.metadata().map(|m| m.len()).unwrap_or(0))).collect())
                        .unwrap_or_default();
                    v.sort();
                    if std::env::var("VERIF_KEEP").is_ok() {
                        let keep = format!("/tmp/keep_{}_{}", n, rnacos::common::datetime_utils::now_millis());
                        let _ = std::process::Command::new("cp").arg("-r").arg(nodes[i].dir.path().join("db")).arg(&keep).status();
                        v.push(format!("kept={}", keep));
                    }
                    format!("files {}", v.join(","))
                }
                None => "bad-op".to_string(),
            },
            // the leader's current snapshot is installed on the late joiner through its RaftStorage
            ["install", from, to] if nodes.len() == 4 => match (idx(from), idx(to)) {
                (Some(a), Some(b)) if a != b => {
                    let sf = nodes[a].ask("snapfile");
                    let w: Vec<&str> = sf.split_whitespace().collect();
                    if w.len() == 4 && w[0] == "snapfile" {
                        // also when the joiner's log is longer than the snapshot (delete_through = Some): raft keeps the
                        // snapshot's index as its last log index and the leader sends the entries after it again
                        joiner_next = w[2].parse::<usize>().unwrap_or(0);
                        format!("install {}", nodes[b].ask(&format!("install {} {} {}", w[1], w[2], w[3])))
                    } else {
                        "install nosnapshot".to_string()
                    }
                }
                _ => "bad-op".to_string(),
            },
            // the entries after the installed snapshot reach the late joiner as replicated batches (follower path)
            ["catchup", sizes] if nodes.len() == 4 => {
                for (k, h) in history.iter().enumerate().skip(joiner_next) {
                    let _ = nodes[3].ask(&format!("QI {} {}", k + 1, h));
                }
                joiner_next = history.len();
                format!("catchup {}", nodes[3].ask(&format!("F {}", sizes)))
            }
            ["dumpn"] if nodes.len() == 4 => {
                let a = nodes[0].ask("dump").replace(' ', ";");
                let b = nodes[3].ask("dump").replace(' ', ";");
                // `behind`: committed requests the joiner has received neither in a snapshot nor as entries
                let lm = nodes[0].ask("mem").replace("mem ", "");
                let nm = nodes[3].ask("mem").replace("mem ", "");
                format!("dumpn behind={} LM={} NM={} L={} N={}", history.len().saturating_sub(joiner_next), lm, nm, a, b)
            }
            ["dump"] if nodes.len() == 4 => {
                let d: Vec<String> = nodes.iter_mut().take(3).map(|n| n.ask("dump").replace(' ', ";")).collect();
                // the served user namespaces of the node that never stops, as a token of its own (predicted by the
                // namespace component model)
                let ns = d[0].split(';').find_map(|p| p.strip_prefix("nsq=")).unwrap_or("-").to_string();
                let sq = d[0].split(';').find_map(|p| p.strip_prefix("sq=")).unwrap_or("-").to_string();
                let tb = d[0].split(';').find_map(|p| p.strip_prefix("tb=")).unwrap_or("-").to_string();
                format!("dump nsL={} sqL={} tbL={} L={} F={} R={}", ns, sq, tb, d[0], d[1], d[2])
            }
            _ => "bad-op".to_string(),
        }
    });
    for n in nodes.iter_mut() {
        n.stop(true);
    }
}
