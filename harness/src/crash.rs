//! model `crash` (C04): crash-consistency of the Raft store by enumerating every prefix of the file mutations.
//!   harness crash            parent: line protocol below
//!   harness crashchild <dir> the store under the `fsjournal.so` interposer (spawned by the parent)
//!   harness crashprobe <dir> <n> recovery of a materialised directory image + usability probe
//! Ops of the parent:
//!   begin [geom=<i>,<a>]     start the journaled store on an empty directory                      -> ok
//!   a/b/del/hs/applied …     forwarded to the store (see logstore.rs); each acknowledgement is marked in the journal
//!   settle                   wait until the periodic flush has passed; marked in the journal        -> ok
//!   enumerate probe=<n>      stop the store; for EVERY prefix of the journal: materialise the directory as the kernel
//!                            would have left it, open it with the real recovery code, report what it exposes, then
//!                            append <n> entries, reopen and read again                            -> enum …
use crate::logstore::{close, start_session, Session};
use crate::util::*;
use std::io::{BufRead, BufReader, Read, Seek, SeekFrom, Write};
use std::process::{Child, ChildStdin, ChildStdout, Command, Stdio};

fn mark(text: &str) {
    unsafe {
        let name = std::ffi::CString::new("fsj_mark").unwrap();
        let f = libc::dlsym(libc::RTLD_DEFAULT, name.as_ptr());
        if !f.is_null() {
            let f: extern "C" fn(*const libc::c_char) = std::mem::transmute(f);
            let t = std::ffi::CString::new(text).unwrap();
            f(t.as_ptr());
        }
    }
}

fn ask_session(s: &Session, l: &str) -> String {
    let (rtx, rrx) = std::sync::mpsc::channel();
    if s.tx.send((l.to_string(), rtx)).is_err() {
        return "dead".to_string();
    }
    rrx.recv_timeout(std::time::Duration::from_secs(20)).unwrap_or_else(|_| "timeout".to_string())
}

/// the journaled store: ops on stdin, one answer per line; every acknowledgement is marked in the journal
pub fn run_child(dir: &str) {
    let _ = std::fs::create_dir_all(dir);
    let sess = start_session(std::path::PathBuf::from(dir));
    println!("{}", if sess.is_some() { "ready" } else { "dead" });
    let stdin = std::io::stdin();
    let mut n = 0u64;
    for line in stdin.lock().lines() {
        let l = match line {
            Ok(l) => l,
            Err(_) => break,
        };
        let l = l.trim().to_string();
        if l == "quit" {
            break;
        }
        let out = if l == "settle" {
            std::thread::sleep(std::time::Duration::from_millis(650));
            mark("settle");
            "ok".to_string()
        } else {
            n += 1;
            mark(&format!("begin {}", n));
            let r = match &sess {
                Some(s) => ask_session(s, &l),
                None => "closed".to_string(),
            };
            mark(&format!("ack {}", n));
            r
        };
        println!("{}", out);
    }
    close(sess);
    std::process::exit(0);
}

/// recovery + probe of one directory image
pub fn run_probe(dir: &str, probe: u64) {
    let path = std::path::PathBuf::from(dir);
    let mut out = String::new();
    let sess = start_session(path.clone());
    match &sess {
        None => out.push_str("open=dead"),
        Some(s) => {
            let init = ask_session(s, "init");
            let ents = ask_session(s, "get 0 1000000000");
            out.push_str(&format!("open=ok {} {}", init.replace(' ', ";"), ents.replace(' ', ";")));
            // is the store still usable? append after the recovered end, restart, read again
            let last: u64 = init.split_whitespace().find_map(|w| w.strip_prefix("last=")).and_then(|v| v.split(':').next()).and_then(|v| v.parse().ok()).unwrap_or(0);
            let mut ok = true;
            let mut why = String::new();
            // the snapshot this start would load (the last one of the catalogue) must be there
            if ask_session(s, "lastsnap").contains("missing") {
                ok = false;
                why = "the-last-snapshot-of-the-catalogue-has-no-file".to_string();
            }
            if ok && probe > 0 {
                let r = ask_session(s, &format!("b {} 9 {} 7 900000", last + 1, probe));
                if r != "ok" {
                    ok = false;
                    why = format!("append-after-recovery:{}", r);
                }
            }
            let before = ask_session(s, "get 0 1000000000");
            close(sess);
            let sess2 = start_session(path.clone());
            match &sess2 {
                None => {
                    ok = false;
                    why = "second-open-dead".to_string();
                }
                Some(s2) => {
                    let after = ask_session(s2, "get 0 1000000000");
                    if ok && after != before {
                        ok = false;
                        why = "entries-differ-after-second-restart".to_string();
                    }
                    // contiguity of what is finally exposed
                    let idx: Vec<u64> = after.split_whitespace().skip(2).filter_map(|e| e.split(':').next().and_then(|x| x.parse().ok())).collect();
                    if ok && idx.windows(2).any(|w| w[1] != w[0] + 1) {
                        ok = false;
                        why = "not-contiguous-after-probe".to_string();
                    }
                    if ok && probe > 0 && idx.last().cloned().unwrap_or(0) != last + probe {
                        ok = false;
                        why = format!("probe-entries-lost:last={}", idx.last().cloned().unwrap_or(0));
                    }
                }
            }
            close(sess2);
            out.push_str(&format!(" probe={}", if ok { "ok".to_string() } else { format!("bad:{}", why) }));
            println!("{}", out);
            std::process::exit(0);
        }
    }
    println!("{}", out);
    std::process::exit(0);
}

struct Journaled {
    dir: std::path::PathBuf,
    journal: std::path::PathBuf,
    child: Child,
    stdin: ChildStdin,
    out: BufReader<ChildStdout>,
}

fn shim_path() -> String {
    let exe = std::env::current_exe().unwrap();
    // <verif>/.build/target/debug/harness -> <verif>/.build/fsjournal.so
    exe.parent().and_then(|p| p.parent()).and_then(|p| p.parent()).map(|p| p.join("fsjournal.so")).unwrap().to_string_lossy().to_string()
}

fn apply_prefix(journal: &[String], blob: &mut std::fs::File, k: usize, root: &std::path::Path, watched: &str) {
    let _ = std::fs::remove_dir_all(root);
    let _ = std::fs::create_dir_all(root);
    for line in &journal[..k] {
        let ws: Vec<&str> = line.split_whitespace().collect();
        let p = |rel: &str| root.join(rel.trim_start_matches(watched).trim_start_matches('/'));
        match ws.as_slice() {
            ["C", rel] => {
                let _ = std::fs::OpenOptions::new().create(true).write(true).open(p(rel));
            }
            ["T", rel, len] => {
                if let Ok(f) = std::fs::OpenOptions::new().create(true).write(true).open(p(rel)) {
                    let _ = f.set_len(len.parse().unwrap_or(0));
                }
            }
            ["U", rel] => {
                let _ = std::fs::remove_file(p(rel));
            }
            ["R", a, b] => {
                let _ = std::fs::rename(p(a), p(b));
            }
            ["W", rel, off, len, boff] => {
                let len: usize = len.parse().unwrap_or(0);
                let mut buf = vec![0u8; len];
                let _ = blob.seek(SeekFrom::Start(boff.parse().unwrap_or(0)));
                let _ = blob.read_exact(&mut buf);
                if let Ok(mut f) = std::fs::OpenOptions::new().create(true).write(true).open(p(rel)) {
                    let _ = f.seek(SeekFrom::Start(off.parse().unwrap_or(0)));
                    let _ = f.write_all(&buf);
                }
            }
            _ => {}
        }
    }
}

/// known finding F30: between the unlink of a later log file and the next catalogue write, once an earlier log file
/// has been written to (the cut), the catalogue on disk is stale. `win=xcut` marks the crash points inside that window.
fn in_cut_window(lines: &[String], k: usize) -> bool {
    fn log_id(name: &str) -> Option<u64> {
        name.strip_prefix("log_").and_then(|x| x.parse().ok())
    }
    let mut unlinked: Option<u64> = None;
    let mut cut_written = false;
    for l in lines.iter().take(k) {
        let w: Vec<&str> = l.split_whitespace().collect();
        match w.as_slice() {
            ["U", name] => {
                if let Some(a) = log_id(name) {
                    unlinked = Some(unlinked.map_or(a, |u| u.min(a)));
                    cut_written = false;
                }
            }
            ["W", name, ..] if *name == "index" => {
                unlinked = None;
                cut_written = false;
            }
            ["W", name, ..] => {
                if let (Some(b), Some(a)) = (log_id(name), unlinked) {
                    if b < a {
                        cut_written = true;
                    }
                }
            }
            _ => {}
        }
    }
    unlinked.is_some() && cut_written
}

pub fn run() {
    let mut cur: Option<Journaled> = None;
    let work = tempfile::tempdir().unwrap();
    let mut serial = 0u32;
    for_each_line(|l| {
        let ws: Vec<&str> = l.split_whitespace().collect();
        if l.starts_with('#') {
            if let Some(mut j) = cur.take() {
                let _ = j.child.kill();
                let _ = j.child.wait();
            }
            return l.to_string();
        }
        match ws.as_slice() {
            ["begin", rest @ ..] => {
                if let Some(mut j) = cur.take() {
                    let _ = j.child.kill();
                    let _ = j.child.wait();
                }
                serial += 1;
                let dir = work.path().join(format!("run{}", serial)).join("db");
                let journal = work.path().join(format!("run{}.journal", serial));
                let _ = std::fs::create_dir_all(&dir);
                let mut cmd = Command::new(std::env::current_exe().unwrap());
                cmd.arg("crashchild").arg(&dir).env("LD_PRELOAD", shim_path()).env("VERIF_FSJ_DIR", &dir).env("VERIF_FSJ_OUT", &journal);
                match rest.first().and_then(|g| g.strip_prefix("geom=")) {
                    Some(g) => {
                        cmd.env("RNACOS_VERIF_LOG_GEOMETRY", g);
                    }
                    None => {
                        cmd.env_remove("RNACOS_VERIF_LOG_GEOMETRY");
                    }
                }
                let mut c = cmd.stdin(Stdio::piped()).stdout(Stdio::piped()).stderr(Stdio::null()).spawn().unwrap();
                let stdin = c.stdin.take().unwrap();
                let mut out = BufReader::new(c.stdout.take().unwrap());
                let mut line = String::new();
                let _ = out.read_line(&mut line);
                let ok = line.trim() == "ready";
                cur = Some(Journaled { dir, journal, child: c, stdin, out });
                if ok { "ok".to_string() } else { "dead".to_string() }
            }
            ["reenum", path, rest @ ..] => {
                let probe: u64 = rest.iter().find_map(|w| w.strip_prefix("probe=")).and_then(|v| v.parse().ok()).unwrap_or(0);
                let geom = rest.iter().find_map(|w| w.strip_prefix("geom=")).map(|s| s.to_string());
                let only: Option<usize> = rest.iter().find_map(|w| w.strip_prefix("k=")).and_then(|v| v.parse().ok());
                let lines: Vec<String> = std::fs::read_to_string(path).unwrap_or_default().lines().map(|s| s.to_string()).collect();
                let mut blob = match std::fs::File::open(format!("{}.blob", path)) {
                    Ok(f) => f,
                    Err(_) => return "enum n=0 nojournal".to_string(),
                };
                let mut parts = vec![];
                for k in 0..=lines.len() {
                    if let Some(o) = only {
                        if o != k {
                            continue;
                        }
                    }
                    let img = work.path().join("img");
                    apply_prefix(&lines, &mut blob, k, &img, "");
                    if only.is_some() {
                        let keep = format!("/tmp/crashimg_{}", k);
                        let _ = std::process::Command::new("rm").arg("-rf").arg(&keep).status();
                        let _ = std::process::Command::new("cp").arg("-r").arg(&img).arg(&keep).status();
                    }
                    let mut cmd = Command::new(std::env::current_exe().unwrap());
                    cmd.arg("crashprobe").arg(&img).arg(probe.to_string());
                    if let Some(g) = &geom {
                        cmd.env("RNACOS_VERIF_LOG_GEOMETRY", g);
                    }
                    let res = match cmd.stderr(Stdio::null()).output() {
                        Ok(o) => String::from_utf8_lossy(&o.stdout).trim().to_string(),
                        Err(_) => "open=spawnerr".to_string(),
                    };
                    parts.push(format!("k={} {} win={} {}", k, if k > 0 { lines[k - 1].clone().replace(' ', "_") } else { "-".to_string() },
                        if in_cut_window(&lines, k) { "xcut" } else { "-" }, res));
                }
                format!("enum n={} | {}", lines.len() + 1, parts.join(" | "))
            }
            ["enumerate", rest @ ..] => {
                let probe: u64 = rest.iter().find_map(|w| w.strip_prefix("probe=")).and_then(|v| v.parse().ok()).unwrap_or(0);
                let geom = rest.iter().find_map(|w| w.strip_prefix("geom=")).map(|s| s.to_string());
                let mut j = match cur.take() {
                    Some(j) => j,
                    None => return "closed".to_string(),
                };
                let _ = j.stdin.write_all(b"quit\n");
                let _ = j.stdin.flush();
                let _ = j.child.wait();
                let lines: Vec<String> = std::fs::read_to_string(&j.journal).unwrap_or_default().lines().map(|s| s.to_string()).collect();
                let mut blob = match std::fs::File::open(format!("{}.blob", j.journal.to_string_lossy())) {
                    Ok(f) => f,
                    Err(_) => return "enum n=0 nojournal".to_string(),
                };
                let mut parts = vec![];
                let mut acks = 0u64;
                let mut begun = 0u64;
                let mut settled = 0u64;
                let mut last_seen = String::new();
                for k in 0..=lines.len() {
                    if k > 0 {
                        let w: Vec<&str> = lines[k - 1].split_whitespace().collect();
                        match w.as_slice() {
                            ["M", "ack", n] => acks = n.parse().unwrap_or(acks),
                            ["M", "begin", n] => begun = n.parse().unwrap_or(begun),
                            ["M", "settle"] => settled = acks,
                            _ => {}
                        }
                        // markers do not change the directory: only mutation boundaries are crash points
                        if w.first() == Some(&"M") && k < lines.len() {
                            continue;
                        }
                    }
                    let img = work.path().join("img");
                    apply_prefix(&lines, &mut blob, k, &img, "");
                    let mut cmd = Command::new(std::env::current_exe().unwrap());
                    cmd.arg("crashprobe").arg(&img).arg(probe.to_string());
                    match &geom {
                        Some(g) => {
                            cmd.env("RNACOS_VERIF_LOG_GEOMETRY", g);
                        }
                        None => {
                            cmd.env_remove("RNACOS_VERIF_LOG_GEOMETRY");
                        }
                    }
                    let outp = cmd.stderr(Stdio::null()).output();
                    let res = match outp {
                        Ok(o) => String::from_utf8_lossy(&o.stdout).trim().to_string(),
                        Err(_) => "open=spawnerr".to_string(),
                    };
                    let res = if res.is_empty() { "open=crashed".to_string() } else { res };
                    // consecutive identical recoveries are reported once (with the range of prefixes)
                    let key = format!("acks={} begun={} settled={} win={} {}", acks, begun, settled, if in_cut_window(&lines, k) { "xcut" } else { "-" }, res);
                    if key != last_seen {
                        parts.push(format!("k={} {}", k, key));
                        last_seen = key;
                    }
                }
                let _ = std::fs::remove_dir_all(&j.dir);
                // a journal on which some prefix does not recover is kept for deterministic re-enumeration
                let bad = parts.iter().any(|p| !p.contains("open=ok") || p.contains("probe=bad"));
                if bad || std::env::var("VERIF_KEEP_JOURNAL").is_ok() {
                    let keep = std::path::PathBuf::from(std::env::var("VERIF_WORK").unwrap_or("/verif/work".to_string())).join("journals");
                    let _ = std::fs::create_dir_all(&keep);
                    let name = format!("j{}_{}", std::process::id(), serial);
                    let _ = std::fs::copy(&j.journal, keep.join(format!("{}.journal", name)));
                    let _ = std::fs::copy(format!("{}.blob", j.journal.to_string_lossy()), keep.join(format!("{}.journal.blob", name)));
                    parts.push(format!("saved={}", keep.join(format!("{}.journal", name)).to_string_lossy()));
                }
                format!("enum n={} | {}", lines.len() + 1, parts.join(" | "))
            }
            _ => match &mut cur {
                None => "closed".to_string(),
                Some(j) => {
                    if j.stdin.write_all(format!("{}\n", l).as_bytes()).is_err() || j.stdin.flush().is_err() {
                        return "dead".to_string();
                    }
                    let mut line = String::new();
                    match j.out.read_line(&mut line) {
                        Ok(0) | Err(_) => "dead".to_string(),
                        Ok(_) => line.trim().to_string(),
                    }
                }
            },
        }
    });
}
