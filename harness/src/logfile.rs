//! model `logfile` (C02/C03, one file): the real LogInnerManager on a file in a temp directory;
//! reopen = drop the manager and `init` again on the same path.
use crate::util::*;
use rnacos::raft::filestore::model::LogRecordDto;
use rnacos::raft::filestore::raftlog::{LogInnerManager, LogWriteMark};

fn value(len: u64, seed: u64) -> Vec<u8> {
    (0..len).map(|j| ((seed * 131 + j * 17) % 256) as u8).collect()
}

fn n(s: &str) -> u64 {
    s.parse().unwrap_or(0)
}

pub fn run() {
    let rt = tokio::runtime::Builder::new_current_thread().enable_all().build().unwrap();
    let mut dir = tempfile::tempdir().unwrap();
    let mut mgr: Option<LogInnerManager> = None;
    let mut params = (1u64, 0u64, 0u64);
    for_each_line(|l| {
        if l.starts_with('#') {
            mgr = None;
            dir = tempfile::tempdir().unwrap();
            params = (1, 0, 0);
            return l.to_string();
        }
        let path = dir.path().join("log_1").to_string_lossy().to_string();
        let ws: Vec<&str> = l.split_whitespace().collect();
        let r = std::panic::catch_unwind(std::panic::AssertUnwindSafe(|| {
            rt.block_on(async {
                match ws.as_slice() {
                    ["open", ..] | ["reopen", ..] => {
                        if ws.len() >= 4 {
                            params = (n(ws[1]), n(ws[2]), n(ws[3]));
                        }
                        if ws[0] == "open" {
                            match ws.get(4).and_then(|g| g.strip_prefix("geom=")) {
                                Some(g) => std::env::set_var("RNACOS_VERIF_LOG_GEOMETRY", g),
                                None => std::env::remove_var("RNACOS_VERIF_LOG_GEOMETRY"),
                            }
                        }
                        mgr = None;
                        match LogInnerManager::init(path.clone(), params.0, params.1, params.2).await {
                            Ok(m) => {
                                let s = format!("ok end={} term={}", m.get_end_index(), m.get_last_term());
                                mgr = Some(m);
                                s
                            }
                            Err(_) => "err".to_string(),
                        }
                    }
                    ["w", i, t, len, sd] => match mgr.as_mut() {
                        None => "closed".to_string(),
                        Some(m) => {
                            let rec = LogRecordDto { index: n(i), term: n(t), value: value(n(len), n(sd)) };
                            match m.write(&rec).await {
                                Ok(LogWriteMark::Success) => "ok".to_string(),
                                Ok(LogWriteMark::SuccessToEnd) => "toend".to_string(),
                                Ok(LogWriteMark::Failure) => "full".to_string(),
                                Ok(LogWriteMark::IndexEqualError) => "idxerr".to_string(),
                                Ok(LogWriteMark::Error) | Err(_) => "err".to_string(),
                            }
                        }
                    },
                    ["strip", k] => match mgr.as_mut() {
                        None => "closed".to_string(),
                        Some(m) => match m.strip_log_to(n(k)).await {
                            Ok(_) => "ok".to_string(),
                            Err(_) => "err".to_string(),
                        },
                    },
                    ["read", a, b] => match mgr.as_mut() {
                        None => "closed".to_string(),
                        Some(m) => match m.read_records(n(a), n(b)).await {
                            Ok(rs) => {
                                let mut s = format!("recs n={}", rs.len());
                                for r in rs {
                                    s.push_str(&format!(" {}:{}:{}:{}", r.index, r.term, r.value.len(), fnv(&r.value)));
                                }
                                s
                            }
                            Err(_) => "err".to_string(),
                        },
                    },
                    ["last"] => match mgr.as_ref() {
                        None => "closed".to_string(),
                        Some(m) => {
                            let i = m.get_last_index_info();
                            format!("last {} {}", i.index, i.term)
                        }
                    },
                    ["state"] => match mgr.as_ref() {
                        None => "closed".to_string(),
                        Some(m) => {
                            let bytes = std::fs::read(&path).unwrap_or_default();
                            let mut e = bytes.len();
                            while e > 0 && bytes[e - 1] == 0 {
                                e -= 1;
                            }
                            format!("state end={} len={} h={}", m.get_end_index(), bytes.len(), fnv(&bytes[..e]))
                        }
                    },
                    _ => "bad-op".to_string(),
                }
            })
        }));
        r.unwrap_or_else(|_| "panic".to_string())
    });
}
