//! model `distro` (C14): the real InnerNodeManage actor (one per simulated local node) and
//! NodeManage::route_addr, with liveness decided by the genuine 15 s timer: nodes of a view that
//! are to be "down" are simply never pinged; all views wait concurrently.
use actix::prelude::*;
use bean_factory::{BeanDefinition, BeanFactory};
use rnacos::common::hash_utils::get_hash_value;
use rnacos::common::AppSysConfig;
use rnacos::naming::cluster::model::{NamingRouteAddr, ProcessRange};
use rnacos::naming::cluster::node_manage::{InnerNodeManage, NodeManage, NodeManageRequest, NodeManageResponse};
use rnacos::raft::network::factory::{RaftClusterRequestSender, RaftConnectionFactory};
use std::io::BufRead;
use std::sync::Arc;
use std::time::Duration;

const RES: u64 = 60; // lcm(1..5): a key's residue mod 60 fixes its residue mod every cluster size

struct NodeOp {
    ids: Vec<u64>,
    valid: Vec<u64>,
    flap: Vec<u64>,
    drop: Vec<u64>,
    local: u64,
}

fn parse_list(s: &str) -> Vec<u64> {
    s.split(',').filter(|x| !x.is_empty()).filter_map(|x| x.parse().ok()).collect()
}

fn parse_node(ws: &[&str]) -> Option<NodeOp> {
    let mut ids = vec![];
    let mut valid = vec![];
    let mut local = 0;
    let mut flap = vec![];
    let mut drop = vec![];
    for w in ws {
        if let Some(v) = w.strip_prefix("ids=") {
            ids = parse_list(v);
        } else if let Some(v) = w.strip_prefix("valid=") {
            valid = parse_list(v);
        } else if let Some(v) = w.strip_prefix("flap=") {
            flap = parse_list(v);
        } else if let Some(v) = w.strip_prefix("drop=") {
            drop = parse_list(v);
        } else if let Some(v) = w.strip_prefix("local=") {
            local = v.parse().ok()?;
        }
    }
    Some(NodeOp { ids, valid, flap, drop, local })
}

fn addr_of(id: u64) -> Arc<String> {
    Arc::new(format!("127.0.0.1:{}", 20000 + id))
}

pub fn run() {
    let lines: Vec<String> = std::io::stdin().lock().lines().map_while(Result::ok).collect();
    // keys with every residue mod 60
    let mut keys: Vec<Option<u64>> = vec![None; RES as usize];
    let mut found = 0;
    let mut k = 0u64;
    while found < RES as usize {
        let r = (get_hash_value(&k) % RES) as usize;
        if keys[r].is_none() {
            keys[r] = Some(k);
            found += 1;
        }
        k += 1;
    }
    let keys: Vec<u64> = keys.into_iter().map(|x| x.unwrap()).collect();
    let sys = actix_rt::System::new();
    let out: Vec<String> = sys.block_on(async move {
        let sys_config = Arc::new(AppSysConfig::init_from_env());
        let conn_factory = RaftConnectionFactory::new(60).start();
        let cluster_sender = Arc::new(RaftClusterRequestSender::new(conn_factory.clone(), sys_config.clone()));
        let mut slots: Vec<Option<(NodeOp, Addr<InnerNodeManage>)>> = vec![];
        for l in &lines {
            let ws: Vec<&str> = l.split_whitespace().collect();
            if ws.first() == Some(&"node") {
                if let Some(op) = parse_node(&ws[1..]) {
                    let factory = BeanFactory::new();
                    factory.register(BeanDefinition::from_obj(sys_config.clone()));
                    factory.register(BeanDefinition::actor_from_obj(conn_factory.clone()));
                    factory.register(BeanDefinition::from_obj(cluster_sender.clone()));
                    let addr = InnerNodeManage::new(op.local).start();
                    factory.register(BeanDefinition::actor_with_inject_from_obj(addr.clone()));
                    let _ = factory.init().await;
                    let nodes: Vec<(u64, Arc<String>)> = op.ids.iter().map(|i| (*i, addr_of(*i))).collect();
                    let _ = addr.send(NodeManageRequest::UpdateNodes(nodes)).await;
                    slots.push(Some((op, addr)));
                    continue;
                }
            }
            slots.push(None);
        }
        // keep the "valid" nodes alive with pings, starve the others past the genuine 15 s timeout
        let rounds = 7; // 7 * 3 s = 21 s > 15 s + one 3 s status tick
        for _ in 0..rounds {
            for s in slots.iter().flatten() {
                // `drop` nodes are alive during this phase and fall silent afterwards
                for id in s.0.valid.iter().chain(s.0.drop.iter()) {
                    if *id != s.0.local {
                        s.1.do_send(NodeManageRequest::ActiveNode(*id));
                    }
                }
            }
            tokio::time::sleep(Duration::from_millis(3000)).await;
        }
        // phase 2: nodes that "flap" were starved above (now Invalid) and report in again; after the next
        // status ticks they must count as live again and the owner range must follow.  In a view that also has
        // `drop` nodes the flapping nodes report in again just when the dropped ones run into their time-out
        // (15 s after their last ping), so that one and the same status tick sees a node come back and another one
        // expire: the number of live nodes stays, the live set changes.
        if slots.iter().flatten().any(|s| !s.0.flap.is_empty() || !s.0.drop.is_empty()) {
            let swap = slots.iter().flatten().any(|s| !s.0.drop.is_empty());
            // the status ticks of the actors run in step with the ping rounds above (both started together, both every
            // 3 s): the dropped nodes get their last ping in the middle of a period, so that the instant at which they run
            // into the time-out - and at which the flapping nodes report in again - lies in the middle of a period too
            let drop_last = std::time::Instant::now() + Duration::from_millis(1500);
            let mut drop_done = !swap;
            let swap_at = drop_last + Duration::from_millis(15050);
            let end = if swap { swap_at + Duration::from_millis(9000) } else { std::time::Instant::now() + Duration::from_millis(9000) };
            let mut next_ping = std::time::Instant::now();
            let mut flap_started = false;
            while std::time::Instant::now() < end {
                let now = std::time::Instant::now();
                if !drop_done && now >= drop_last {
                    drop_done = true;
                    for s in slots.iter().flatten() {
                        for id in s.0.drop.iter() {
                            if *id != s.0.local {
                                s.1.do_send(NodeManageRequest::ActiveNode(*id));
                            }
                        }
                    }
                }
                let start_flap = swap && !flap_started && now >= swap_at;
                if now >= next_ping || start_flap {
                    if now >= next_ping {
                        next_ping = now + Duration::from_millis(3000);
                    }
                    if start_flap {
                        flap_started = true;
                    }
                    for s in slots.iter().flatten() {
                        let flap_on = s.0.drop.is_empty() || now >= swap_at;
                        for id in s.0.valid.iter().chain(s.0.flap.iter().filter(|_| flap_on)) {
                            if *id != s.0.local {
                                s.1.do_send(NodeManageRequest::ActiveNode(*id));
                            }
                        }
                    }
                }
                tokio::time::sleep(Duration::from_millis(10)).await;
            }
        }
        let mut out = vec![];
        for (l, s) in lines.iter().zip(slots.iter()) {
            if l.starts_with('#') {
                out.push(l.clone());
                continue;
            }
            match s {
                None => out.push("-".to_string()),
                Some((op, addr)) => {
                    let range = match addr.send(NodeManageRequest::QueryOwnerRange(ProcessRange::new(0, 0))).await {
                        Ok(Ok(NodeManageResponse::OwnerRange(rs))) => rs.first().cloned(),
                        _ => None,
                    };
                    let nm = NodeManage::new(addr.clone());
                    let mut own = String::new();
                    let mut route = vec![];
                    if let Some(range) = &range {
                        for key in &keys {
                            let h = get_hash_value(key) as usize;
                            own.push(if range.is_range(h) { '1' } else { '0' });
                            let r = match nm.route_addr(key).await {
                                NamingRouteAddr::Local(_) => op.local,
                                NamingRouteAddr::Remote(_, a) => {
                                    a.rsplit(':').next().and_then(|p| p.parse::<u64>().ok()).map(|p| p - 20000).unwrap_or(0)
                                }
                            };
                            route.push(r.to_string());
                        }
                        out.push(format!("range {} {} own={} route={}", range.index, range.len, own, route.join(",")));
                    } else {
                        out.push("err".to_string());
                    }
                }
            }
        }
        out
    });
    for o in out {
        println!("{}", o);
    }
    std::process::exit(0);
}
