mod auth;
mod cluster;
mod codec;
mod config;
mod crash;
mod distro;
mod indexfile;
mod logfile;
mod logstore;
mod naming;
mod node;
mod privs;
mod apply;
mod ack;
mod sequence;
mod util;

fn main() {
    // panics inside catch_unwind are expected outcomes of malformed inputs: keep stderr quiet
    std::panic::set_hook(Box::new(|_| {}));
    let args: Vec<String> = std::env::args().collect();
    let model = args.get(1).map(|s| s.as_str()).unwrap_or("");
    match model {
        "codec" => codec::run(),
        "distro" => distro::run(),
        "indexfile" => indexfile::run(),
        "logfile" => logfile::run(),
        "logstore" => logstore::run(),
        "node" => node::run(args.get(2).map(|s| s.as_str()).unwrap_or("")),
        "apply" => apply::run(),
        "cluster" => cluster::run(),
        "ack" => ack::run(),
        "crash" => crash::run(),
        "crashchild" => crash::run_child(args.get(2).map(|s| s.as_str()).unwrap_or("")),
        "crashprobe" => crash::run_probe(args.get(2).map(|s| s.as_str()).unwrap_or(""), args.get(3).and_then(|s| s.parse().ok()).unwrap_or(0)),
        "naming" => naming::run(),
        "config" => config::run(),
        "openapi" | "console" | "perm" => auth::run(model),
        "sequence" => sequence::run(),
        "priv" => privs::run(),
        _ => {
            eprintln!("usage: harness <model>   (ops on stdin, one answer line per op on stdout)");
            std::process::exit(2);
        }
    }
}
