//! model `priv`: the console HTTP API (real CheckLogin middleware around the real console_config) swept
//! in-process as namespace-restricted console users.  One full node per harness run; fixtures are
//! created and checked directly through the node's actors (as an unrestricted admin, no HTTP).
//!
//! ops: seed | sess <name> en= wall= w= ball= b= | endpoints | call <id> ns=<..> session=<name>
use actix_web::body::MessageBody;
use actix_web::web::Data;
use actix_web::{test, App};
use rnacos::cache::actor_model::{CacheManagerRaftReq, CacheSetParam};
use rnacos::cache::model::{CacheKey, CacheType, CacheValue};
use rnacos::common::appdata::AppShareData;
use rnacos::common::model::UserSession;
use rnacos::common::AppSysConfig;
use rnacos::config::core::{ConfigCmd, ConfigKey, ConfigResult};
use rnacos::config::model::ConfigRaftCmd;
use rnacos::console::middle::login_middle::CheckLogin;
use rnacos::namespace::model::{
    Namespace, NamespaceFromFlags, NamespaceParam, NamespaceQueryReq, NamespaceQueryResult, NamespaceRaftReq,
};
use rnacos::naming::core::{NamingCmd, NamingResult};
use rnacos::naming::model::actor_model::{InstanceRegisterParam, NamingRaftReq};
use rnacos::naming::model::{Instance, InstanceKey, ServiceDetailDto, ServiceKey};
use rnacos::starter::{build_share_data, config_factory};
use rnacos::user::model::UserDo;
use rnacos::web_config::console_config;
use async_raft_ext::raft::ClientWriteRequest;
use rnacos::raft::store::ClientRequest;
use std::io::BufRead;
use std::sync::Arc;

const GROUP: &str = "DEFAULT_GROUP";
const IP: &str = "10.0.0.1";
const NEW_PORT: u32 = 9001;

// ---------------------------------------------------------------------------------------------
// endpoint table

#[derive(Clone, Copy, PartialEq, Eq, Debug)]
enum Fam {
    Config,
    Service,
    Instance,
    Namespace,
}

#[derive(Clone, Copy, PartialEq, Eq, Debug)]
enum Act {
    Get,
    List,
    History,
    Download,
    Add,
    Upd,
    Del,
}

#[derive(Clone, Copy, PartialEq, Eq, Debug)]
enum Carrier {
    Query,
    Form,
    Json,
}

#[derive(Clone, Copy)]
struct Ep {
    id: &'static str,
    kind: &'static str,
    method: &'static str,
    path: &'static str,
    fam: Fam,
    act: Act,
    carrier: Carrier,
    v2: bool,
}

const fn ep(
    id: &'static str,
    kind: &'static str,
    method: &'static str,
    path: &'static str,
    fam: Fam,
    act: Act,
    carrier: Carrier,
    v2: bool,
) -> Ep {
    Ep { id, kind, method, path, fam, act, carrier, v2 }
}

const ENDPOINTS: &[Ep] = &[
    // v1
    ep("v1.config.get", "read", "GET", "/rnacos/api/console/cs/configs", Fam::Config, Act::Get, Carrier::Query, false),
    ep("v1.config.add", "write", "POST", "/rnacos/api/console/cs/configs", Fam::Config, Act::Add, Carrier::Form, false),
    ep("v1.config.del", "write", "DELETE", "/rnacos/api/console/cs/configs", Fam::Config, Act::Del, Carrier::Query, false),
    ep("v1.config.list", "list", "GET", "/rnacos/api/console/configs", Fam::Config, Act::List, Carrier::Query, false),
    ep("v1.config.history", "read", "GET", "/rnacos/api/console/config/history", Fam::Config, Act::History, Carrier::Query, false),
    ep("v1.config.download", "list", "GET", "/rnacos/api/console/config/download", Fam::Config, Act::Download, Carrier::Query, false),
    ep("v1.service.get", "read", "GET", "/rnacos/api/console/ns/service", Fam::Service, Act::Get, Carrier::Query, false),
    ep("v1.service.update", "write", "POST", "/rnacos/api/console/ns/service", Fam::Service, Act::Upd, Carrier::Form, false),
    ep("v1.service.remove", "write", "DELETE", "/rnacos/api/console/ns/service", Fam::Service, Act::Del, Carrier::Query, false),
    ep("v1.services.list", "list", "GET", "/rnacos/api/console/ns/services", Fam::Service, Act::List, Carrier::Query, false),
    ep("v1.instance.get", "read", "GET", "/rnacos/api/console/ns/instance", Fam::Instance, Act::Get, Carrier::Query, false),
    ep("v1.instance.update", "write", "POST", "/rnacos/api/console/ns/instance", Fam::Instance, Act::Upd, Carrier::Form, false),
    ep("v1.instance.del", "write", "DELETE", "/rnacos/api/console/ns/instance", Fam::Instance, Act::Del, Carrier::Query, false),
    ep("v1.instances.list", "list", "GET", "/rnacos/api/console/instances", Fam::Instance, Act::List, Carrier::Query, false),
    ep("v1.namespaces.list", "list", "GET", "/rnacos/api/console/namespaces", Fam::Namespace, Act::List, Carrier::Query, false),
    ep("v1.namespaces.add", "write", "POST", "/rnacos/api/console/namespaces", Fam::Namespace, Act::Add, Carrier::Form, false),
    ep("v1.namespaces.update", "write", "PUT", "/rnacos/api/console/namespaces", Fam::Namespace, Act::Upd, Carrier::Form, false),
    ep("v1.namespaces.remove", "write", "DELETE", "/rnacos/api/console/namespaces", Fam::Namespace, Act::Del, Carrier::Form, false),
    // v2
    ep("v2.config.list", "list", "GET", "/rnacos/api/console/v2/config/list", Fam::Config, Act::List, Carrier::Query, true),
    ep("v2.config.info", "read", "GET", "/rnacos/api/console/v2/config/info", Fam::Config, Act::Get, Carrier::Query, true),
    ep("v2.config.add", "write", "POST", "/rnacos/api/console/v2/config/add", Fam::Config, Act::Add, Carrier::Json, true),
    ep("v2.config.update", "write", "POST", "/rnacos/api/console/v2/config/update", Fam::Config, Act::Upd, Carrier::Json, true),
    ep("v2.config.remove", "write", "POST", "/rnacos/api/console/v2/config/remove", Fam::Config, Act::Del, Carrier::Json, true),
    ep("v2.config.history", "read", "GET", "/rnacos/api/console/v2/config/history", Fam::Config, Act::History, Carrier::Query, true),
    ep("v2.service.list", "list", "GET", "/rnacos/api/console/v2/service/list", Fam::Service, Act::List, Carrier::Query, true),
    ep("v2.service.add", "write", "POST", "/rnacos/api/console/v2/service/add", Fam::Service, Act::Add, Carrier::Json, true),
    ep("v2.service.update", "write", "POST", "/rnacos/api/console/v2/service/update", Fam::Service, Act::Upd, Carrier::Json, true),
    ep("v2.service.remove", "write", "POST", "/rnacos/api/console/v2/service/remove", Fam::Service, Act::Del, Carrier::Json, true),
    ep("v2.instance.list", "list", "GET", "/rnacos/api/console/v2/instance/list", Fam::Instance, Act::List, Carrier::Query, true),
    ep("v2.instance.info", "read", "GET", "/rnacos/api/console/v2/instance/info", Fam::Instance, Act::Get, Carrier::Query, true),
    ep("v2.instance.add", "write", "POST", "/rnacos/api/console/v2/instance/add", Fam::Instance, Act::Add, Carrier::Json, true),
    ep("v2.instance.update", "write", "POST", "/rnacos/api/console/v2/instance/update", Fam::Instance, Act::Upd, Carrier::Json, true),
    ep("v2.instance.remove", "write", "POST", "/rnacos/api/console/v2/instance/remove", Fam::Instance, Act::Del, Carrier::Json, true),
    ep("v2.namespaces.list", "list", "GET", "/rnacos/api/console/v2/namespaces/list", Fam::Namespace, Act::List, Carrier::Query, true),
    ep("v2.namespaces.add", "write", "POST", "/rnacos/api/console/v2/namespaces/add", Fam::Namespace, Act::Add, Carrier::Json, true),
    ep("v2.namespaces.update", "write", "POST", "/rnacos/api/console/v2/namespaces/update", Fam::Namespace, Act::Upd, Carrier::Json, true),
    ep("v2.namespaces.remove", "write", "POST", "/rnacos/api/console/v2/namespaces/remove", Fam::Namespace, Act::Del, Carrier::Json, true),
];

// ---------------------------------------------------------------------------------------------
// fixtures

/// (marker, namespace id as stored by the config centre, namespace id as stored by naming, port)
const FIXTURES: &[(&str, &str, &str, u32)] = &[("nsa", "nsa", "nsa", 8001), ("nsb", "nsb", "nsb", 8002), ("pub", "", "public", 8003)];

fn fixture_content(marker: &str) -> String {
    format!("content-of-{}", marker)
}

/// how the request names the namespace
#[derive(Clone, Debug)]
struct NsArg {
    /// None = parameter absent
    value: Option<String>,
    /// marker of the fixtures addressed: nsa | nsb | pub | zzz
    marker: &'static str,
    /// namespace id in the config centre (tenant) the request should resolve to
    tenant: &'static str,
    /// namespace id in naming the request should resolve to
    naming_ns: &'static str,
}

fn ns_arg(s: &str) -> Option<NsArg> {
    Some(match s {
        "nsa" => NsArg { value: Some("nsa".into()), marker: "nsa", tenant: "nsa", naming_ns: "nsa" },
        "nsb" => NsArg { value: Some("nsb".into()), marker: "nsb", tenant: "nsb", naming_ns: "nsb" },
        "zzz" => NsArg { value: Some("zzz".into()), marker: "zzz", tenant: "zzz", naming_ns: "zzz" },
        "public" => NsArg { value: Some("public".into()), marker: "pub", tenant: "", naming_ns: "public" },
        "empty" => NsArg { value: Some("".into()), marker: "pub", tenant: "", naming_ns: "public" },
        "omit" => NsArg { value: None, marker: "pub", tenant: "", naming_ns: "public" },
        _ => return None,
    })
}

fn port_of(marker: &str) -> u32 {
    match marker {
        "nsa" => 8001,
        "nsb" => 8002,
        "pub" => 8003,
        _ => 8009,
    }
}

// ---------------------------------------------------------------------------------------------
// node + admin access through the actors

pub(crate) async fn build_node(dir: &std::path::Path) -> Arc<AppShareData> {
    std::env::set_var("RNACOS_DATA_DIR", dir.to_string_lossy().to_string());
    std::env::set_var("RNACOS_HTTP_CONSOLE_PORT", "0");
    std::env::set_var("RNACOS_ENABLE_METRICS", "false");
    std::env::set_var("RNACOS_RAFT_NODE_ID", "1");
    // the node's own auto-initialisation is spawned inside config_factory before the beans are injected:
    // when its first raft write wins that race StateApplyManager panics (raftapply.rs `log_manager.unwrap()`)
    // and every later raft write fails with "Mailbox has closed".  The harness therefore performs the same
    // steps as `auto_init_raft` itself, after the node has been built.
    std::env::set_var("RNACOS_RAFT_AUTO_INIT", "false");
    std::env::remove_var("RNACOS_RAFT_JOIN_ADDR");
    // real logins (ops `login`): no captcha picture to solve, no hourly limit per user name
    std::env::set_var("RNACOS_CONSOLE_ENABLE_CAPTCHA", "false");
    std::env::set_var("RNACOS_CONSOLE_LOGIN_ONE_HOUR_LIMIT", "100000");
    let sys_config = Arc::new(AppSysConfig::init_from_env());
    let factory_data = config_factory(sys_config.clone()).await.expect("config_factory");
    let app = build_share_data(factory_data).expect("build_share_data");
    let mut members = std::collections::HashSet::new();
    members.insert(sys_config.raft_node_id);
    app.raft.initialize(members).await.ok();
    app.raft
        .client_write(ClientWriteRequest::new(ClientRequest::NodeAddr { id: sys_config.raft_node_id, addr: Arc::new(sys_config.raft_node_addr.to_owned()) }))
        .await
        .ok();
    app.raft.client_write(ClientWriteRequest::new(ClientRequest::Members(vec![sys_config.raft_node_id]))).await.ok();
    app
}

/// leader and able to commit + apply a write
pub(crate) async fn wait_leader(app: &Arc<AppShareData>) -> bool {
    for _ in 0..400 {
        if app.raft.current_leader().await == Some(app.sys_config.raft_node_id) {
            let probe = ClientRequest::ConfigRemove { key: ConfigKey::new("verif-probe", GROUP, "").build_key() };
            return app.raft.client_write(ClientWriteRequest::new(probe)).await.is_ok();
        }
        tokio::time::sleep(std::time::Duration::from_millis(25)).await;
    }
    false
}

struct Admin {
    app: Arc<AppShareData>,
    hid: u64,
}

impl Admin {
    async fn cfg_get(&self, data_id: &str, tenant: &str) -> Option<String> {
        match self.app.config_addr.send(ConfigCmd::GET(ConfigKey::new(data_id, GROUP, tenant))).await {
            Ok(Ok(ConfigResult::Data { value, .. })) => Some(value.to_string()),
            _ => None,
        }
    }

    async fn cfg_add(&mut self, data_id: &str, tenant: &str, content: &str) {
        self.hid += 1;
        let cmd = ConfigRaftCmd::ConfigAdd {
            key: ConfigKey::new(data_id, GROUP, tenant).build_key(),
            value: Arc::new(content.to_string()),
            config_type: None,
            desc: None,
            history_id: 1_000_000 + self.hid,
            history_table_id: None,
            op_time: rnacos::common::datetime_utils::now_millis_i64(),
            op_user: Some(Arc::new("verif-admin".to_string())),
        };
        let _ = self.app.config_addr.send(cmd).await;
    }

    async fn cfg_remove(&self, data_id: &str, tenant: &str) {
        let _ = self.app.config_addr.send(ConfigRaftCmd::ConfigRemove { key: ConfigKey::new(data_id, GROUP, tenant).build_key() }).await;
    }

    async fn instances(&self, ns: &str, svc: &str) -> Vec<Arc<Instance>> {
        match self.app.naming_addr.send(NamingCmd::QueryAllInstanceList(ServiceKey::new(ns, GROUP, svc))).await {
            Ok(Ok(NamingResult::InstanceList(l))) => l,
            _ => vec![],
        }
    }

    async fn instance(&self, ns: &str, svc: &str, port: u32) -> Option<Arc<Instance>> {
        self.instances(ns, svc).await.into_iter().find(|i| i.ip.as_str() == IP && i.port == port)
    }

    async fn instance_put(&self, ns: &str, svc: &str, port: u32) {
        let param = InstanceRegisterParam {
            ip: Arc::new(IP.to_string()),
            port,
            weight: 1.0,
            enabled: true,
            healthy: true,
            ephemeral: false,
            metadata: Default::default(),
            namespace_id: Arc::new(ns.to_string()),
            group_name: Arc::new(GROUP.to_string()),
            service_name: Arc::new(svc.to_string()),
            cluster_name: Some("DEFAULT".to_string()),
            app_name: None,
            last_modified_millis: rnacos::common::datetime_utils::now_millis_i64(),
        };
        let _ = self.app.naming_addr.send(NamingRaftReq::RegisterInstance { param }).await;
    }

    async fn instance_remove(&self, ns: &str, svc: &str, ip: &str, port: u32) {
        let key = InstanceKey::new_by_service_key(&ServiceKey::new(ns, GROUP, svc), Arc::new(ip.to_string()), port);
        let _ = self.app.naming_addr.send(NamingRaftReq::RemoveInstance(key)).await;
    }

    /// Some(protect threshold) when the service exists
    async fn service(&self, ns: &str, svc: &str) -> Option<f32> {
        match self.app.naming_addr.send(NamingCmd::QueryServiceOnly(ServiceKey::new(ns, GROUP, svc))).await {
            Ok(Ok(NamingResult::ServiceDto(Some(dto)))) => Some(dto.protect_threshold.unwrap_or(0.0)),
            _ => None,
        }
    }

    async fn service_put(&self, ns: &str, svc: &str) {
        let dto = ServiceDetailDto {
            namespace_id: Arc::new(ns.to_string()),
            service_name: Arc::new(svc.to_string()),
            group_name: Arc::new(GROUP.to_string()),
            metadata: Some(Default::default()),
            protect_threshold: Some(0.0),
            grpc_instance_count: None,
        };
        let _ = self.app.naming_addr.send(NamingCmd::UpdateServiceFromCluster(dto)).await;
    }

    async fn service_remove(&self, ns: &str, svc: &str) {
        let _ = self.app.naming_addr.send(NamingCmd::RemoveService(ServiceKey::new(ns, GROUP, svc))).await;
    }

    async fn namespaces(&self) -> Vec<Arc<Namespace>> {
        match self.app.namespace_addr.send(NamespaceQueryReq::List).await {
            Ok(Ok(NamespaceQueryResult::List(l))) => l,
            _ => vec![],
        }
    }

    async fn namespace(&self, id: &str) -> Option<Arc<Namespace>> {
        match self.app.namespace_addr.send(NamespaceQueryReq::Info(Arc::new(id.to_string()))).await {
            Ok(Ok(NamespaceQueryResult::Info(v))) => Some(v),
            _ => None,
        }
    }

    async fn namespace_set(&self, id: &str, name: &str) {
        let p = NamespaceParam { namespace_id: Arc::new(id.to_string()), namespace_name: Some(name.to_string()), r#type: None };
        let _ = self.app.namespace_addr.send(NamespaceRaftReq::Set(p)).await;
    }

    async fn namespace_delete(&self, id: &str) {
        let _ = self.app.namespace_addr.send(NamespaceRaftReq::Delete { id: Arc::new(id.to_string()) }).await;
    }

    /// one pass towards the fixture state (or towards the empty node when `with_fixtures` is false);
    /// returns the number of corrections made
    async fn reset_pass(&mut self, with_fixtures: bool) -> usize {
        let mut n = 0;
        // configurations
        for tenant in ["", "nsa", "nsb", "zzz", "public"] {
            for m in ["nsa", "nsb", "pub", "zzz"] {
                let data_id = format!("cfg-{}", m);
                let fixture = with_fixtures && FIXTURES.iter().any(|f| f.0 == m && f.1 == tenant);
                let cur = self.cfg_get(&data_id, tenant).await;
                if fixture {
                    if cur.as_deref() != Some(fixture_content(m).as_str()) {
                        if cur.is_some() {
                            self.cfg_remove(&data_id, tenant).await;
                        }
                        self.cfg_add(&data_id, tenant, &fixture_content(m)).await;
                        n += 1;
                    }
                } else if cur.is_some() {
                    self.cfg_remove(&data_id, tenant).await;
                    n += 1;
                }
            }
        }
        // services and instances
        for ns in ["nsa", "nsb", "public", "zzz", ""] {
            for m in ["nsa", "nsb", "pub", "zzz"] {
                let svc = format!("svc-{}", m);
                let fixture = if with_fixtures { FIXTURES.iter().find(|f| f.0 == m && f.2 == ns) } else { None };
                let list = self.instances(ns, &svc).await;
                for i in &list {
                    let keep = fixture.map(|f| i.ip.as_str() == IP && i.port == f.3).unwrap_or(false);
                    if !keep {
                        self.instance_remove(ns, &svc, i.ip.as_str(), i.port).await;
                        n += 1;
                    }
                }
                match fixture {
                    Some(f) => {
                        let ok = list.iter().any(|i| {
                            i.ip.as_str() == IP && i.port == f.3 && !i.ephemeral && i.enabled && (i.weight - 1.0).abs() < 1e-6 && i.metadata.is_empty()
                        });
                        if !ok {
                            self.instance_put(ns, &svc, f.3).await;
                            n += 1;
                        }
                        if self.service(ns, &svc).await != Some(0.0) {
                            self.service_put(ns, &svc).await;
                            n += 1;
                        }
                    }
                    None => {
                        if self.service(ns, &svc).await.is_some() {
                            self.service_remove(ns, &svc).await;
                            n += 1;
                        }
                    }
                }
            }
        }
        // namespaces
        let wanted: &[(&str, &str)] = if with_fixtures { &[("", "public"), ("nsa", "nsa-name"), ("nsb", "nsb-name")] } else { &[("", "public")] };
        for (id, name) in wanted {
            let ok = match self.namespace(id).await {
                Some(v) => v.namespace_name == *name && (id.is_empty() || v.flag & NamespaceFromFlags::USER.bits() != 0),
                None => false,
            };
            if !ok {
                self.namespace_set(id, name).await;
                n += 1;
            }
        }
        for v in self.namespaces().await {
            if !wanted.iter().any(|(id, _)| *id == v.namespace_id.as_str()) {
                self.namespace_delete(v.namespace_id.as_str()).await;
                n += 1;
            }
        }
        n
    }

    async fn reset(&mut self, with_fixtures: bool) -> bool {
        for _ in 0..20 {
            if self.reset_pass(with_fixtures).await == 0 {
                return true;
            }
            tokio::time::sleep(std::time::Duration::from_millis(10)).await;
        }
        false
    }
}

// ---------------------------------------------------------------------------------------------
// request building

fn kv<'a>(ws: &'a [&'a str], k: &str) -> &'a str {
    for w in ws {
        if let Some(v) = w.strip_prefix(k) {
            if let Some(v) = v.strip_prefix('=') {
                return v;
            }
        }
    }
    ""
}

fn urlenc(s: &str) -> String {
    let mut o = String::new();
    for b in s.bytes() {
        if b.is_ascii_alphanumeric() || b == b'-' || b == b'_' || b == b'.' {
            o.push(b as char);
        } else {
            o.push_str(&format!("%{:02X}", b));
        }
    }
    o
}

/// ordered parameter list: (name, value, is_number_or_bool_in_json)
type Params = Vec<(&'static str, String, bool)>;

fn encode_pairs(p: &Params) -> String {
    p.iter().map(|(k, v, _)| format!("{}={}", k, urlenc(v))).collect::<Vec<_>>().join("&")
}

fn encode_json(p: &Params) -> String {
    let mut m = serde_json::Map::new();
    for (k, v, raw) in p {
        let val = if *raw { serde_json::from_str(v).unwrap_or(serde_json::Value::String(v.clone())) } else { serde_json::Value::String(v.clone()) };
        m.insert(k.to_string(), val);
    }
    serde_json::Value::Object(m).to_string()
}

fn new_content(e: &Ep) -> String {
    format!("written-by-{}", e.id)
}

fn new_ns_name(e: &Ep) -> String {
    format!("named-by-{}", e.id)
}

fn build_params(e: &Ep, ns: &NsArg) -> Params {
    let mut p: Params = vec![];
    let m = ns.marker;
    let ns_field = match e.fam {
        Fam::Config => "tenant",
        _ => "namespaceId",
    };
    if let Some(v) = &ns.value {
        p.push((ns_field, v.clone(), false));
    }
    match (e.fam, e.act) {
        (Fam::Config, Act::Get) | (Fam::Config, Act::Del) => {
            p.push(("dataId", format!("cfg-{}", m), false));
            p.push(("group", GROUP.to_string(), false));
        }
        (Fam::Config, Act::Add) | (Fam::Config, Act::Upd) => {
            p.push(("dataId", format!("cfg-{}", m), false));
            p.push(("group", GROUP.to_string(), false));
            p.push(("content", new_content(e), false));
        }
        (Fam::Config, Act::List) => {
            p.push(("pageNo", "1".to_string(), true));
            p.push(("pageSize", "100".to_string(), true));
        }
        (Fam::Config, Act::History) => {
            p.push(("dataId", format!("cfg-{}", m), false));
            p.push(("group", GROUP.to_string(), false));
            p.push(("pageNo", "1".to_string(), true));
            p.push(("pageSize", "100".to_string(), true));
        }
        (Fam::Config, Act::Download) => {}
        (Fam::Service, Act::List) => {
            p.push(("pageNo", "1".to_string(), true));
            p.push(("pageSize", "100".to_string(), true));
        }
        (Fam::Service, Act::Get) | (Fam::Service, Act::Del) => {
            p.push(("serviceName", format!("svc-{}", m), false));
            p.push(("groupName", GROUP.to_string(), false));
        }
        (Fam::Service, Act::Add) | (Fam::Service, Act::Upd) => {
            p.push(("serviceName", format!("svc-{}", m), false));
            p.push(("groupName", GROUP.to_string(), false));
            p.push(("protectThreshold", "0.5".to_string(), true));
        }
        (Fam::Instance, Act::List) => {
            p.push(("serviceName", format!("svc-{}", m), false));
            p.push(("groupName", GROUP.to_string(), false));
        }
        (Fam::Instance, act) => {
            p.push(("serviceName", format!("svc-{}", m), false));
            p.push(("groupName", GROUP.to_string(), false));
            p.push(("ip", IP.to_string(), false));
            let port = if act == Act::Add { NEW_PORT } else { port_of(m) };
            p.push(("port", port.to_string(), true));
            if act == Act::Add || act == Act::Upd {
                p.push(("weight", "5".to_string(), true));
            }
            if act != Act::Get {
                // `ephemeral` is a string field in both parameter structs
                p.push(("ephemeral", "false".to_string(), false));
            }
        }
        (Fam::Namespace, Act::List) => {
            p.clear();
        }
        (Fam::Namespace, Act::Add) | (Fam::Namespace, Act::Upd) => {
            p.push(("namespaceName", new_ns_name(e), false));
        }
        (Fam::Namespace, _) => {}
        _ => {}
    }
    p
}

// ---------------------------------------------------------------------------------------------
// response classification

fn refused(e: &Ep, status: u16, text: &str) -> bool {
    if text.contains("NO_NAMESPACE_PERMISSION") {
        return true;
    }
    if (status == 401 || status == 403) && text.contains("no such namespace permission") {
        return true;
    }
    if e.fam == Fam::Namespace && !e.v2 && text.contains("\"message\":\"NO_PERMISSION\"") {
        return true;
    }
    false
}

fn saw(e: &Ep, text: &str) -> String {
    let mut out = vec![];
    for (m, tenant, naming_ns, port) in FIXTURES {
        let hit = match e.fam {
            Fam::Config => text.contains(&format!("cfg-{}", m)) || text.contains(&fixture_content(m)),
            Fam::Service => text.contains(&format!("svc-{}", m)),
            Fam::Instance => text.contains(&format!("svc-{}", m)) || text.contains(&format!("\"port\":{}", port)),
            Fam::Namespace => {
                let _ = naming_ns;
                text.contains(&format!("\"namespaceId\":\"{}\"", tenant))
            }
        };
        if hit {
            out.push(*m);
        }
    }
    out.sort();
    if out.is_empty() { "-".to_string() } else { out.join(",") }
}

// ---------------------------------------------------------------------------------------------

fn csv(s: &str) -> Vec<String> {
    if s == "-" || s.is_empty() {
        return vec![];
    }
    s.split(',').map(|x| if x == "@" { String::new() } else { x.to_string() }).collect()
}

async fn put_session(app: &Arc<AppShareData>, name: &str, ws: &[&str]) {
    let flag = |k: &str| kv(ws, k) == "1";
    let flags: u32 = (flag("en") as u32) | ((flag("wall") as u32) << 1) | ((flag("ball") as u32) << 2);
    let user = UserDo {
        username: "verif".to_string(),
        nickname: "verif".to_string(),
        enable: true,
        roles: vec!["0".to_string()],
        namespace_privilege_flags: Some(flags),
        namespace_white_list: csv(kv(ws, "w")),
        namespace_black_list: csv(kv(ws, "b")),
        ..Default::default()
    };
    let session = Arc::new(UserSession {
        username: Arc::new(user.username.clone()),
        nickname: Some(user.nickname.clone()),
        roles: vec![Arc::new("0".to_string())],
        namespace_privilege: Some(user.build_namespace_privilege()),
        extend_infos: Default::default(),
        refresh_time: rnacos::common::datetime_utils::now_second_i32() as u32,
    });
    let key = CacheKey { cache_type: CacheType::UserSession, key: Arc::new(name.to_string()) };
    let mut p = CacheSetParam::new(key, CacheValue::UserSession(session));
    p.ttl = 36000;
    p.now = rnacos::common::datetime_utils::now_second_i32();
    let _ = app.direct_cache_manager.send(CacheManagerRaftReq::Set(p)).await;
}

async fn drop_session(app: &Arc<AppShareData>, name: &str) {
    let key = CacheKey { cache_type: CacheType::UserSession, key: Arc::new(name.to_string()) };
    let _ = app.direct_cache_manager.send(CacheManagerRaftReq::Remove(key)).await;
}

/// make the addressed item exist / removable so that a served write is observable
async fn prepare(adm: &mut Admin, e: &Ep, ns: &NsArg) {
    let m = ns.marker;
    match (e.fam, e.act) {
        (Fam::Config, Act::Del) if m == "zzz" => adm.cfg_add("cfg-zzz", ns.tenant, &fixture_content("zzz")).await,
        (Fam::Instance, Act::Del) if m == "zzz" => adm.instance_put(ns.naming_ns, "svc-zzz", port_of(m)).await,
        (Fam::Service, Act::Del) => {
            // only a service without instances can be removed
            let svc = format!("svc-{}", m);
            for i in adm.instances(ns.naming_ns, &svc).await {
                adm.instance_remove(ns.naming_ns, &svc, i.ip.as_str(), i.port).await;
            }
            if adm.service(ns.naming_ns, &svc).await.is_none() {
                adm.service_put(ns.naming_ns, &svc).await;
            }
        }
        (Fam::Namespace, Act::Upd) if m == "zzz" => adm.namespace_set("zzz", "zzz-name").await,
        (Fam::Namespace, Act::Del) => {
            // only a namespace without configurations and services can be removed
            if m == "zzz" {
                adm.namespace_set("zzz", "zzz-name").await;
            } else if m != "pub" {
                adm.cfg_remove(&format!("cfg-{}", m), ns.tenant).await;
                let svc = format!("svc-{}", m);
                for i in adm.instances(ns.naming_ns, &svc).await {
                    adm.instance_remove(ns.naming_ns, &svc, i.ip.as_str(), i.port).await;
                }
                adm.service_remove(ns.naming_ns, &svc).await;
                // the weak flags are dropped by messages from the config / naming actors
                for _ in 0..50 {
                    match adm.namespace(ns.tenant).await {
                        Some(v) if v.flag != NamespaceFromFlags::USER.bits() => tokio::time::sleep(std::time::Duration::from_millis(5)).await,
                        _ => break,
                    }
                }
            }
        }
        _ => {}
    }
}

/// was the addressed item really created / modified / deleted ?
async fn changed(adm: &Admin, e: &Ep, ns: &NsArg) -> bool {
    let m = ns.marker;
    match (e.fam, e.act) {
        (Fam::Config, Act::Add) | (Fam::Config, Act::Upd) => adm.cfg_get(&format!("cfg-{}", m), ns.tenant).await == Some(new_content(e)),
        (Fam::Config, Act::Del) => adm.cfg_get(&format!("cfg-{}", m), ns.tenant).await.is_none(),
        (Fam::Service, Act::Add) | (Fam::Service, Act::Upd) => adm.service(ns.naming_ns, &format!("svc-{}", m)).await == Some(0.5),
        (Fam::Service, Act::Del) => adm.service(ns.naming_ns, &format!("svc-{}", m)).await.is_none(),
        (Fam::Instance, Act::Add) => adm.instance(ns.naming_ns, &format!("svc-{}", m), NEW_PORT).await.is_some(),
        (Fam::Instance, Act::Upd) => match adm.instance(ns.naming_ns, &format!("svc-{}", m), port_of(m)).await {
            Some(i) => (i.weight - 5.0).abs() < 1e-6,
            None => false,
        },
        (Fam::Instance, Act::Del) => adm.instance(ns.naming_ns, &format!("svc-{}", m), port_of(m)).await.is_none(),
        (Fam::Namespace, Act::Add) | (Fam::Namespace, Act::Upd) => {
            let name = new_ns_name(e);
            adm.namespaces().await.iter().any(|v| v.namespace_name == name)
        }
        (Fam::Namespace, Act::Del) => match &ns.value {
            Some(v) if !v.is_empty() && v != "public" => adm.namespace(v).await.is_none(),
            _ => adm.namespace("").await.is_none(),
        },
        _ => false,
    }
}

pub fn run() {
    let lines: Vec<String> = std::io::stdin().lock().lines().map_while(Result::ok).collect();
    let dir = tempfile::tempdir().unwrap();
    let debug = std::env::var("VERIF_DEBUG").is_ok();
    if debug {
        std::panic::set_hook(Box::new(|i| eprintln!("PANIC {}", i)));
    }
    let sys = actix_rt::System::new();
    let out: Vec<String> = sys.block_on(async move {
        let mut out = vec![];
        let app = build_node(dir.path()).await;
        let leader = wait_leader(&app).await;
        let console = test::init_service(
            App::new()
                .app_data(Data::new(app.clone()))
                .app_data(Data::new(app.config_addr.clone()))
                .app_data(Data::new(app.naming_addr.clone()))
                .app_data(Data::new(app.bi_stream_manage.clone()))
                .wrap(CheckLogin::new(app.clone()))
                .configure(console_config),
        )
        .await;
        let mut adm = Admin { app: app.clone(), hid: 0 };
        let mut sessions: Vec<String> = vec![];
        // session alias -> token issued by a real login
        let mut tokens: Vec<(String, String)> = vec![];
        // fixtures are restored after a write only when the current case has seeded them
        let mut seeded = false;
        for l in &lines {
            let l = l.trim();
            if l.starts_with('#') {
                for s in sessions.drain(..) {
                    drop_session(&app, &s).await;
                }
                tokens.clear();
                adm.reset(false).await;
                seeded = false;
                out.push(l.to_string());
                continue;
            }
            let ws: Vec<&str> = l.split_whitespace().collect();
            match ws.first().copied() {
                Some("seed") => {
                    if !leader {
                        out.push("err no-raft-leader".to_string());
                    } else if adm.reset(true).await {
                        seeded = true;
                        out.push("ok".to_string());
                    } else {
                        out.push("err fixtures-not-stable".to_string());
                    }
                }
                Some("sess") if ws.len() >= 2 => {
                    put_session(&app, ws[1], &ws[2..]).await;
                    if !sessions.iter().any(|s| s == ws[1]) {
                        sessions.push(ws[1].to_string());
                    }
                    out.push("ok".to_string());
                }
                // user administration through the console's own endpoints (as the admin session `adm`), then a real login:
                // the privilege a session carries is whatever add_user / update_user stored and login copied
                //   mkuser|upduser <name> [wall=<0|1>] [w=<csv|->] [ball=<0|1>] [b=<csv|->]   (an absent key = the field is not sent)
                Some(op @ ("mkuser" | "upduser")) if ws.len() >= 2 => {
                    put_session(&app, "adm", &["en=0", "wall=1", "w=-", "ball=0", "b=-"]).await;
                    if !sessions.iter().any(|s| s == "adm") {
                        sessions.push("adm".to_string());
                    }
                    let mut pr = serde_json::Map::new();
                    let has = |k: &str| ws.iter().any(|w| w.starts_with(&format!("{}=", k)));
                    if has("wall") {
                        pr.insert("whitelistIsAll".to_string(), serde_json::json!(kv(&ws, "wall") == "1"));
                    }
                    if has("ball") {
                        pr.insert("blacklistIsAll".to_string(), serde_json::json!(kv(&ws, "ball") == "1"));
                    }
                    if has("w") {
                        pr.insert("whitelist".to_string(), serde_json::json!(csv(kv(&ws, "w"))));
                    }
                    if has("b") {
                        pr.insert("blacklist".to_string(), serde_json::json!(csv(kv(&ws, "b"))));
                    }
                    let mut body = serde_json::Map::new();
                    body.insert("username".to_string(), serde_json::json!(format!("u_{}", ws[1])));
                    if op == "mkuser" {
                        body.insert("password".to_string(), serde_json::json!(format!("pw-{}", ws[1])));
                        body.insert("roles".to_string(), serde_json::json!("0"));
                        body.insert("nickname".to_string(), serde_json::json!(ws[1]));
                    }
                    if !pr.is_empty() {
                        body.insert("namespacePrivilegeParam".to_string(), serde_json::Value::Object(pr));
                    }
                    let path = if op == "mkuser" { "/rnacos/api/console/v2/user/add" } else { "/rnacos/api/console/v2/user/update" };
                    let req = test::TestRequest::post()
                        .uri(path)
                        .insert_header(("Content-Type", "application/json"))
                        .insert_header(("Token", "adm"))
                        .set_payload(serde_json::Value::Object(body).to_string())
                        .peer_addr("127.0.0.1:50000".parse().unwrap())
                        .to_request();
                    let a = match test::try_call_service(&console, req).await {
                        Ok(resp) => {
                            let status = resp.status().as_u16();
                            let body = resp.into_body().try_into_bytes().map(|b| b.to_vec()).unwrap_or_default();
                            let text = String::from_utf8_lossy(&body).to_string();
                            if status == 200 && text.contains("\"success\":true") { "ok".to_string() } else { format!("error {} {}", status, text.chars().take(60).collect::<String>()) }
                        }
                        Err(e) => format!("error 0 {}", e.to_string().chars().take(60).collect::<String>()),
                    };
                    // the user manager stores through raft and tells the caches afterwards
                    tokio::time::sleep(std::time::Duration::from_millis(60)).await;
                    out.push(a);
                }
                //   login <name> as=<session alias>
                Some("login") if ws.len() >= 3 => {
                    let alias = kv(&ws, "as").to_string();
                    let pw = rnacos::common::crypto_utils::encode_base64(format!("pw-{}", ws[1]).as_bytes());
                    let req = test::TestRequest::post()
                        .uri("/rnacos/api/console/v2/login/login")
                        .insert_header(("Content-Type", "application/x-www-form-urlencoded"))
                        .set_payload(format!("username=u_{}&password={}", ws[1], urlenc(&pw)))
                        .peer_addr("127.0.0.1:50000".parse().unwrap())
                        .to_request();
                    let a = match test::try_call_service(&console, req).await {
                        Ok(resp) => {
                            let tok = resp
                                .headers()
                                .get_all("set-cookie")
                                .filter_map(|v| v.to_str().ok())
                                .find_map(|c| c.strip_prefix("token=").map(|r| r.split(';').next().unwrap_or("").to_string()));
                            let status = resp.status().as_u16();
                            let body = resp.into_body().try_into_bytes().map(|b| b.to_vec()).unwrap_or_default();
                            match tok {
                                Some(t) if !t.is_empty() => {
                                    tokens.retain(|(a, _)| a != &alias);
                                    tokens.push((alias.clone(), t.clone()));
                                    sessions.push(t);
                                    "ok".to_string()
                                }
                                _ => format!("error {} {}", status, String::from_utf8_lossy(&body).chars().take(60).collect::<String>()),
                            }
                        }
                        Err(e) => format!("error 0 {}", e.to_string().chars().take(60).collect::<String>()),
                    };
                    out.push(a);
                }
                //   relog <session alias>: the session as every node but the one that handled the login holds it, and as
                //   that node holds it after a restart - the `Set` request encoded as a raft log record and decoded again
                //   (`StoreUtils::entry_to_record` / `log_record_to_entry`), then applied to the cache
                Some("relog") if ws.len() >= 2 => {
                    let tok = tokens.iter().find(|(a, _)| a == ws[1]).map(|(_, t)| t.clone()).unwrap_or(ws[1].to_string());
                    let key = CacheKey { cache_type: CacheType::UserSession, key: Arc::new(tok) };
                    let a = match app.direct_cache_manager.send(CacheManagerRaftReq::Get(key.clone())).await {
                        Ok(Ok(rnacos::cache::actor_model::CacheManagerRaftResult::Value(v))) => {
                            let mut p = CacheSetParam::new(key, v);
                            p.ttl = 36000;
                            p.now = rnacos::common::datetime_utils::now_second_i32();
                            let e = async_raft_ext::raft::Entry {
                                term: 1,
                                index: 1,
                                payload: async_raft_ext::raft::EntryPayload::Normal(async_raft_ext::raft::EntryNormal {
                                    data: ClientRequest::CacheReq { req: CacheManagerRaftReq::Set(p) },
                                }),
                            };
                            match rnacos::raft::filestore::StoreUtils::entry_to_record(&e)
                                .and_then(rnacos::raft::filestore::StoreUtils::log_record_to_entry)
                            {
                                Ok(async_raft_ext::raft::Entry {
                                    payload:
                                        async_raft_ext::raft::EntryPayload::Normal(async_raft_ext::raft::EntryNormal {
                                            data: ClientRequest::CacheReq { req },
                                        }),
                                    ..
                                }) => match app.direct_cache_manager.send(req).await {
                                    Ok(Ok(_)) => "ok".to_string(),
                                    _ => "error apply".to_string(),
                                },
                                Ok(_) => "error kind".to_string(),
                                Err(e) => format!("error codec {}", e.to_string().chars().take(60).collect::<String>()),
                            }
                        }
                        _ => "error nosession".to_string(),
                    };
                    out.push(a);
                }
                // the archive upload: import <v1|v2> header=<spelling|omit> form=<spelling|omit> session=<s>
                // (the namespace travels in the `tenant` header; the multipart body has a `tenant` text field too)
                Some("import") if ws.len() >= 2 => {
                    let data_id = "imported-by-sweep";
                    let header = ns_arg(kv(&ws, "header"));
                    let form = ns_arg(kv(&ws, "form"));
                    let (header, form) = match (header, form) {
                        (Some(h), Some(f)) => (h, f),
                        _ => {
                            out.push("bad-op ns".to_string());
                            continue;
                        }
                    };
                    let zip_bytes = {
                        use std::io::Write;
                        let mut buf = std::io::Cursor::new(Vec::new());
                        {
                            let mut z = zip::ZipWriter::new(&mut buf);
                            let opt = zip::write::FileOptions::default().compression_method(zip::CompressionMethod::Stored);
                            let _ = z.start_file(format!("{}/{}", GROUP, data_id), opt);
                            let _ = z.write_all(b"imported content");
                            let _ = z.finish();
                        }
                        buf.into_inner()
                    };
                    const B: &str = "----verifsweepboundary7MA4YWxkTrZu0gW";
                    let mut body: Vec<u8> = vec![];
                    if let Some(v) = &form.value {
                        body.extend_from_slice(format!("--{}\r\nContent-Disposition: form-data; name=\"tenant\"\r\n\r\n{}\r\n", B, v).as_bytes());
                    }
                    body.extend_from_slice(format!("--{}\r\nContent-Disposition: form-data; name=\"file\"; filename=\"export.zip\"\r\nContent-Type: application/zip\r\n\r\n", B).as_bytes());
                    body.extend_from_slice(&zip_bytes);
                    body.extend_from_slice(format!("\r\n--{}--\r\n", B).as_bytes());
                    let path = if ws[1] == "v2" { "/rnacos/api/console/v2/config/import" } else { "/rnacos/api/console/config/import" };
                    let mut req = test::TestRequest::post().uri(path).insert_header(("Content-Type", format!("multipart/form-data; boundary={}", B)));
                    if let Some(v) = &header.value {
                        req = req.insert_header(("tenant", v.clone()));
                    }
                    let sess = kv(&ws, "session");
                    if !sess.is_empty() && sess != "none" {
                        let tok = tokens.iter().find(|(a, _)| a == sess).map(|(_, t)| t.clone()).unwrap_or(sess.to_string());
                        req = req.insert_header(("Token", tok));
                    }
                    let req = req.set_payload(body).peer_addr("127.0.0.1:50000".parse().unwrap()).to_request();
                    let status = match test::try_call_service(&console, req).await {
                        Ok(resp) => resp.status().as_u16(),
                        Err(_) => 0,
                    };
                    // the import runs through raft: give it a moment, then look where the configuration has appeared
                    tokio::time::sleep(std::time::Duration::from_millis(120)).await;
                    let mut written = vec![];
                    for (marker, tenant) in [("nsa", "nsa"), ("nsb", "nsb"), ("pub", ""), ("zzz", "zzz")] {
                        if adm.cfg_get(data_id, tenant).await.is_some() {
                            written.push(marker);
                            adm.cfg_remove(data_id, tenant).await;
                        }
                    }
                    out.push(format!("status {} written={}", status, if written.is_empty() { "-".to_string() } else { written.join(",") }));
                }
                Some("endpoints") => {
                    let v: Vec<String> = ENDPOINTS.iter().map(|e| format!("{}:{}:{}:{}", e.id, e.kind, e.method, e.path)).collect();
                    out.push(format!("endpoints {}", v.join(" ")));
                }
                Some("call") if ws.len() >= 2 => {
                    let e = match ENDPOINTS.iter().find(|e| e.id == ws[1]) {
                        Some(e) => *e,
                        None => {
                            out.push("bad-op unknown-endpoint".to_string());
                            continue;
                        }
                    };
                    let ns = match ns_arg(kv(&ws, "ns")) {
                        Some(n) => n,
                        None => {
                            out.push("bad-op ns".to_string());
                            continue;
                        }
                    };
                    let sess = kv(&ws, "session");
                    let write = e.kind == "write";
                    if write {
                        prepare(&mut adm, &e, &ns).await;
                    }
                    let params = build_params(&e, &ns);
                    let mut uri = e.path.to_string();
                    let mut req = test::TestRequest::default().method(e.method.parse().unwrap_or(actix_web::http::Method::GET));
                    match e.carrier {
                        Carrier::Query => {
                            if !params.is_empty() {
                                uri.push('?');
                                uri.push_str(&encode_pairs(&params));
                            }
                        }
                        Carrier::Form => {
                            req = req.insert_header(("Content-Type", "application/x-www-form-urlencoded")).set_payload(encode_pairs(&params));
                        }
                        Carrier::Json => {
                            req = req.insert_header(("Content-Type", "application/json")).set_payload(encode_json(&params));
                        }
                    }
                    if !sess.is_empty() && sess != "none" {
                        // an alias of a real login, or the key of a session the harness stored itself
                        let tok = tokens.iter().find(|(a, _)| a == sess).map(|(_, t)| t.clone()).unwrap_or(sess.to_string());
                        req = req.insert_header(("Token", tok));
                    }
                    let req = req.uri(&uri).peer_addr("127.0.0.1:50000".parse().unwrap()).to_request();
                    let answer = match test::try_call_service(&console, req).await {
                        Ok(resp) => {
                            let status = resp.status().as_u16();
                            let nologin = resp.headers().contains_key("No-Login");
                            let noperm = resp.headers().contains_key("No-Permission");
                            let body = resp.into_body().try_into_bytes().map(|b| b.to_vec()).unwrap_or_default();
                            let text = String::from_utf8_lossy(&body).to_string();
                            if debug {
                                eprintln!("DEBUG {} {} {} -> {} {}", e.id, e.method, uri, status, text.chars().take(300).collect::<String>());
                            }
                            let head: String = text.chars().filter(|c| !c.is_control()).take(60).collect();
                            if nologin {
                                format!("error {} nologin", status)
                            } else if noperm {
                                format!("error {} role-nopermission", status)
                            } else if refused(&e, status, &text) {
                                "refused".to_string()
                            } else if status == 400 || status == 405 || status == 415 || (status == 404 && body.is_empty()) {
                                format!("error {} {}", status, head)
                            } else if write {
                                // updates of persistent instances are replayed through raft asynchronously
                                if e.fam == Fam::Instance {
                                    tokio::time::sleep(std::time::Duration::from_millis(30)).await;
                                }
                                let ch = changed(&adm, &e, &ns).await;
                                format!("served changed={}", if ch { 1 } else { 0 })
                            } else {
                                format!("served saw={}", saw(&e, &text))
                            }
                        }
                        Err(err) => {
                            let t = err.to_string();
                            format!("error 0 {}", t.chars().filter(|c| !c.is_control()).take(60).collect::<String>())
                        }
                    };
                    if write {
                        adm.reset(seeded).await;
                    }
                    out.push(answer);
                }
                _ => out.push("bad-op".to_string()),
            }
        }
        out
    });
    for o in out {
        println!("{}", o);
    }
    use std::io::Write;
    let _ = std::io::stdout().flush();
    std::process::exit(0);
}
