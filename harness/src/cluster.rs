//! model `cluster` (C06/C08/C15): real `rnacos` processes on loopback ports, driven over HTTP.
//!   up <n> [snap=<k>]      start nodes 1..n (node 1 initialises the cluster, the others join it)   -> ok | dead …
//!   start <i> | kill <i> | stop <i> | cont <i>                                                  -> ok
//!   pub <i> <key> <val> | rm <i> <key>   -> ok | err | down        get <i> <key> -> val <v> | none | down
//!   getall <key>           -> all 1=<v|none|down> 2=… 3=…
//!   reg <i> <svc> <ip> <port> <eph> | dereg <i> <svc> <ip> <port> <eph>  -> ok | err | down
//!   listall <svc>          -> lists 1=<sorted ip:port:healthy:enabled:weight,…|-|down> 2=… 3=…
//!   settle <ms>            -> ok
use crate::util::*;
use std::io::{Read, Write};
use std::net::TcpStream;
use std::process::{Child, Command, Stdio};
use std::time::Duration;

struct NodeP {
    id: u64,
    http: u16,
    dir: std::path::PathBuf,
    child: Option<Child>,
    stopped: bool,
}

fn rnacos_bin() -> String {
    std::env::var("VERIF_RNACOS_BIN").unwrap_or("/repo/target/debug/rnacos".to_string())
}

/// the administrator's access token of a cluster that runs with OpenAPI auth on (`up .. auth=<ttl>`): carried by every request
static GLOBAL_TOKEN: std::sync::Mutex<Option<String>> = std::sync::Mutex::new(None);

fn http(port: u16, method: &str, path: &str, timeout_ms: u64) -> Option<(u16, String)> {
    let tok = GLOBAL_TOKEN.lock().ok().and_then(|g| g.clone());
    let path_owned;
    let path = match tok {
        Some(t) if !path.contains("accessToken=") && !path.contains("/auth/login") => {
            path_owned = format!("{}{}accessToken={}", path, if path.contains('?') { "&" } else { "?" }, t);
            path_owned.as_str()
        }
        _ => path,
    };
    let addr = format!("127.0.0.1:{}", port);
    let mut s = TcpStream::connect_timeout(&addr.parse().ok()?, Duration::from_millis(800)).ok()?;
    s.set_read_timeout(Some(Duration::from_millis(timeout_ms))).ok()?;
    s.set_write_timeout(Some(Duration::from_millis(2000))).ok()?;
    let req = format!("{} {} HTTP/1.1\r\nHost: {}\r\nConnection: close\r\nContent-Length: 0\r\n\r\n", method, path, addr);
    s.write_all(req.as_bytes()).ok()?;
    let mut buf = Vec::new();
    let _ = s.read_to_end(&mut buf);
    let text = String::from_utf8_lossy(&buf).to_string();
    let status: u16 = text.split_whitespace().nth(1)?.parse().ok()?;
    let body = match text.find("\r\n\r\n") {
        Some(i) => text[i + 4..].to_string(),
        None => String::new(),
    };
    // chunked bodies: strip the chunk framing
    let body = if text.to_ascii_lowercase().contains("transfer-encoding: chunked") {
        let mut out = String::new();
        let mut rest = body.as_str();
        loop {
            let nl = match rest.find("\r\n") {
                Some(i) => i,
                None => break,
            };
            let n = usize::from_str_radix(rest[..nl].trim(), 16).unwrap_or(0);
            if n == 0 {
                break;
            }
            let start = nl + 2;
            if start + n > rest.len() {
                break;
            }
            out.push_str(&rest[start..start + n]);
            rest = &rest[(start + n + 2).min(rest.len())..];
        }
        out
    } else {
        body
    };
    Some((status, body))
}

/// token lifetime (seconds) of the nodes that are spawned; 0 = OpenAPI auth off
static AUTH_TTL: std::sync::atomic::AtomicU64 = std::sync::atomic::AtomicU64::new(0);

fn free_base() -> u16 {
    // 10 consecutive free ports above a pid-dependent offset
    let mut base = 21000 + ((std::process::id() as u16) % 400) * 20;
    for _ in 0..200 {
        let ok = (0..10).all(|k| std::net::TcpListener::bind(("127.0.0.1", base + k)).is_ok() && std::net::TcpListener::bind(("127.0.0.1", base + k + 1000)).is_ok() && std::net::TcpListener::bind(("127.0.0.1", base + k + 2000)).is_ok());
        if ok {
            return base;
        }
        base += 20;
    }
    base
}

impl NodeP {
    fn spawn(&mut self, base: u16, snap: u64) {
        let grpc = self.http + 1000;
        let mut cmd = Command::new(rnacos_bin());
        cmd.env_clear()
            .env("RUST_LOG", "error")
            .env("RNACOS_HTTP_PORT", self.http.to_string())
            .env("RNACOS_GRPC_PORT", grpc.to_string())
            .env("RNACOS_HTTP_CONSOLE_PORT", (self.http + 2000).to_string())
            .env("RNACOS_RAFT_NODE_ID", self.id.to_string())
            .env("RNACOS_RAFT_NODE_ADDR", format!("127.0.0.1:{}", grpc))
            .env("RNACOS_DATA_DIR", self.dir.to_string_lossy().to_string())
            .env("RNACOS_RAFT_SNAPSHOT_LOG_SIZE", snap.to_string())
            .env("RNACOS_ENABLE_METRICS", "false")
            .env("RNACOS_HTTP_WORKERS", "2")
            .env("HOME", self.dir.to_string_lossy().to_string());
        let ttl = AUTH_TTL.load(std::sync::atomic::Ordering::SeqCst);
        if ttl > 0 {
            // OpenAPI auth on, tokens live <ttl> seconds, the initial administrator is admin/admin (scenarios `upauth`)
            cmd.env("RNACOS_ENABLE_OPEN_API_AUTH", "true")
                .env("RNACOS_API_LOGIN_TIMEOUT", ttl.to_string())
                .env("RNACOS_API_LOGIN_ONE_MINUTE_LIMIT", "100000")
                .env("RNACOS_INIT_ADMIN_USERNAME", "admin")
                .env("RNACOS_INIT_ADMIN_PASSWORD", "admin");
        }
        if self.id == 1 {
            cmd.env("RNACOS_RAFT_AUTO_INIT", "true");
        } else {
            cmd.env("RNACOS_RAFT_AUTO_INIT", "false").env("RNACOS_RAFT_JOIN_ADDR", format!("127.0.0.1:{}", base + 1000));
        }
        // debugging aid: VERIF_CLUSTER_LOG=<dir> keeps every node's log output in <dir>/node<id>.log
        if let Ok(d) = std::env::var("VERIF_CLUSTER_LOG") {
            let open = || std::fs::OpenOptions::new().create(true).append(true).open(format!("{}/node{}.log", d, self.id));
            if let (Ok(o), Ok(e)) = (open(), open()) {
                cmd.env("RUST_LOG", std::env::var("VERIF_CLUSTER_LEVEL").unwrap_or("info".to_string()));
                self.child = cmd.stdin(Stdio::null()).stdout(Stdio::from(o)).stderr(Stdio::from(e)).spawn().ok();
                self.stopped = false;
                return;
            }
        }
        self.child = cmd.stdin(Stdio::null()).stdout(Stdio::null()).stderr(Stdio::null()).spawn().ok();
        self.stopped = false;
    }
    fn signal(&self, sig: i32) {
        if let Some(c) = &self.child {
            unsafe {
                libc::kill(c.id() as i32, sig);
            }
        }
    }
    fn kill(&mut self) {
        if let Some(mut c) = self.child.take() {
            let _ = c.kill();
            let _ = c.wait();
        }
        self.stopped = false;
    }
    fn alive(&self) -> bool {
        self.child.is_some() && !self.stopped
    }
}

fn enc(s: &str) -> String {
    s.bytes().map(|b| if b.is_ascii_alphanumeric() || b == b'-' || b == b'_' || b == b'.' { (b as char).to_string() } else { format!("%{:02X}", b) }).collect()
}

pub fn run() {
    let mut nodes: Vec<NodeP> = vec![];
    let mut base: u16 = 0;
    let mut snap: u64 = 10000;
    let mut work = tempfile::tempdir().unwrap();
    // Instance addresses: r-nacos probes every persistent instance by TCP connect from every node and sets its
    // health from the result. The scenarios' addresses 10.0.0.X:80 are mapped to listening sockets of this process
    // (and back in the lists), so that the probes succeed and health is a function of the operations alone.
    let mut inst_ports: Vec<u16> = vec![];
    for _ in 0..10 {
        if let Ok(l) = std::net::TcpListener::bind(("127.0.0.1", 0)) {
            inst_ports.push(l.local_addr().map(|a| a.port()).unwrap_or(0));
            std::thread::spawn(move || {
                for c in l.incoming() {
                    drop(c);
                }
            });
        }
    }
    let map_addr = |ip: &str, port: &str, inst_ports: &Vec<u16>| -> (String, String) {
        match (ip.strip_prefix("10.0.0."), port) {
            (Some(x), "80") => match x.parse::<usize>().ok().and_then(|k| inst_ports.get(k)) {
                Some(p) => ("127.0.0.1".to_string(), p.to_string()),
                None => (ip.to_string(), port.to_string()),
            },
            _ => (ip.to_string(), port.to_string()),
        }
    };
    // gRPC clients (the nacos_rust_client crate r-nacos itself depends on), by name: each holds one bi-stream connection
    // to the node it was created for and registers ephemeral instances through it
    let mut gclients: std::collections::HashMap<String, std::sync::Arc<nacos_rust_client::client::naming_client::NamingClient>> = Default::default();
    // alias -> access token issued by a real login (scenarios with OpenAPI auth on)
    let mut tokens: Vec<(String, String)> = vec![];
    for_each_line(|l| {
        if l.starts_with('#') {
            gclients.clear();
            tokens.clear();
            AUTH_TTL.store(0, std::sync::atomic::Ordering::SeqCst);
            if let Ok(mut g) = GLOBAL_TOKEN.lock() {
                *g = None;
            }
            for n in nodes.iter_mut() {
                n.signal(libc::SIGCONT);
                n.kill();
            }
            nodes = vec![];
            work = tempfile::tempdir().unwrap();
            return l.to_string();
        }
        let ws: Vec<&str> = l.split_whitespace().collect();
        let idx = |s: &str, nodes: &Vec<NodeP>| -> Option<usize> { s.parse::<usize>().ok().filter(|i| *i >= 1 && *i <= nodes.len()).map(|i| i - 1) };
        match ws.as_slice() {
            ["up", n, rest @ ..] => {
                // node 1 occasionally cannot commit after its start (its automatic initialisation races with the
                // injection of the managers inside config_factory); that is not what these scenarios are about: retry
                let mut attempt = 0;
                loop {
                    attempt += 1;
                    let r = (|| -> String {
                let n: u64 = n.parse().unwrap_or(3);
                snap = rest.iter().find_map(|w| w.strip_prefix("snap=")).and_then(|v| v.parse().ok()).unwrap_or(10000);
                let total: u64 = rest.iter().find_map(|w| w.strip_prefix("of=")).and_then(|v| v.parse().ok()).unwrap_or(n);
                base = free_base();
                nodes = (1..=total).map(|i| NodeP { id: i, http: base + (i as u16 - 1), dir: work.path().join(format!("n{}", i)), child: None, stopped: false }).collect();
                for nd in nodes.iter_mut() {
                    let _ = std::fs::create_dir_all(&nd.dir);
                }
                // `auth=<ttl>`: the whole cluster runs with OpenAPI auth on; the harness logs in as the initial administrator
                // once node 1 is up and carries that token in every request from then on
                let auth: u64 = rest.iter().find_map(|w| w.strip_prefix("auth=")).and_then(|v| v.parse().ok()).unwrap_or(0);
                AUTH_TTL.store(auth, std::sync::atomic::Ordering::SeqCst);
                if let Ok(mut g) = GLOBAL_TOKEN.lock() {
                    *g = None;
                }
                for i in 0..(n as usize) {
                    nodes[i].spawn(base, snap);
                    if i == 0 && auth > 0 {
                        let deadline = std::time::Instant::now() + Duration::from_secs(40);
                        while std::time::Instant::now() < deadline {
                            if let Some((200, b)) = http(nodes[0].http, "POST", "/nacos/v1/auth/login?username=admin&password=admin", 3000) {
                                if let Some(t) = serde_json::from_str::<serde_json::Value>(&b).ok().and_then(|v| v["accessToken"].as_str().map(|x| x.to_string())) {
                                    if let Ok(mut g) = GLOBAL_TOKEN.lock() {
                                        *g = Some(t);
                                    }
                                    break;
                                }
                            }
                            std::thread::sleep(Duration::from_millis(300));
                        }
                    }
                    // the first node has to be up (and leader) before the others ask to join
                    let deadline = std::time::Instant::now() + Duration::from_secs(if i == 0 { 25 } else { 12 });
                    let port = nodes[i].http;
                    let mut ok = false;
                    while std::time::Instant::now() < deadline {
                        if let Some((200, _)) = http(port, "GET", "/nacos/v1/cs/configs?dataId=verif-up&group=g", 1500).or(None).map(|(s, b)| (if s == 404 || s == 200 { 200 } else { s }, b)) {
                            ok = true;
                            break;
                        }
                        std::thread::sleep(Duration::from_millis(150));
                    }
                    if !ok {
                        return format!("dead node{}", i + 1);
                    }
                    if i == 0 {
                        // leader able to commit
                        let deadline = std::time::Instant::now() + Duration::from_secs(25);
                        let mut committed = false;
                        while std::time::Instant::now() < deadline {
                            if let Some((200, b)) = http(port, "POST", "/nacos/v1/cs/configs?dataId=verif-up&group=g&content=up", 4000) {
                                if b.trim() == "true" {
                                    committed = true;
                                    break;
                                }
                            }
                            std::thread::sleep(Duration::from_millis(300));
                        }
                        if !committed {
                            return "dead leader-cannot-commit".to_string();
                        }
                    }
                }
                // every started node serves the probe value (it has joined and caught up)
                let deadline = std::time::Instant::now() + Duration::from_secs(40);
                loop {
                    let all = (0..(n as usize)).all(|i| matches!(http(nodes[i].http, "GET", "/nacos/v1/cs/configs?dataId=verif-up&group=g", 1500), Some((200, b)) if b == "up"));
                    if all {
                        break;
                    }
                    if std::time::Instant::now() > deadline {
                        return "dead not-all-joined".to_string();
                    }
                    std::thread::sleep(Duration::from_millis(300));
                }
                // ... and the naming side of the cluster is formed: every node's view contains every other node (a node
                // that is missing from a sender's view never receives that sender's HTTP registrations, only the 15 s
                // heartbeat batches repair that). One probe instance through every node must be listed by all nodes.
                if n >= 2 {
                    for i in 0..(n as usize) {
                        let _ = http(nodes[i].http, "POST", &format!("/nacos/v1/ns/instance?serviceName=verif-probe&ip=127.0.0.9&port={}&ephemeral=true", i + 1), 4000);
                    }
                    let deadline = std::time::Instant::now() + Duration::from_secs(40);
                    loop {
                        let all = (0..(n as usize)).all(|i| match http(nodes[i].http, "GET", "/nacos/v1/ns/instance/list?serviceName=verif-probe&healthyOnly=false", 2000) {
                            Some((200, b)) => serde_json::from_str::<serde_json::Value>(&b).ok().map(|v| v["hosts"].as_array().map(|a| a.len()).unwrap_or(0) == n as usize).unwrap_or(false),
                            _ => false,
                        });
                        if all {
                            break;
                        }
                        if std::time::Instant::now() > deadline {
                            return "dead naming-views-incomplete".to_string();
                        }
                        // re-announce: a registration made before a peer was known is not sent to it later
                        for i in 0..(n as usize) {
                            let _ = http(nodes[i].http, "POST", &format!("/nacos/v1/ns/instance?serviceName=verif-probe&ip=127.0.0.9&port={}&ephemeral=true", i + 1), 4000);
                        }
                        std::thread::sleep(Duration::from_millis(700));
                    }
                    for i in 0..(n as usize) {
                        let _ = http(nodes[i].http, "DELETE", &format!("/nacos/v1/ns/instance?serviceName=verif-probe&ip=127.0.0.9&port={}&ephemeral=true", i + 1), 4000);
                    }
                }
                "ok".to_string()
                })();
                    if r == "ok" || attempt >= 3 {
                        return r;
                    }
                    for nd in nodes.iter_mut() {
                        nd.kill();
                    }
                    work = tempfile::tempdir().unwrap();
                }
            }
            // one node with OpenAPI auth on and access tokens that live <ttl> seconds; up = it refuses an anonymous read
            // and lets the initial administrator log in (the user is created through raft after the start)
            ["upauth", ttl] => {
                AUTH_TTL.store(ttl.parse().unwrap_or(3), std::sync::atomic::Ordering::SeqCst);
                // as in `up`: a node occasionally cannot commit after its start (its automatic initialisation races with the
                // injection of the managers inside config_factory) - then the administrator is never created: retry afresh
                let mut r = "dead no-login".to_string();
                for attempt in 0..3 {
                    for n in nodes.iter_mut() {
                        n.kill();
                    }
                    base = free_base();
                    nodes = vec![NodeP { id: 1, http: base, dir: work.path().join(format!("n1_{}", attempt)), child: None, stopped: false }];
                    let _ = std::fs::create_dir_all(&nodes[0].dir);
                    nodes[0].spawn(base, snap);
                    let deadline = std::time::Instant::now() + Duration::from_secs(25);
                    while std::time::Instant::now() < deadline {
                        if let Some((200, b)) = http(base, "POST", "/nacos/v1/auth/login?username=admin&password=admin", 3000) {
                            if b.contains("accessToken") {
                                r = "ok".to_string();
                                break;
                            }
                        }
                        std::thread::sleep(Duration::from_millis(300));
                    }
                    if r == "ok" {
                        break;
                    }
                }
                r
            }
            ["login", i, alias] => match idx(i, &nodes) {
                Some(i) => match http(nodes[i].http, "POST", "/nacos/v1/auth/login?username=admin&password=admin", 4000) {
                    Some((200, b)) => match serde_json::from_str::<serde_json::Value>(&b).ok().and_then(|v| v["accessToken"].as_str().map(|x| x.to_string())) {
                        Some(t) => {
                            tokens.retain(|(a, _)| a != alias);
                            tokens.push((alias.to_string(), t));
                            "ok".to_string()
                        }
                        None => "err no-token".to_string(),
                    },
                    Some((st, _)) => format!("err {}", st),
                    None => "err down".to_string(),
                },
                None => "bad-op".to_string(),
            },
            // a read / a publish that carries the token of <alias> (`none` = no token, `garbage` = a made-up one)
            ["tget", i, alias, key] | ["tpub", i, alias, key, _] => match idx(i, &nodes) {
                Some(i) => {
                    let tok = match *alias {
                        "none" => None,
                        "garbage" => Some("0123456789abcdef0123456789abcdef".to_string()),
                        a => tokens.iter().find(|(x, _)| x == a).map(|(_, t)| t.clone()),
                    };
                    let mut path = format!("/nacos/v1/cs/configs?dataId={}&group=g", enc(key));
                    if ws[0] == "tpub" {
                        path.push_str(&format!("&content={}", enc(ws[4])));
                    }
                    if let Some(t) = &tok {
                        path.push_str(&format!("&accessToken={}", t));
                    }
                    // a node that was just started needs a moment before it listens
                    let deadline = std::time::Instant::now() + Duration::from_secs(20);
                    let mut r = "status down".to_string();
                    while std::time::Instant::now() < deadline {
                        if let Some((st, _)) = http(nodes[i].http, if ws[0] == "tpub" { "POST" } else { "GET" }, &path, 4000) {
                            r = format!("status {}", st);
                            break;
                        }
                        std::thread::sleep(Duration::from_millis(200));
                    }
                    r
                }
                None => "bad-op".to_string(),
            },
            ["start", i] => match idx(i, &nodes) {
                Some(i) => {
                    nodes[i].kill();
                    nodes[i].spawn(base, snap);
                    // with auth on: a node that is caught up by a snapshot does not know the sessions the snapshot holds (they
                    // are loaded as expired); the harness logs in again through a node that is up - the new session reaches
                    // the started node as an ordinary log entry - and carries the new token from then on
                    if AUTH_TTL.load(std::sync::atomic::Ordering::SeqCst) > 0 && GLOBAL_TOKEN.lock().map(|g| g.is_some()).unwrap_or(false) {
                        for k in 0..nodes.len() {
                            if k == i || !nodes[k].alive() {
                                continue;
                            }
                            if let Some((200, b)) = http(nodes[k].http, "POST", "/nacos/v1/auth/login?username=admin&password=admin", 4000) {
                                if let Some(t) = serde_json::from_str::<serde_json::Value>(&b).ok().and_then(|v| v["accessToken"].as_str().map(|x| x.to_string())) {
                                    if let Ok(mut g) = GLOBAL_TOKEN.lock() {
                                        *g = Some(t);
                                    }
                                    break;
                                }
                            }
                        }
                    }
                    "ok".to_string()
                }
                None => "bad-op".to_string(),
            },
            ["kill", i] => match idx(i, &nodes) {
                Some(i) => {
                    nodes[i].signal(libc::SIGCONT);
                    nodes[i].kill();
                    "ok".to_string()
                }
                None => "bad-op".to_string(),
            },
            ["stop", i] => match idx(i, &nodes) {
                Some(i) => {
                    nodes[i].signal(libc::SIGSTOP);
                    nodes[i].stopped = true;
                    "ok".to_string()
                }
                None => "bad-op".to_string(),
            },
            ["cont", i] => match idx(i, &nodes) {
                Some(i) => {
                    nodes[i].signal(libc::SIGCONT);
                    nodes[i].stopped = false;
                    "ok".to_string()
                }
                None => "bad-op".to_string(),
            },
            // wait (bounded) until node i has applied what the other live nodes have applied: raft's own metrics
            // (GET /nacos/v1/raft/metrics, `last_applied`), asked again and again - instead of a fixed settling time
            ["caughtup", i, ms] => match idx(i, &nodes) {
                Some(i) => {
                    let applied = |port: u16| -> Option<u64> {
                        match http(port, "GET", "/nacos/v1/raft/metrics", 3000) {
                            Some((200, b)) => serde_json::from_str::<serde_json::Value>(&b).ok().and_then(|v| v["last_applied"].as_u64()),
                            _ => None,
                        }
                    };
                    let deadline = std::time::Instant::now() + Duration::from_millis(ms.parse().unwrap_or(30000));
                    let mut last = (None, 0u64);
                    let mut r = String::new();
                    while std::time::Instant::now() < deadline {
                        let target = nodes.iter().enumerate().filter(|(j, n)| *j != i && n.alive()).filter_map(|(_, n)| applied(n.http)).max().unwrap_or(0);
                        let mine = if nodes[i].alive() { applied(nodes[i].http) } else { None };
                        last = (mine, target);
                        if let Some(m) = mine {
                            if target > 0 && m >= target {
                                r = "caughtup ok".to_string();
                                break;
                            }
                        }
                        std::thread::sleep(Duration::from_millis(300));
                    }
                    if r.is_empty() {
                        r = format!("caughtup behind mine={} others={}", last.0.map(|x| x.to_string()).unwrap_or("-".to_string()), last.1);
                    }
                    r
                }
                None => "bad-op".to_string(),
            },
            ["settle", ms] => {
                std::thread::sleep(Duration::from_millis(ms.parse().unwrap_or(1000)));
                "ok".to_string()
            }
            ["pub", i, k, v] => match idx(i, &nodes) {
                Some(i) if nodes[i].alive() => match http(nodes[i].http, "POST", &format!("/nacos/v1/cs/configs?dataId={}&group=g&content={}", enc(k), enc(v)), 9000) {
                    Some((200, b)) if b.trim() == "true" => "ok".to_string(),
                    Some(_) => "err".to_string(),
                    None => "err".to_string(),
                },
                Some(_) => "down".to_string(),
                None => "bad-op".to_string(),
            },
            ["rm", i, k] => match idx(i, &nodes) {
                Some(i) if nodes[i].alive() => match http(nodes[i].http, "DELETE", &format!("/nacos/v1/cs/configs?dataId={}&group=g", enc(k)), 9000) {
                    Some((200, b)) if b.trim() == "true" => "ok".to_string(),
                    _ => "err".to_string(),
                },
                Some(_) => "down".to_string(),
                None => "bad-op".to_string(),
            },
            ["get", i, k] => match idx(i, &nodes) {
                Some(i) if nodes[i].alive() => match http(nodes[i].http, "GET", &format!("/nacos/v1/cs/configs?dataId={}&group=g", enc(k)), 4000) {
                    Some((200, b)) => format!("val {}", b),
                    Some((404, _)) => "none".to_string(),
                    _ => "down".to_string(),
                },
                Some(_) => "down".to_string(),
                None => "bad-op".to_string(),
            },
            ["getall", k] => {
                // "eventually": the answers are collected until all live nodes agree, for at most 8 s (the settling times
                // of the scenarios are bounds for an idle machine; a loaded one is given this much more)
                let deadline = std::time::Instant::now() + std::time::Duration::from_millis(8000);
                loop {
                    let mut parts = vec![];
                    let mut vals = vec![];
                    for nd in nodes.iter() {
                        let v = if !nd.alive() {
                            "down".to_string()
                        } else {
                            match http(nd.http, "GET", &format!("/nacos/v1/cs/configs?dataId={}&group=g", enc(k)), 4000) {
                                Some((200, b)) => b,
                                Some((404, _)) => "none".to_string(),
                                _ => "down".to_string(),
                            }
                        };
                        if v != "down" {
                            vals.push(v.clone());
                        }
                        parts.push(format!("{}={}", nd.id, v));
                    }
                    let agree = vals.windows(2).all(|w| w[0] == w[1]);
                    if agree || std::time::Instant::now() >= deadline {
                        break format!("all {}", parts.join(" "));
                    }
                    std::thread::sleep(std::time::Duration::from_millis(500));
                }
            }
            ["reg", i, svc, ip, port, eph] | ["dereg", i, svc, ip, port, eph] => match idx(i, &nodes) {
                Some(i) if nodes[i].alive() => {
                    let m = if ws[0] == "reg" { "POST" } else { "DELETE" };
                    let (ip, port) = map_addr(ip, port, &inst_ports);
                    match http(nodes[i].http, m, &format!("/nacos/v1/ns/instance?serviceName={}&ip={}&port={}&ephemeral={}&healthy=true&enabled=true&weight=1", enc(svc), ip, port, if *eph == "1" { "true" } else { "false" }), 9000) {
                        Some((200, b)) if b.trim() == "ok" => "ok".to_string(),
                        _ => "err".to_string(),
                    }
                }
                Some(_) => "down".to_string(),
                None => "bad-op".to_string(),
            },
            // an HTTP client's heartbeat (PUT /instance/beat, the light form without a beat body)
            ["beat", i, svc, ip, port] => match idx(i, &nodes) {
                Some(i) if nodes[i].alive() => {
                    let (ip, port) = map_addr(ip, port, &inst_ports);
                    match http(nodes[i].http, "PUT", &format!("/nacos/v1/ns/instance/beat?serviceName={}&ip={}&port={}&ephemeral=true", enc(svc), ip, port), 9000) {
                        Some((200, _)) => "ok".to_string(),
                        _ => "err".to_string(),
                    }
                }
                Some(_) => "down".to_string(),
                None => "bad-op".to_string(),
            },
            // a gRPC client <c> connected to node <i> registers an ephemeral instance
            ["greg", c, i, svc, ip, port] => match idx(i, &nodes) {
                Some(i) if nodes[i].alive() => {
                    let (ip, port) = map_addr(ip, port, &inst_ports);
                    let http = nodes[i].http;
                    let cl = gclients.entry(c.to_string()).or_insert_with(|| {
                        nacos_rust_client::client::ClientBuilder::new()
                            .set_endpoint_addrs(&format!("127.0.0.1:{}", http))
                            .set_use_grpc(true)
                            .set_client_ip(format!("127.0.0.{}", 10 + i))
                            .build_naming_client()
                    });
                    cl.register(nacos_rust_client::client::naming_client::Instance::new_simple(&ip, port.parse().unwrap_or(0), svc, "DEFAULT_GROUP"));
                    "ok".to_string()
                }
                Some(_) => "down".to_string(),
                None => "bad-op".to_string(),
            },
            ["gdereg", c, svc, ip, port] => match gclients.get(*c) {
                Some(cl) => {
                    let (ip, port) = map_addr(ip, port, &inst_ports);
                    cl.unregister(nacos_rust_client::client::naming_client::Instance::new_simple(&ip, port.parse().unwrap_or(0), svc, "DEFAULT_GROUP"));
                    "ok".to_string()
                }
                None => "bad-op".to_string(),
            },
            ["listall", svc] => {
                let deadline = std::time::Instant::now() + std::time::Duration::from_millis(8000);
                loop {
                    let line: String = {
                let mut parts = vec![];
                        for nd in nodes.iter() {
                            let v = if !nd.alive() {
                                "down".to_string()
                            } else {
                                match http(nd.http, "GET", &format!("/nacos/v1/ns/instance/list?serviceName={}&healthyOnly=false", enc(svc)), 4000) {
                                    Some((200, b)) => match serde_json::from_str::<serde_json::Value>(&b) {
                                        Ok(v) => {
                                            let mut hosts: Vec<String> = v["hosts"].as_array().cloned().unwrap_or_default().iter().map(|h| {
                                                let (mut ip, mut port) = (h["ip"].as_str().unwrap_or("").to_string(), h["port"].to_string());
                                                if ip == "127.0.0.1" {
                                                    if let Some(k) = inst_ports.iter().position(|p| p.to_string() == port) {
                                                        ip = format!("10.0.0.{}", k);
                                                        port = "80".to_string();
                                                    }
                                                }
                                                format!("{}:{}:{}:{}:{}", ip, port, h["healthy"], h["enabled"], h["weight"])
                                            }).collect();
                                            hosts.sort();
                                            if hosts.is_empty() { "-".to_string() } else { hosts.join(",") }
                                        }
                                        Err(_) => "unparsable".to_string(),
                                    },
                                    _ => "down".to_string(),
                                }
                            };
                            parts.push(format!("{}={}", nd.id, v));
                        }
                        format!("lists {}", parts.join(" "))
                    };
                    let vals: Vec<&str> = line.split_whitespace().skip(1).filter_map(|p| p.split_once('=').map(|x| x.1)).filter(|v| *v != "down").collect();
                    let agree = vals.windows(2).all(|w| w[0] == w[1]);
                    if agree || std::time::Instant::now() >= deadline {
                        break line;
                    }
                    std::thread::sleep(std::time::Duration::from_millis(500));
                }
            }
            _ => "bad-op".to_string(),
        }
    });
    for n in nodes.iter_mut() {
        n.signal(libc::SIGCONT);
        n.kill();
    }
}
