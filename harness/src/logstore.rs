//! model `logstore` (C02/C03, several files): the real FileStore over RaftIndexManager + RaftLogManager
//! (+ snapshot/apply managers) in a temp directory.  Every session (between `open`/`reopen`) has its own
//! actix System on its own thread; closing the session drops it, which releases the directory lock.
use crate::util::*;
use actix::prelude::*;
use async_raft_ext::raft::{Entry, EntryNormal, EntryPayload, MembershipConfig};
use async_raft_ext::RaftStorage;
use rnacos::raft::filestore::core::FileStore;
use rnacos::raft::filestore::raftapply::StateApplyManager;
use rnacos::raft::filestore::raftindex::RaftIndexManager;
use rnacos::raft::filestore::raftlog::{RaftLogManager, RaftLogManagerRequest};
use rnacos::raft::filestore::raftsnapshot::RaftSnapshotManager;
use rnacos::raft::filestore::StoreUtils;
use rnacos::raft::store::ClientRequest;
use std::sync::mpsc as smpsc;
use std::sync::Arc;

pub type OpMsg = (String, smpsc::Sender<String>);

pub struct Session {
    pub tx: tokio::sync::mpsc::UnboundedSender<OpMsg>,
    pub handle: std::thread::JoinHandle<()>,
}

fn n(s: &str) -> u64 {
    s.parse().unwrap_or(0)
}

fn entry(i: u64, t: u64, len: u64, sd: u64) -> Entry<ClientRequest> {
    let key = format!("s{}:{}", sd, "x".repeat(len as usize));
    Entry { term: t, index: i, payload: EntryPayload::Normal(EntryNormal { data: ClientRequest::ConfigRemove { key } }) }
}

fn show(e: &Entry<ClientRequest>) -> String {
    match &e.payload {
        EntryPayload::Normal(EntryNormal { data: ClientRequest::ConfigRemove { key } }) => {
            let mut it = key.splitn(2, ':');
            let sd = it.next().unwrap_or("").trim_start_matches('s').to_string();
            let rest = it.next().unwrap_or("");
            let ok = rest.bytes().all(|b| b == b'x');
            format!("{}:{}:{}:{}{}", e.index, e.term, rest.len(), sd, if ok { "" } else { "!" })
        }
        EntryPayload::SnapshotPointer(_) => format!("{}:{}:ptr", e.index, e.term),
        _ => format!("{}:{}:other", e.index, e.term),
    }
}

/// model `logstore` only: the answer of every operation that can change the catalogue of log files carries the
/// catalogue as the index file holds it afterwards (` cat=<rows>`); other users of the session get the bare answers
pub static WITH_CAT: std::sync::atomic::AtomicBool = std::sync::atomic::AtomicBool::new(false);

async fn catalogue(index_manager: &Addr<RaftIndexManager>) -> String {
    match index_manager.send(rnacos::raft::filestore::raftindex::RaftIndexRequest::LoadIndexInfo).await {
        Ok(Ok(rnacos::raft::filestore::raftindex::RaftIndexResponse::RaftIndexInfo { raft_index, .. })) => {
            let rows: Vec<String> = raft_index
                .logs
                .iter()
                .map(|l| format!("{}:{}:{}:{}:{}", l.id, l.start_index, l.record_count, l.split_off_index, if l.is_close { 1 } else { 0 }))
                .collect();
            if rows.is_empty() { "-".to_string() } else { rows.join(",") }
        }
        _ => "err".to_string(),
    }
}

async fn run_op(store: &FileStore, log_manager: &Addr<RaftLogManager>, index_manager: &Addr<RaftIndexManager>, snapshot_manager: &Addr<RaftSnapshotManager>, l: &str) -> String {
    let r = run_op_inner(store, log_manager, index_manager, snapshot_manager, l).await;
    let first = l.split_whitespace().next().unwrap_or("");
    if WITH_CAT.load(std::sync::atomic::Ordering::Relaxed) && matches!(first, "a" | "b" | "del" | "compact" | "inst") {
        // a round trip through the log manager first: its catalogue writes are queued before its answer
        let _ = store.get_last_log_index().await;
        format!("{} cat={}", r, catalogue(index_manager).await)
    } else {
        r
    }
}

async fn run_op_inner(store: &FileStore, log_manager: &Addr<RaftLogManager>, index_manager: &Addr<RaftIndexManager>, snapshot_manager: &Addr<RaftSnapshotManager>, l: &str) -> String {
    let ws: Vec<&str> = l.split_whitespace().collect();
    match ws.as_slice() {
        ["a", i, t, len, sd] => match store.append_entry_to_log(&entry(n(i), n(t), n(len), n(sd))).await {
            Ok(_) => "ok".to_string(),
            Err(_) => "err".to_string(),
        },
        ["b", i, t, cnt, len, sd] => {
            let es: Vec<Entry<ClientRequest>> = (0..n(cnt)).map(|j| entry(n(i) + j, n(t), n(len), n(sd) + j)).collect();
            match store.replicate_to_log(&es).await {
                Ok(_) => "ok".to_string(),
                Err(_) => "err".to_string(),
            }
        }
        ["del", k] => match store.delete_logs_from(n(k), None).await {
            Ok(_) => "ok".to_string(),
            Err(_) => "err".to_string(),
        },
        ["get", a, b] => match store.get_log_entries(n(a), n(b)).await {
            Ok(es) => {
                let mut s = format!("ents n={}", es.len());
                for e in &es {
                    s.push(' ');
                    s.push_str(&show(e));
                }
                s
            }
            Err(_) => "err".to_string(),
        },
        ["last"] => match store.get_last_log_index().await {
            Ok(i) => format!("last {} {}", i.index, i.term),
            Err(_) => "err".to_string(),
        },
        // log compaction: do_log_compaction hands the manager a pointer to the new snapshot
        ["compact", i, t] => {
            let e: Entry<ClientRequest> = Entry::new_snapshot_pointer(n(i), n(t), "1".to_string(), MembershipConfig::new_initial(1));
            match StoreUtils::entry_to_record(&e) {
                Ok(r) => match log_manager.send(RaftLogManagerRequest::BuildSnapshotPointerLog(r)).await {
                    Ok(Ok(_)) => {
                        // the pointer record is handed to its log actor without waiting; a query goes through every log
                        // actor's mailbox behind it, so its answer means the installation has been carried out
                        let _ = store.get_log_entries(n(i), n(i) + 1).await;
                        "ok".to_string()
                    }
                    _ => "err".to_string(),
                },
                Err(_) => "err".to_string(),
            }
        }
        // the log part of a snapshot installation, the two requests `FileStore::finalize_snapshot_installation` sends to the
        // log manager, in its order (the function itself is driven by the `apply` harness: it needs a snapshot file)
        ["inst", i, t] => {
            let e: Entry<ClientRequest> = Entry::new_snapshot_pointer(n(i), n(t), "1".to_string(), MembershipConfig::new_initial(1));
            match StoreUtils::entry_to_record(&e) {
                Ok(r) => {
                    let a = log_manager.send(RaftLogManagerRequest::SplitOff(u64::MAX)).await;
                    let b = log_manager.send(RaftLogManagerRequest::InstallSnapshotPointerLog(r)).await;
                    match (a, b) {
                        (Ok(Ok(_)), Ok(Ok(_))) => {
                            let _ = store.get_log_entries(n(i), n(i) + 1).await;
                            "ok".to_string()
                        }
                        _ => "err".to_string(),
                    }
                }
                Err(_) => "err".to_string(),
            }
        }
        // a snapshot as `do_build_snapshot` registers it (C04): a new snapshot file through the manager's writer (header
        // only), flushed, then `CompleteSnapshot` - which unlinks older snapshot files and rewrites the catalogue
        ["snap", end] => {
            use rnacos::raft::filestore::raftsnapshot::{RaftSnapshotRequest, RaftSnapshotResponse, SnapshotWriterRequest};
            let header = rnacos::raft::filestore::model::SnapshotHeaderDto {
                last_index: n(end),
                last_term: 1,
                member: vec![],
                member_after_consensus: vec![],
                node_addrs: Default::default(),
            };
            match snapshot_manager.send(RaftSnapshotRequest::NewSnapshot(header)).await {
                Ok(Ok(RaftSnapshotResponse::NewSnapshot(writer, id, _path))) => {
                    // the writer answers a flush before it ran: the second answer follows the first flush
                    let _ = writer.send(SnapshotWriterRequest::Flush).await;
                    let _ = writer.send(SnapshotWriterRequest::Flush).await;
                    let range = rnacos::raft::filestore::log::SnapshotRange { id, end_index: n(end) };
                    match snapshot_manager.send(RaftSnapshotRequest::CompleteSnapshot(range)).await {
                        Ok(Ok(_)) => {
                            // the catalogue write is queued at the index manager: a round trip through it
                            let _ = catalogue(index_manager).await;
                            "ok".to_string()
                        }
                        _ => "err".to_string(),
                    }
                }
                _ => "err".to_string(),
            }
        }
        // the snapshot a start would load: the last one the catalogue names - does its file exist?
        ["lastsnap"] => {
            use rnacos::raft::filestore::raftsnapshot::{RaftSnapshotRequest, RaftSnapshotResponse};
            match snapshot_manager.send(RaftSnapshotRequest::GetLastSnapshot).await {
                Ok(Ok(RaftSnapshotResponse::LastSnapshot(Some(path), _))) => {
                    if std::fs::File::open(&path).is_ok() { "lastsnap ok".to_string() } else { "lastsnap missing".to_string() }
                }
                Ok(Ok(RaftSnapshotResponse::LastSnapshot(None, _))) => "lastsnap none".to_string(),
                _ => "err".to_string(),
            }
        }
        ["hs", t, v] => {
            let hs = async_raft_ext::storage::HardState { current_term: n(t), voted_for: if n(v) == 0 { None } else { Some(n(v)) } };
            match store.save_hard_state(&hs).await {
                Ok(_) => "ok".to_string(),
                Err(_) => "err".to_string(),
            }
        }
        ["applied", k] => match index_manager.send(rnacos::raft::filestore::raftindex::RaftIndexRequest::SaveLastAppliedLog(n(k))).await {
            Ok(Ok(_)) => "ok".to_string(),
            _ => "err".to_string(),
        },
        ["init"] => match store.get_initial_state().await {
            Ok(st) => format!(
                "init last={}:{} applied={} hs={}:{}",
                st.last_log_index,
                st.last_log_term,
                st.last_applied_log,
                st.hard_state.current_term,
                st.hard_state.voted_for.unwrap_or(0)
            ),
            Err(_) => "err".to_string(),
        },
        ["files"] => "files".to_string(),
        // the catalogue of log files as the index file holds it: id:start:count:split:closed per file, in order
        ["cat"] => format!("cat {}", catalogue(index_manager).await),
        _ => "bad-op".to_string(),
    }
}

pub fn start_session(dir: std::path::PathBuf) -> Option<Session> {
    let (tx, mut rx) = tokio::sync::mpsc::unbounded_channel::<OpMsg>();
    let (ready_tx, ready_rx) = smpsc::channel::<bool>();
    let handle = std::thread::spawn(move || {
        let sys = actix_rt::System::new();
        sys.block_on(async move {
            let base_path = Arc::new(dir.to_string_lossy().into_owned());
            let index_manager = RaftIndexManager::new(base_path.clone()).start();
            let log_manager = RaftLogManager::new(base_path.clone(), Some(index_manager.clone())).start();
            let snapshot_manager = RaftSnapshotManager::new(base_path.clone(), Some(index_manager.clone())).start();
            let apply_manager = StateApplyManager::new().start();
            let store = FileStore::new(1, index_manager.clone(), snapshot_manager.clone(), log_manager.clone(), apply_manager);
            // first round trip: the managers have finished their asynchronous start
            let ok = store.get_last_log_index().await.is_ok();
            let _ = ready_tx.send(ok);
            while let Some((op, reply)) = rx.recv().await {
                let r = run_op(&store, &log_manager, &index_manager, &snapshot_manager, &op).await;
                let _ = reply.send(r);
            }
            // let the periodic flush of the log actors run once more before everything is dropped
            tokio::time::sleep(std::time::Duration::from_millis(30)).await;
        });
    });
    match ready_rx.recv_timeout(std::time::Duration::from_secs(10)) {
        Ok(true) => Some(Session { tx, handle }),
        _ => None,
    }
}

pub fn close(s: Option<Session>) {
    if let Some(s) = s {
        drop(s.tx);
        let _ = s.handle.join();
    }
}

pub fn run() {
    WITH_CAT.store(true, std::sync::atomic::Ordering::Relaxed);
    let mut dir = tempfile::tempdir().unwrap();
    let mut sess: Option<Session> = None;
    for_each_line(|l| {
        if l.starts_with('#') {
            close(sess.take());
            dir = tempfile::tempdir().unwrap();
            std::env::remove_var("RNACOS_VERIF_LOG_GEOMETRY");
            return l.to_string();
        }
        let ws: Vec<&str> = l.split_whitespace().collect();
        if ws.first() == Some(&"open") || ws.first() == Some(&"reopen") {
            close(sess.take());
            if ws[0] == "open" {
                match ws.get(1).and_then(|g| g.strip_prefix("geom=")) {
                    Some(g) => std::env::set_var("RNACOS_VERIF_LOG_GEOMETRY", g),
                    None => std::env::remove_var("RNACOS_VERIF_LOG_GEOMETRY"),
                }
            }
            sess = start_session(dir.path().to_path_buf());
            return match &sess {
                Some(s) => {
                    // the catalogue the store starts from
                    let (rtx, rrx) = smpsc::channel();
                    let c = if s.tx.send(("cat".to_string(), rtx)).is_ok() { rrx.recv_timeout(std::time::Duration::from_secs(20)).unwrap_or_default() } else { String::new() };
                    format!("ok cat={}", c.strip_prefix("cat ").unwrap_or("err"))
                }
                None => "dead".to_string(),
            };
        }
        if ws.first() == Some(&"files") {
            let mut names: Vec<String> = std::fs::read_dir(dir.path())
                .map(|rd| rd.filter_map(|e| e.ok()).map(|e| e.file_name().to_string_lossy().to_string()).filter(|n| n.starts_with("log_")).collect())
                .unwrap_or_default();
            names.sort();
            return format!("files {}", if names.is_empty() { "-".to_string() } else { names.join(",") });
        }
        match &sess {
            None => "closed".to_string(),
            Some(s) => {
                let (rtx, rrx) = smpsc::channel();
                if s.tx.send((l.to_string(), rtx)).is_err() {
                    return "dead".to_string();
                }
                match rrx.recv_timeout(std::time::Duration::from_secs(20)) {
                    Ok(r) => r,
                    Err(_) => "timeout".to_string(),
                }
            }
        }
    });
}
