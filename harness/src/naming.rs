//! model `naming` (C11, C12, C13): the real NamingActor (standalone) driven through NamingCmd, with
//! the wall clock frozen by the LD_PRELOAD clock shim (`now=` of every op) and the hook dump.
use crate::util::*;
use actix::prelude::*;
use rnacos::naming::cluster::model::ProcessRange;
use rnacos::naming::core::{NamingActor, NamingCmd, NamingResult};
use rnacos::naming::model::{Instance, InstanceUpdateTag, ServiceDetailDto, ServiceKey};
use rnacos::naming::service_index::ServiceQueryParam;
use std::sync::Arc;

const BASE: i64 = 1_700_000_000_000;

type SetFn = unsafe extern "C" fn(i64);

fn clock_setter() -> Option<SetFn> {
    unsafe {
        let sym = libc::dlsym(libc::RTLD_DEFAULT, b"verif_clock_set_ms\0".as_ptr() as *const libc::c_char);
        if sym.is_null() {
            None
        } else {
            Some(std::mem::transmute::<*mut libc::c_void, SetFn>(sym))
        }
    }
}

fn kv<'a>(ws: &'a [&'a str], k: &str) -> &'a str {
    for w in ws {
        if let Some(v) = w.strip_prefix(k) {
            if let Some(v) = v.strip_prefix('=') {
                return v;
            }
        }
    }
    ""
}

fn skey(s: &str) -> ServiceKey {
    let p: Vec<&str> = s.split('|').collect();
    let f = |x: &str| if x == "-" { String::new() } else { x.to_string() };
    ServiceKey::new(&f(p.first().unwrap_or(&"")), &f(p.get(1).unwrap_or(&"")), &f(p.get(2).unwrap_or(&"")))
}

fn instance_of(ws: &[&str]) -> Instance {
    let k = skey(kv(ws, "svc"));
    let cid = kv(ws, "cid");
    Instance {
        ip: Arc::new(kv(ws, "ip").to_string()),
        port: kv(ws, "port").parse().unwrap_or(0),
        weight: kv(ws, "w").parse::<f32>().unwrap_or(1000.0) / 1000.0,
        enabled: kv(ws, "en") != "0",
        healthy: kv(ws, "healthy") != "0",
        ephemeral: kv(ws, "eph") != "0",
        cluster_name: "DEFAULT".to_string(),
        service_name: k.service_name.clone(),
        group_name: k.group_name.clone(),
        namespace_id: k.namespace_id.clone(),
        from_grpc: kv(ws, "grpc") == "1",
        from_cluster: kv(ws, "fc").parse().unwrap_or(0),
        client_id: Arc::new(if cid == "-" { String::new() } else { cid.to_string() }),
        ..Default::default()
    }
}

fn tag_of(s: &str) -> Option<InstanceUpdateTag> {
    if s == "-" || s.is_empty() {
        return None;
    }
    if s == "none" {
        return Some(InstanceUpdateTag { weight: false, metadata: false, enabled: false, ephemeral: false, from_update: false });
    }
    Some(InstanceUpdateTag {
        weight: s.contains('w'),
        metadata: s.contains('m'),
        enabled: s.contains('e'),
        ephemeral: s.contains('p'),
        from_update: s.contains('u'),
    })
}

fn show_inst(i: &Instance, full: bool) -> String {
    let w = (i.weight * 1000.0).round() as i64;
    if full {
        format!(
            "{}:{}:h{}:e{}:p{}:w{}:g{}:fc{}:c{}:lm{}",
            i.ip,
            i.port,
            i.healthy as u8,
            i.enabled as u8,
            i.ephemeral as u8,
            w,
            i.from_grpc as u8,
            i.from_cluster,
            if i.client_id.is_empty() { "-" } else { i.client_id.as_str() },
            i.last_modified_millis - BASE
        )
    } else {
        format!("{}:{}:h{}:e{}:p{}:w{}", i.ip, i.port, i.healthy as u8, i.enabled as u8, i.ephemeral as u8, w)
    }
}

/// service keys known to the actor (from the hook dump)
async fn service_keys(a: &Addr<NamingActor>) -> Vec<String> {
    let d = a.send(rnacos::verif_hooks::VerifDumpNaming).await.unwrap_or_default();
    let part = d.split(' ').find(|x| x.starts_with("services=")).unwrap_or("services=");
    part["services=".len()..]
        .split(',')
        .filter(|x| !x.is_empty())
        .map(|x| x.split(':').next().unwrap_or("").to_string())
        .collect()
}

fn skey_of_dump(k: &str) -> ServiceKey {
    let p: Vec<&str> = k.split('/').collect();
    ServiceKey::new(p.first().unwrap_or(&""), p.get(1).unwrap_or(&""), p.get(2).unwrap_or(&""))
}

/// every instance of every service: `ns/group/svc@ip:port:h:p:cid`
async fn all_instances(a: &Addr<NamingActor>) -> String {
    let mut out = vec![];
    for k in service_keys(a).await {
        if let Ok(Ok(NamingResult::InstanceList(list))) = a.send(NamingCmd::QueryAllInstanceList(skey_of_dump(&k))).await {
            for i in list {
                out.push(format!(
                    "{}@{}:{}:h{}:p{}:c{}",
                    k,
                    i.ip,
                    i.port,
                    i.healthy as u8,
                    i.ephemeral as u8,
                    if i.client_id.is_empty() { "-" } else { i.client_id.as_str() }
                ));
            }
        }
    }
    out.sort();
    if out.is_empty() { "-".to_string() } else { out.join(",") }
}

/// the hook dump (counters, reverse maps, index) together with what the public queries return
async fn audit(a: &Addr<NamingActor>) -> String {
    let d = a.send(rnacos::verif_hooks::VerifDumpNaming).await.unwrap_or_default();
    format!("{} insts={}", d, all_instances(a).await)
}

/// the registry's snapshot records (`NamingActor::build_snapshot` through the real snapshot writer and reader)
async fn snapshot_records(a: &Addr<NamingActor>) -> Result<Vec<rnacos::raft::filestore::model::SnapshotRecordDto>, String> {
    use rnacos::raft::filestore::raftapply::RaftApplyDataRequest;
    use rnacos::raft::filestore::raftsnapshot::{SnapshotReader, SnapshotWriterActor, SnapshotWriterRequest};
    let dir = tempfile::tempdir().map_err(|e| e.to_string())?;
    let path = dir.path().join("snap").to_string_lossy().to_string();
    let header = rnacos::raft::filestore::model::SnapshotHeaderDto { last_index: 1, last_term: 1, member: vec![1], member_after_consensus: vec![], node_addrs: Default::default() };
    let writer = SnapshotWriterActor::new(Arc::new(path.clone()), header).start();
    match a.send(RaftApplyDataRequest::BuildSnapshot(writer.clone())).await {
        Ok(Ok(_)) => {}
        _ => return Err("build".to_string()),
    }
    // the writer answers `Flush` before the flush has run (it is queued as a `wait` future): the answer to a second one
    // arrives only after the first has completed
    if !matches!(writer.send(SnapshotWriterRequest::Flush).await, Ok(Ok(_))) || !matches!(writer.send(SnapshotWriterRequest::Flush).await, Ok(Ok(_))) {
        return Err("flush".to_string());
    }
    let mut recs = vec![];
    let mut reader = SnapshotReader::init(&path).await.map_err(|e| e.to_string())?;
    while let Ok(Some(r)) = reader.read_record().await {
        recs.push(r);
    }
    Ok(recs)
}

fn show_record(r: &rnacos::raft::filestore::model::SnapshotRecordDto) -> String {
    use quick_protobuf::BytesReader;
    let mut reader = BytesReader::from_bytes(&r.value);
    match reader.read_message::<rnacos::common::pb::data_object::InstanceDo>(&r.value) {
        Ok(d) => format!(
            "{}|{}|{}@{}:{}:w{}:e{}:h{}:p{}",
            if d.namespace_id.is_empty() { "-".to_string() } else { d.namespace_id.to_string() },
            d.group_name,
            d.service_name,
            d.ip,
            d.port,
            (d.weight * 1000.0).round() as i64,
            d.enabled as u8,
            d.healthy as u8,
            (!d.ephemeral) as u8
        ),
        Err(_) => "undecodable".to_string(),
    }
}

pub fn run() {
    let setter = clock_setter();
    let sys = actix_rt::System::new();
    let mut actor: Addr<NamingActor> = sys.block_on(async { NamingActor::new().start() });
    let mut started = std::time::Instant::now();
    for_each_line(|l| {
        if l.starts_with('#') {
            if let Some(f) = setter {
                unsafe { f(BASE) };
            }
            actor = sys.block_on(async { NamingActor::new().start() });
            started = std::time::Instant::now();
            return l.to_string();
        }
        if setter.is_none() {
            return "err no-clock-shim".to_string();
        }
        // the actor's own 2 s heartbeat must not interleave with the case
        if started.elapsed().as_millis() > 1500 {
            return "slow-case".to_string();
        }
        let ws: Vec<&str> = l.split_whitespace().collect();
        if let Ok(now) = kv(&ws, "now").parse::<i64>() {
            unsafe { (setter.unwrap())(BASE + now) };
        }
        let a = actor.clone();
        // the registry is replaced by a fresh one that loads the snapshot of the current one (what a restart does)
        if ws.first().copied() == Some("reload") {
            let (fresh, out) = sys.block_on(async {
                use rnacos::raft::filestore::raftapply::RaftApplyDataRequest;
                match snapshot_records(&a).await {
                    Err(e) => (None, format!("err {}", e)),
                    Ok(recs) => {
                        let fresh = NamingActor::new().start();
                        let mut ok = true;
                        for r in recs {
                            ok &= matches!(fresh.send(RaftApplyDataRequest::LoadSnapshotRecord(r)).await, Ok(Ok(_)));
                        }
                        ok &= matches!(fresh.send(RaftApplyDataRequest::LoadCompleted).await, Ok(Ok(_)));
                        (Some(fresh), if ok { "ok".to_string() } else { "err load".to_string() })
                    }
                }
            });
            if let Some(f) = fresh {
                actor = f;
                started = std::time::Instant::now();
            }
            return out;
        }
        sys.block_on(async {
            match ws.first().copied() {
                Some("snap") => match snapshot_records(&a).await {
                    Ok(recs) => {
                        let mut v: Vec<String> = recs.iter().map(show_record).collect();
                        v.sort();
                        format!("snap {}", if v.is_empty() { "-".to_string() } else { v.join(",") })
                    }
                    Err(e) => format!("err {}", e),
                },
                Some("upd") => {
                    let inst = instance_of(&ws[1..]);
                    let tag = tag_of(kv(&ws, "tag"));
                    let cmd = if kv(&ws, "sync") == "1" { NamingCmd::UpdateFromSync(inst, tag) } else { NamingCmd::Update(inst, tag) };
                    match a.send(cmd).await {
                        Ok(Ok(_)) => "ok".to_string(),
                        _ => "err".to_string(),
                    }
                }
                Some("del") => match a.send(NamingCmd::Delete(instance_of(&ws[1..]))).await {
                    Ok(Ok(_)) => "ok".to_string(),
                    _ => "err".to_string(),
                },
                // the result of the TCP probe of a persistent instance's host (naming::sniffing reports it this way)
                Some("probe") => {
                    let i = instance_of(&ws[1..]);
                    let cmd = NamingCmd::PerpetualHostSniffing {
                        host: i.get_short_key(),
                        service_keys: vec![skey(kv(&ws, "svc"))],
                        success: kv(&ws, "ok") == "1",
                    };
                    match a.send(cmd).await {
                        Ok(Ok(_)) => "ok".to_string(),
                        _ => "err".to_string(),
                    }
                }
                // the apply of a committed NamingRaftReq::RemoveInstance
                Some("raftrm") => {
                    let i = instance_of(&ws[1..]);
                    match a.send(rnacos::naming::model::actor_model::NamingRaftReq::RemoveInstance(i.get_instance_key())).await {
                        Ok(Ok(_)) => "ok".to_string(),
                        _ => "err".to_string(),
                    }
                }
                Some("rmclient") | Some("rmclientc") => {
                    let before = all_instances(&a).await;
                    let cmd = if ws[0] == "rmclient" {
                        NamingCmd::RemoveClient(Arc::new(ws[1].to_string()))
                    } else {
                        NamingCmd::RemoveClientFromCluster(Arc::new(ws[1].to_string()))
                    };
                    match a.send(cmd).await {
                        Ok(Ok(_)) => format!("ok before={} after={}", before, all_instances(&a).await),
                        _ => "err".to_string(),
                    }
                }
                // what another node's sync sends
                // another node's digest of its gRPC connections, as handle_naming_route hands it to the registry
                Some("digest") => {
                    let mut data: std::collections::HashMap<Arc<String>, std::collections::HashSet<rnacos::naming::model::InstanceKey>> = Default::default();
                    for gw in ws.split(|w| *w == "|") {
                        if kv(gw, "svc").is_empty() {
                            continue;
                        }
                        let k = skey(kv(gw, "svc"));
                        let ik = rnacos::naming::model::InstanceKey::new_by_service_key(&k, Arc::new(kv(gw, "ip").to_string()), kv(gw, "port").parse().unwrap_or(0));
                        data.entry(Arc::new(kv(gw, "cid").to_string())).or_default().insert(ik);
                    }
                    let cmd = NamingCmd::DiffGrpcDistroData { cluster_id: kv(&ws, "fc").parse().unwrap_or(2), data: rnacos::naming::model::DistroData::ClientInstances(data) };
                    match a.send(cmd).await {
                        Ok(Ok(NamingResult::DiffDistroData(rnacos::naming::model::DistroData::DiffClientInstances(v)))) => {
                            let mut out: Vec<String> = v
                                .iter()
                                .map(|k| format!("{}/{}/{}@{}:{}", k.namespace_id, k.group_name, k.service_name, k.ip, k.port))
                                .collect();
                            out.sort();
                            format!("asked {}", if out.is_empty() { "-".to_string() } else { out.join(",") })
                        }
                        _ => "err".to_string(),
                    }
                }
                Some("updbatch") | Some("delbatch") => {
                    let mut insts = vec![];
                    for g in ws[1..].split(|w| *w == "|") {
                        if !kv(g, "svc").is_empty() {
                            insts.push(instance_of(g));
                        }
                    }
                    let cmd = if ws[0] == "updbatch" { NamingCmd::UpdateBatch(insts) } else { NamingCmd::DeleteBatch(insts) };
                    match a.send(cmd).await {
                        Ok(Ok(_)) => "ok".to_string(),
                        _ => "err".to_string(),
                    }
                }
                Some("rmclients") => {
                    let before = all_instances(&a).await;
                    let ids: Vec<Arc<String>> = ws[1..].iter().filter(|w| !w.contains('=')).map(|w| Arc::new(w.to_string())).collect();
                    match a.send(NamingCmd::RemoveClientsFromCluster(ids)).await {
                        Ok(Ok(_)) => format!("ok before={} after={}", before, all_instances(&a).await),
                        _ => "err".to_string(),
                    }
                }
                Some("ipage") => {
                    let cmd = NamingCmd::QueryInstancePage {
                        service_key: skey(kv(&ws, "svc")),
                        cluster: "".to_string(),
                        only_healthy: kv(&ws, "ho") == "1",
                        page_size: kv(&ws, "size").parse().unwrap_or(0),
                        page_index: kv(&ws, "idx").parse().unwrap_or(0),
                    };
                    match a.send(cmd).await {
                        Ok(Ok(NamingResult::InstanceInfoPage((total, list)))) => {
                            let v: Vec<String> = list.iter().map(|i| show_inst(i, false)).collect();
                            let mut raw: Vec<String> = match a.send(NamingCmd::QueryAllInstanceList(skey(kv(&ws, "svc")))).await {
                                Ok(Ok(NamingResult::InstanceList(l))) => l.iter().map(|i| show_inst(i, false)).collect(),
                                _ => vec![],
                            };
                            raw.sort();
                            format!("ipage total={} page={} all={}", total, if v.is_empty() { "-".to_string() } else { v.join(",") },
                                if raw.is_empty() { "-".to_string() } else { raw.join(",") })
                        }
                        _ => "err".to_string(),
                    }
                }
                Some("selectone") => {
                    let mut cands: Vec<String> = match a.send(NamingCmd::QueryAllInstanceList(skey(kv(&ws, "svc")))).await {
                        Ok(Ok(NamingResult::InstanceList(l))) => l.iter().filter(|i| i.healthy && i.enabled).map(|i| format!("{}:{}", i.ip, i.port)).collect(),
                        _ => vec![],
                    };
                    cands.sort();
                    match a.send(NamingCmd::SelectOneInstance(skey(kv(&ws, "svc")))).await {
                        Ok(Ok(NamingResult::SelectInstance(v))) => format!(
                            "selectone got={} cands={}",
                            v.map(|i| format!("{}:{}", i.ip, i.port)).unwrap_or("-".to_string()),
                            if cands.is_empty() { "-".to_string() } else { cands.join(",") }
                        ),
                        _ => "err".to_string(),
                    }
                }
                Some("timecheck") => match a.send(NamingCmd::PeekListenerTimeout).await {
                    Ok(Ok(_)) => "ok".to_string(),
                    _ => "err".to_string(),
                },
                Some("rmservice") => match a.send(NamingCmd::RemoveService(skey(kv(&ws, "svc")))).await {
                    Ok(Ok(_)) => "ok".to_string(),
                    Ok(Err(_)) => "refused".to_string(),
                    _ => "err".to_string(),
                },
                Some("range") => match a.send(NamingCmd::ClusterRefreshProcessRange(ProcessRange::new(0, 1))).await {
                    Ok(Ok(_)) => "ok".to_string(),
                    _ => "err".to_string(),
                },
                // a process range under which the services of `in=` belong to this node and those of `out=` do not
                Some("range2") => {
                    let ins: Vec<ServiceKey> = kv(&ws, "in").split(',').filter(|x| !x.is_empty()).map(skey).collect();
                    let outs: Vec<ServiceKey> = kv(&ws, "out").split(',').filter(|x| !x.is_empty()).map(skey).collect();
                    let mut found = None;
                    'search: for len in 2usize..64 {
                        for idx in 0..len {
                            let r = ProcessRange::new(idx, len);
                            let h = |k: &ServiceKey| rnacos::common::hash_utils::get_hash_value(k) as usize;
                            if ins.iter().all(|k| r.is_range(h(k))) && outs.iter().all(|k| !r.is_range(h(k))) {
                                found = Some(r);
                                break 'search;
                            }
                        }
                    }
                    match found {
                        Some(r) => match a.send(NamingCmd::ClusterRefreshProcessRange(r)).await {
                            Ok(Ok(_)) => "ok".to_string(),
                            _ => "err".to_string(),
                        },
                        None => "err no-such-range".to_string(),
                    }
                }
                Some("setprotect") => {
                    let k = skey(kv(&ws, "svc"));
                    let dto = ServiceDetailDto {
                        namespace_id: k.namespace_id.clone(),
                        service_name: k.service_name.clone(),
                        group_name: k.group_name.clone(),
                        metadata: None,
                        protect_threshold: Some(kv(&ws, "p").parse::<f32>().unwrap_or(0.0) / 1000.0),
                        grpc_instance_count: None,
                    };
                    match a.send(NamingCmd::UpdateServiceFromCluster(dto)).await {
                        Ok(Ok(_)) => "ok".to_string(),
                        _ => "err".to_string(),
                    }
                }
                Some("list") => {
                    let ho = kv(&ws, "ho") == "1";
                    match a.send(NamingCmd::QueryList(skey(kv(&ws, "svc")), "".to_string(), ho, None)).await {
                        Ok(Ok(NamingResult::InstanceList(list))) => {
                            let mut v: Vec<String> = list.iter().map(|i| show_inst(i, false)).collect();
                            v.sort();
                            let mut raw: Vec<String> = match a.send(NamingCmd::QueryAllInstanceList(skey(kv(&ws, "svc")))).await {
                                Ok(Ok(NamingResult::InstanceList(l))) => l.iter().map(|i| show_inst(i, false)).collect(),
                                _ => vec![],
                            };
                            raw.sort();
                            // the same question through the other observation point: QueryServiceInfo (gRPC query / subscribe)
                            let mut si: Vec<String> = match a.send(NamingCmd::QueryServiceInfo(skey(kv(&ws, "svc")), "".to_string(), ho)).await {
                                Ok(Ok(NamingResult::ServiceInfo(info))) => info.hosts.unwrap_or_default().iter().map(|i| format!("{}:{}", i.ip, i.port)).collect(),
                                _ => vec!["err".to_string()],
                            };
                            si.sort();
                            format!("insts {} all={} sinfo={}", if v.is_empty() { "-".to_string() } else { v.join(",") }, if raw.is_empty() { "-".to_string() } else { raw.join(",") },
                                if si.is_empty() { "-".to_string() } else { si.join(",") })
                        }
                        _ => "err".to_string(),
                    }
                }
                Some("all") => match a.send(NamingCmd::QueryAllInstanceList(skey(kv(&ws, "svc")))).await {
                    Ok(Ok(NamingResult::InstanceList(list))) => {
                        let mut v: Vec<String> = list.iter().map(|i| show_inst(i, true)).collect();
                        v.sort();
                        format!("insts {}", if v.is_empty() { "-".to_string() } else { v.join(",") })
                    }
                    _ => "err".to_string(),
                },
                Some("info") => {
                    let p = ServiceQueryParam { limit: 100000, ..Default::default() };
                    match a.send(NamingCmd::QueryServiceInfoPage(p)).await {
                        Ok(Ok(NamingResult::ServiceInfoPage((total, list)))) => {
                            let mut v: Vec<String> = list
                                .iter()
                                .map(|s| format!("{}|{}:{}:{}", s.group_name, s.service_name, s.instance_size, s.healthy_instance_size))
                                .collect();
                            v.sort();
                            format!("total={} svcs {}", total, v.join(","))
                        }
                        _ => "err".to_string(),
                    }
                }
                Some("clients") => match a.send(NamingCmd::QueryClientInstanceCount).await {
                    Ok(Ok(NamingResult::ClientInstanceCount(list))) => {
                        let mut v: Vec<String> = list.iter().filter(|(_, n)| *n > 0).map(|(c, n)| format!("{}={}", c, n)).collect();
                        v.sort();
                        format!("clients {}", v.join(","))
                    }
                    _ => "err".to_string(),
                },
                Some("audit") => audit(&a).await,
                Some("dump") => match a.send(rnacos::verif_hooks::VerifDumpNaming).await {
                    Ok(s) => s,
                    _ => "err".to_string(),
                },
                _ => "bad-op".to_string(),
            }
        })
    });
}
