//! helpers shared by all sub-commands: byte-token grammar, FNV hash, line IO.
use std::io::{BufRead, Write};

pub fn parse_hex(s: &str) -> Option<Vec<u8>> {
    let b = s.as_bytes();
    if b.len() % 2 != 0 {
        return None;
    }
    let mut out = Vec::with_capacity(b.len() / 2);
    for i in (0..b.len()).step_by(2) {
        let h = (b[i] as char).to_digit(16)?;
        let l = (b[i + 1] as char).to_digit(16)?;
        out.push((h * 16 + l) as u8);
    }
    Some(out)
}

/// segments joined by '.': hex | zN | rHEX*N | "-" (empty)
pub fn parse_bytes(tok: &str) -> Option<Vec<u8>> {
    if tok == "-" {
        return Some(vec![]);
    }
    let mut out = vec![];
    for seg in tok.split('.') {
        if let Some(n) = seg.strip_prefix('z') {
            let n: usize = n.parse().ok()?;
            out.extend(std::iter::repeat(0u8).take(n));
        } else if let Some(r) = seg.strip_prefix('r') {
            let mut it = r.split('*');
            let b = parse_hex(it.next()?)?;
            let n: usize = it.next()?.parse().ok()?;
            for _ in 0..n {
                out.extend_from_slice(&b);
            }
        } else {
            out.extend(parse_hex(seg)?);
        }
    }
    Some(out)
}

pub fn to_hex(b: &[u8]) -> String {
    if b.is_empty() {
        return "-".to_string();
    }
    let mut s = String::with_capacity(b.len() * 2);
    for x in b {
        s.push_str(&format!("{:02x}", x));
    }
    s
}

pub fn fnv(b: &[u8]) -> u64 {
    let mut h: u64 = 14695981039346656037;
    for x in b {
        h ^= *x as u64;
        h = h.wrapping_mul(1099511628211);
    }
    h
}

/// deterministic payload of `len` bytes derived from `seed` (same function in the Lean driver)
pub fn payload(len: usize, seed: u64) -> Vec<u8> {
    let mut out = Vec::with_capacity(len);
    let mut x = seed.wrapping_mul(6364136223846793005).wrapping_add(1442695040888963407);
    for _ in 0..len {
        x = x.wrapping_mul(6364136223846793005).wrapping_add(1442695040888963407);
        out.push((x >> 33) as u8);
    }
    out
}

pub fn for_each_line<F: FnMut(&str) -> String>(mut f: F) {
    let stdin = std::io::stdin();
    let stdout = std::io::stdout();
    let mut out = std::io::BufWriter::new(stdout.lock());
    for line in stdin.lock().lines() {
        let line = match line {
            Ok(l) => l,
            Err(_) => break,
        };
        let l = line.trim();
        let o = f(l);
        let _ = writeln!(out, "{}", o);
    }
    let _ = out.flush();
}
