//! `harness node <dir>`: one complete r-nacos node (the real `config_factory` wiring: every state-machine actor, the
//! raft file store, StateApplyManager, RaftDataHandler) without its network servers and with Raft left
//! un-initialised.  The parent drives the node's RaftStorage exactly as the raft library does:
//!   leader path   : append_entry_to_log ; apply_entry_to_state_machine
//!   follower path : replicate_to_log ; replicate_to_state_machine   (batches)
//!   replay path   : process restart (snapshot load + load_log up to last_applied)
//! and asks for canonical dumps of the served state.
use crate::util::*;
use actix::Actor;
use async_raft_ext::raft::{Entry, EntryNormal, EntryPayload};
use async_raft_ext::RaftStorage;
use rnacos::common::AppSysConfig;
use rnacos::config::core::{ConfigActor, ConfigCmd, ConfigKey, ConfigResult};
use rnacos::config::model::ConfigValueDO;
use rnacos::raft::filestore::core::FileStore;
use rnacos::raft::filestore::raftapply::{StateApplyManager, StateApplyRequest, StateApplyResponse};
use rnacos::raft::filestore::raftdata::RaftDataHandler;
use rnacos::raft::filestore::raftsnapshot::{
    RaftSnapshotManager, RaftSnapshotRequest, RaftSnapshotResponse, SnapshotReader, SnapshotWriterActor, SnapshotWriterRequest,
};
use rnacos::raft::store::ClientRequest;
use serde_json::json;
use std::sync::Arc;

/// request number `seq` of kind `kind` with two small parameters: the same on every node
pub fn mkreq(kind: &str, a: u64, b: u64, seq: u64) -> Result<ClientRequest, String> {
    // "cfgsetd:<id>:<mark|->": a publish whose history id and high-water mark were drawn by a node's own sequence
    // (what the leader does in ConfigAsyncCmd::Add), not fabricated by the harness
    if let Some(rest) = kind.strip_prefix("cfgsetd:") {
        let p: Vec<&str> = rest.split(':').collect();
        let id: u64 = p.first().and_then(|x| x.parse().ok()).ok_or("bad id")?;
        let mark: Option<u64> = p.get(1).and_then(|x| x.parse().ok());
        let cfg_key = format!("d{}\u{2}g{}\u{2}t{}", a % 4, a / 4 % 2, a / 8 % 2);
        let v = json!({"ConfigSet": {"key": cfg_key, "value": format!("drawn-{}-{}", b, seq), "config_type": json!(null), "desc": json!(null),
            "history_id": id, "history_table_id": mark, "op_time": 1_700_000_000_000i64 + seq as i64, "op_user": json!(null)}});
        return serde_json::from_value(v).map_err(|e| e.to_string());
    }
    // every third publish / removal addresses the tenant of one of the user namespaces (`ns<k>`): a namespace then is both
    // user-created and in use
    let cfg_key = if b % 3 == 2 {
        format!("d{}\u{2}g{}\u{2}ns{}", a % 4, a / 4 % 2, a % 5)
    } else {
        format!("d{}\u{2}g{}\u{2}t{}", a % 4, a / 4 % 2, a / 8 % 2)
    };
    // `cfgbig`: a configuration of several MiB (the default limit is 10 MiB): its log record is larger than the steps in
    // which a log file is pre-allocated
    // `cfgempty`: a committed publish of blank content (the HTTP handlers refuse it, gRPC publish / console / import do not
    // look): every path must treat it alike
    let content = if kind == "cfgempty" { String::new() } else if kind == "cfgbig" { "y".repeat(3_600_000 + b as usize) } else if b % 7 == 6 { "x".repeat(3000 + b as usize) } else { format!("content-{}", b) };
    let kind = if kind == "cfgbig" || kind == "cfgempty" { "cfgset" } else { kind };
    let tbl = ["T_USER", "T_CACHE"][(a % 2) as usize];
    let cty = ["yaml", "json"][(b % 2) as usize];
    let v = match kind {
        "nodeaddr" => json!({"NodeAddr": {"id": a + 1, "addr": format!("127.0.0.1:{}", 9000 + b)}}),
        // never this node (id 1): with itself in the stored membership the idle raft core would start an election after a
        // restart and write to the log on its own
        "members" => json!({"Members": (2..=(a % 3 + 2)).collect::<Vec<u64>>()}),
        "cfgset" => json!({"ConfigSet": {"key": cfg_key, "value": content,
            "config_type": if b % 3 == 0 { json!(null) } else { json!(cty) },
            "desc": if b % 4 == 0 { json!(null) } else { json!(format!("desc {}", b)) },
            "history_id": seq, "history_table_id": if seq % 100 == 1 { json!(seq + 99) } else { json!(null) },
            "op_time": 1_700_000_000_000i64 + seq as i64, "op_user": if b % 2 == 0 { json!("admin") } else { json!(null) }}}),
        "cfgrm" => json!({"ConfigRemove": {"key": cfg_key}}),
        "cfgfull" => {
            let vdo = ConfigValueDO {
                content: Some(content.clone()),
                histories: vec![rnacos::config::model::ConfigHistoryItemDO {
                    id: Some(seq),
                    content: Some(content.clone()),
                    last_time: Some(1_700_000_000_000i64 + seq as i64),
                    op_user: if b % 2 == 0 { Some("importer".to_string()) } else { None },
                }],
                config_type: if b % 2 == 0 { Some("toml".to_string()) } else { None },
                desc: Some(format!("imported {}", b)),
            };
            let bytes = vdo.to_bytes().map_err(|e| e.to_string())?;
            json!({"ConfigFullValue": {"key": cfg_key.as_bytes(), "value": bytes, "last_seq_id": if b % 3 == 0 { json!(seq + 1000) } else { json!(null) }}})
        }
        "nsset" | "nsadd" | "nsupd" => {
            let p = json!({"namespace_id": format!("ns{}", a % 5), "namespace_name": format!("name{}", b), "type": if b % 2 == 0 { json!(null) } else { json!("2") }});
            match kind {
                "nsset" => json!({"NamespaceReq": {"Set": p}}),
                "nsadd" => json!({"NamespaceReq": {"AddOnly": p}}),
                _ => json!({"NamespaceReq": {"Update": p}}),
            }
        }
        "nsdel" => json!({"NamespaceReq": {"Delete": {"id": format!("ns{}", a % 5)}}}),
        "tblset" => json!({"TableManagerReq": {"Set": {"table_name": tbl,
            "key": format!("k{}", a % 6).as_bytes(), "value": format!("val-{}", b).as_bytes(),
            "last_seq_id": if b % 5 == 0 { json!(seq) } else { json!(null) }}}}),
        "tblauto" => json!({"TableManagerReq": {"SetUseAutoId": {"table_name": tbl, "value": format!("auto-{}", b).as_bytes()}}}),
        "tblrm" => json!({"TableManagerReq": {"Remove": {"table_name": tbl, "key": format!("k{}", a % 6).as_bytes()}}}),
        "tblnext" => json!({"TableManagerReq": {"NextId": {"table_name": tbl, "seq_step": if b % 2 == 0 { json!(null) } else { json!(b % 5 + 1) }}}}),
        "tblseq" => json!({"TableManagerReq": {"SetSeqId": {"table_name": tbl, "last_seq_id": 100 + b}}}),
        "tbldrop" => json!({"TableManagerReq": {"Drop": tbl}}),
        "seqnext" => json!({"SequenceReq": {"req": {"NextId": format!("seq{}", a % 3)}}}),
        "seqrange" => json!({"SequenceReq": {"req": {"NextRange": [format!("seq{}", a % 3), b % 20 + 1]}}}),
        "seqset" => json!({"SequenceReq": {"req": {"SetId": [format!("seq{}", a % 3), 1000 + b]}}}),
        "seqrm" => json!({"SequenceReq": {"req": {"RemoveId": format!("seq{}", a % 3)}}}),
        // `inst`/`instupd`: the metadata is a function of the instance key; `instm`/`instupdm`: it varies (known finding F23)
        "inst" | "instupd" | "instm" | "instupdm" => {
            let p = json!({"ip": format!("10.0.0.{}", a % 4), "port": 8000 + (a / 4 % 2), "weight": 1.0 + (b % 3) as f64, "enabled": b % 5 != 0,
                "healthy": true, "ephemeral": false, "metadata": {"k": if kind.ends_with('m') { format!("m{}", b) } else { format!("k{}", a) }}, "namespace_id": "public", "group_name": "DEFAULT_GROUP",
                "service_name": format!("svc{}", a / 8 % 2), "cluster_name": null, "app_name": null, "last_modified_millis": 1_700_000_000_000i64 + seq as i64});
            if kind.starts_with("instupd") {
                json!({"NamingReq": {"req": {"UpdateInstance": {"param": p}}}})
            } else {
                json!({"NamingReq": {"req": {"RegisterInstance": {"param": p}}}})
            }
        }
        "instrm" => json!({"NamingReq": {"req": {"RemoveInstance": {"namespaceId": "public", "groupName": "DEFAULT_GROUP",
            "serviceName": format!("svc{}", a / 8 % 2), "ip": format!("10.0.0.{}", a % 4), "port": 8000 + (a / 4 % 2)}}}}),
        _ => return Err(format!("unknown kind {}", kind)),
    };
    serde_json::from_value::<ClientRequest>(v).map_err(|e| e.to_string())
}

fn entry(index: u64, req: ClientRequest) -> Entry<ClientRequest> {
    Entry { term: 1, index, payload: EntryPayload::Normal(EntryNormal { data: req }) }
}

async fn snapshot_dump(handler: &RaftDataHandler, scratch: &std::path::Path) -> String {
    let path = scratch.join(format!("dump_{}", rnacos::common::datetime_utils::now_millis()));
    let _ = std::fs::remove_file(&path);
    let header = rnacos::raft::filestore::model::SnapshotHeaderDto {
        last_index: 1,
        last_term: 1,
        member: vec![1],
        member_after_consensus: vec![],
        node_addrs: Default::default(),
    };
    let writer = SnapshotWriterActor::new(Arc::new(path.to_string_lossy().to_string()), header).start();
    if handler.build_snapshot(writer.clone()).await.is_err() {
        return "snap=err".to_string();
    }
    // the writer answers `Flush` before the flush has run (it is queued as a `wait` future): the answer to a second one
    // arrives only after the first has completed
    if !matches!(writer.send(SnapshotWriterRequest::Flush).await, Ok(Ok(_))) || !matches!(writer.send(SnapshotWriterRequest::Flush).await, Ok(Ok(_))) {
        return "snap=flusherr".to_string();
    }
    let mut recs: Vec<(String, Vec<u8>, Vec<u8>)> = vec![];
    match SnapshotReader::init(&path.to_string_lossy()).await {
        Ok(mut reader) => {
            while let Ok(Some(r)) = reader.read_record().await {
                recs.push((r.tree.to_string(), r.key, r.value));
            }
        }
        Err(_) => return "snap=readerr".to_string(),
    }
    let _ = std::fs::remove_file(&path);
    recs.sort();
    if std::env::var("VERIF_RAW").is_ok() {
        for r in &recs {
            eprintln!("RAW {} key={:?} value={:?}", r.0, String::from_utf8_lossy(&r.1), String::from_utf8_lossy(&r.2));
        }
    }
    // the records of the sequence component (T_SEQUENCE without the config actor's own SEQ_CONFIG) and of the two
    // tables, readable: predicted by the Lean component models (`Model/Components.lean`)
    let hex = |b: &Vec<u8>| b.iter().map(|x| format!("{:02x}", x)).collect::<String>();
    let mut sq: Vec<String> = recs.iter().filter(|r| r.0 == "T_SEQUENCE" && r.1 != b"SEQ_CONFIG").map(|r| format!("{}={}", String::from_utf8_lossy(&r.1), hex(&r.2))).collect();
    let mut tb: Vec<String> = recs.iter().filter(|r| r.0 == "T_USER" || r.0 == "T_CACHE").map(|r| format!("{}/{}={}", r.0, hex(&r.1), hex(&r.2))).collect();
    sq.sort();
    tb.sort();
    if std::env::var("VERIF_RAW").is_ok() {
        eprintln!("RAW sq {}", sq.join(";"));
        eprintln!("RAW tb {}", tb.join(";"));
    }
    let comp = format!("sq={}#{} tb={}#{}", fnv(sq.join(";").as_bytes()), sq.len(), fnv(tb.join(";").as_bytes()), tb.len());
    // per tree: count and hash
    let mut out = vec![];
    let mut i = 0;
    while i < recs.len() {
        let mut j = i;
        let mut all = vec![];
        while j < recs.len() && recs[j].0 == recs[i].0 {
            all.extend_from_slice(&(recs[j].1.len() as u32).to_be_bytes());
            all.extend_from_slice(&recs[j].1);
            all.extend_from_slice(&(recs[j].2.len() as u32).to_be_bytes());
            all.extend_from_slice(&recs[j].2);
            j += 1;
        }
        out.push(format!("{}:{}:{}", recs[i].0, j - i, fnv(&all)));
        i = j;
    }
    format!("{} snap={}", comp, if out.is_empty() { "-".to_string() } else { out.join(",") })
}

async fn config_dump(config: &actix::Addr<ConfigActor>) -> String {
    // every key the generator can produce: content, md5, type, description and the change history, as served
    let mut parts = vec![];
    for a in 0..16u64 {
        let key = format!("d{}\u{2}g{}\u{2}t{}", a % 4, a / 4 % 2, a / 8 % 2);
        let k: ConfigKey = (&key as &str).into();
        let got = match config.send(ConfigCmd::GET(k.clone())).await {
            Ok(Ok(ConfigResult::Data { value, md5, config_type, desc, last_modified })) => format!(
                "{}:{}:{}:{}:{}",
                fnv(value.as_bytes()),
                md5,
                config_type.map(|x| x.to_string()).unwrap_or("-".to_string()),
                desc.map(|x| fnv(x.as_bytes()).to_string()).unwrap_or("-".to_string()),
                last_modified
            ),
            Ok(Ok(_)) => "none".to_string(),
            _ => "err".to_string(),
        };
        let p = rnacos::config::dal::ConfigHistoryParam {
            id: None,
            data_id: Some(format!("d{}", a % 4)),
            group: Some(format!("g{}", a / 4 % 2)),
            tenant: Some(format!("t{}", a / 8 % 2)),
            order_by: None,
            order_by_desc: None,
            limit: Some(200),
            offset: Some(0),
        };
        let hist = match config.send(ConfigCmd::QueryHistoryPageInfo(Box::new(p))).await {
            Ok(Ok(ConfigResult::ConfigHistoryInfoPage(total, list))) => format!(
                "{}/{}",
                total,
                fnv(list.iter().map(|h| format!("{}:{}:{};", h.id.unwrap_or(0), fnv(h.content.clone().unwrap_or_default().as_bytes()), h.modified_time.unwrap_or(0))).collect::<String>().as_bytes())
            ),
            _ => "err".to_string(),
        };
        if got != "none" || !hist.starts_with("0/") {
            parts.push(format!("{}={}|{}", a, got, hist));
        }
    }
    format!("cfg={}", if parts.is_empty() { "-".to_string() } else { fnv(parts.join(";").as_bytes()).to_string() + "#" + &parts.len().to_string() })
}

async fn last_applied(apply: &actix::Addr<StateApplyManager>) -> u64 {
    match apply.send(StateApplyRequest::GetLastAppliedLog).await {
        Ok(Ok(StateApplyResponse::LastAppliedLog(v))) => v,
        _ => 0,
    }
}

pub fn run(dir: &str) {
    std::env::set_var("RNACOS_CONFIG_DB_DIR", dir);
    std::env::set_var("RNACOS_RAFT_AUTO_INIT", "false");
    std::env::set_var("RNACOS_RAFT_NODE_ID", "1");
    let scratch = std::path::PathBuf::from(format!("{}_scratch", dir));
    let _ = std::fs::create_dir_all(&scratch);
    let sys = actix_rt::System::new();
    sys.block_on(async move {
        let sys_config = Arc::new(AppSysConfig::init_from_env());
        let factory_data = match rnacos::starter::config_factory(sys_config).await {
            Ok(f) => f,
            Err(e) => {
                println!("dead {}", e);
                return;
            }
        };
        let store: Arc<FileStore> = factory_data.get_bean().unwrap();
        let handler: Arc<RaftDataHandler> = factory_data.get_bean().unwrap();
        let config: actix::Addr<ConfigActor> = factory_data.get_actor().unwrap();
        let namespaces: actix::Addr<rnacos::namespace::NamespaceActor> = factory_data.get_actor().unwrap();
        // the start-up load (snapshot + log replay) runs inside StateApplyManager's `wait` futures: a request to it
        // is answered only afterwards
        let apply: actix::Addr<StateApplyManager> = factory_data.get_actor().unwrap();
        let snapshot_manager: actix::Addr<RaftSnapshotManager> = factory_data.get_actor().unwrap();
        let la = last_applied(&apply).await;
        let mut next = store.get_last_log_index().await.map(|i| i.index).unwrap_or(0) + 1;
        // give the fire-and-forget loads (do_send) time to drain into the component actors
        tokio::time::sleep(std::time::Duration::from_millis(150)).await;
        println!("ready applied={} next={}", la, next);
        let mut queue: Vec<(u64, ClientRequest)> = vec![];
        let stdin = std::io::stdin();
        loop {
            let mut line = String::new();
            // blocking read: nothing else has to run while the parent is silent
            if stdin.read_line(&mut line).unwrap_or(0) == 0 {
                break;
            }
            let ws: Vec<&str> = line.split_whitespace().collect();
            let out = match ws.as_slice() {
                ["L", kind, a, b, seq] => match mkreq(kind, a.parse().unwrap_or(0), b.parse().unwrap_or(0), seq.parse().unwrap_or(0)) {
                    Err(e) => format!("badreq {}", e),
                    Ok(req) => {
                        let e = entry(next, req.clone());
                        match store.append_entry_to_log(&e).await {
                            Err(_) => "logerr".to_string(),
                            Ok(_) => {
                                let idx = next;
                                next += 1;
                                match store.apply_entry_to_state_machine(&idx, &req).await {
                                    // the ids a sequence request hands out are part of what the node serves (C01, C19)
                                    Ok(rnacos::raft::store::ClientResponse::SequenceResp { resp }) => match resp {
                                        rnacos::sequence::model::SequenceRaftResult::NextId(v) => format!("ok:id{}", v),
                                        rnacos::sequence::model::SequenceRaftResult::NextRange { start, len } => format!("ok:r{}+{}", start, len),
                                        _ => "ok".to_string(),
                                    },
                                    Ok(_) => "ok".to_string(),
                                    Err(_) => "applyerr".to_string(),
                                }
                            }
                        }
                    }
                },
                ["Q", kind, a, b, seq] => match mkreq(kind, a.parse().unwrap_or(0), b.parse().unwrap_or(0), seq.parse().unwrap_or(0)) {
                    Err(e) => format!("badreq {}", e),
                    Ok(req) => {
                        queue.push((next, req));
                        next += 1;
                        "queued".to_string()
                    }
                },
                // a replicated entry with the index the leader gave it (after a snapshot installation the follower's log
                // continues at the snapshot's index + 1, whatever the follower held before)
                ["QI", idx, kind, a, b, seq] => match mkreq(kind, a.parse().unwrap_or(0), b.parse().unwrap_or(0), seq.parse().unwrap_or(0)) {
                    Err(e) => format!("badreq {}", e),
                    Ok(req) => {
                        let i: u64 = idx.parse().unwrap_or(0);
                        queue.push((i, req));
                        next = i + 1;
                        "queued".to_string()
                    }
                },
                ["F", sizes] => {
                    let mut res = "ok".to_string();
                    let mut it = queue.drain(..).collect::<Vec<_>>().into_iter().peekable();
                    let sizes: Vec<usize> = sizes.split(',').filter_map(|x| x.parse().ok()).collect();
                    let mut si = 0;
                    while it.peek().is_some() {
                        let n = sizes.get(si).cloned().unwrap_or(1000).max(1);
                        si += 1;
                        let batch: Vec<(u64, ClientRequest)> = it.by_ref().take(n).collect();
                        let entries: Vec<Entry<ClientRequest>> = batch.iter().map(|(i, r)| entry(*i, r.clone())).collect();
                        if store.replicate_to_log(&entries).await.is_err() {
                            res = "logerr".to_string();
                            break;
                        }
                        let refs: Vec<(&u64, &ClientRequest)> = batch.iter().map(|(i, r)| (i, r)).collect();
                        if store.replicate_to_state_machine(&refs).await.is_err() {
                            res = "applyerr".to_string();
                        }
                    }
                    res
                }
                ["compact"] => match store.do_log_compaction().await {
                    Ok(s) => format!("ok index={}", s.index),
                    Err(_) => "err".to_string(),
                },
                // a compaction that is interrupted after the snapshot file was written and before it is registered
                // (`do_build_snapshot` steps 3-5 without `CompleteSnapshot`); the parent kills the process next
                ["halfcompact"] => {
                    let la = last_applied(&apply).await;
                    let header = rnacos::raft::filestore::model::SnapshotHeaderDto {
                        last_index: la,
                        last_term: 1,
                        // as `do_build_snapshot` does: the membership stored in the index file (none in this set-up)
                        member: vec![],
                        member_after_consensus: vec![],
                        node_addrs: Default::default(),
                    };
                    match snapshot_manager.send(RaftSnapshotRequest::NewSnapshot(header)).await {
                        Ok(Ok(RaftSnapshotResponse::NewSnapshot(writer, _id, _path))) => {
                            let ok = handler.build_snapshot(writer.clone()).await.is_ok()
                                && matches!(writer.send(SnapshotWriterRequest::Flush).await, Ok(Ok(_)));
                            if ok { "ok".to_string() } else { "err".to_string() }
                        }
                        _ => "err".to_string(),
                    }
                }
                // leader side of a snapshot transfer: where is the current snapshot and what does it cover
                ["snapfile"] => match store.get_current_snapshot().await {
                    Ok(Some(cur)) => match snapshot_manager.send(RaftSnapshotRequest::GetLastSnapshot).await {
                        Ok(Ok(RaftSnapshotResponse::LastSnapshot(Some(path), _))) => format!("snapfile {} {} {}", path, cur.index, cur.term),
                        _ => "err".to_string(),
                    },
                    _ => "none".to_string(),
                },
                // follower side, as async-raft drives it: create_snapshot, receive the bytes, finalize_snapshot_installation
                ["install", path, index, term] => {
                    use tokio::io::AsyncWriteExt;
                    match store.create_snapshot().await {
                        Ok((id, mut file)) => {
                            let bytes = std::fs::read(path).unwrap_or_default();
                            // as async-raft's follower does: the snapshot arrives in chunks, each written at its offset
                            // (`seek(SeekFrom::Start(req.offset))`, then `write_all`); a chunk whose reply was lost is sent
                            // again and written over its first copy
                            let wrote = async {
                                use tokio::io::AsyncSeekExt;
                                let n = bytes.len();
                                let cuts = [0, n / 3, 2 * n / 3, n];
                                for k in 0..3 {
                                    let (a, b) = (cuts[k], cuts[k + 1]);
                                    file.seek(std::io::SeekFrom::Start(a as u64)).await?;
                                    file.write_all(&bytes[a..b]).await?;
                                    if k == 1 {
                                        file.seek(std::io::SeekFrom::Start(a as u64)).await?;
                                        file.write_all(&bytes[a..b]).await?;
                                    }
                                }
                                file.flush().await
                            }
                            .await;
                            if wrote.is_err() {
                                "err write".to_string()
                            } else {
                                // async-raft: delete_through = Some(snapshot index) iff the follower's log is longer
                                let sidx: u64 = index.parse().unwrap_or(0);
                                let through = match store.get_last_log_index().await {
                                    Ok(l) if l.index > sidx => Some(sidx),
                                    _ => None,
                                };
                                match store.finalize_snapshot_installation(sidx, term.parse().unwrap_or(0), through, id, file).await {
                                    Ok(_) => {
                                        next = index.parse::<u64>().unwrap_or(0) + 1;
                                        "ok".to_string()
                                    }
                                    Err(_) => "err finalize".to_string(),
                                }
                            }
                        }
                        Err(_) => "err create".to_string(),
                    }
                }
                // the node draws the next history id the way a leader does (ConfigAsyncCmd::Add -> next_state)
                // membership and node addresses as the node's raft storage reports them
                ["mem"] => {
                    use async_raft_ext::RaftStorage;
                    let m = match store.get_membership_config().await {
                        Ok(m) => {
                            let mut v: Vec<u64> = m.members.iter().cloned().collect();
                            v.sort();
                            let mut w: Vec<u64> = m.members_after_consensus.map(|s| s.into_iter().collect()).unwrap_or_default();
                            w.sort();
                            format!("{:?}/{:?}", v, w).replace(' ', "")
                        }
                        Err(_) => "err".to_string(),
                    };
                    let mut addrs = vec![];
                    for id in 1..=20u64 {
                        if let Ok(a) = store.get_target_addr(id).await {
                            addrs.push(format!("{}={}", id, a));
                        }
                    }
                    format!("mem {};{}", m, addrs.join("+"))
                }
                ["draw"] => match config.send(rnacos::verif_hooks::VerifConfigSeq { draw: true }).await {
                    Ok((id, mark)) => format!("drawn {} {}", id, mark.map(|m| m.to_string()).unwrap_or("-".to_string())),
                    Err(_) => "err".to_string(),
                },
                ["dump"] => {
                    // queued fire-and-forget messages of the follower path drain while we wait on the round trips below
                    tokio::time::sleep(std::time::Duration::from_millis(60)).await;
                    let la = last_applied(&apply).await;
                    let ll = store.get_last_log_index().await.map(|i| i.index).unwrap_or(0);
                    // the namespace list as served (id, name, flags): the snapshot encoder writes only a part of it
                    let nsq = match namespaces.send(rnacos::namespace::model::NamespaceQueryReq::List).await {
                        Ok(Ok(rnacos::namespace::model::NamespaceQueryResult::List(l))) => {
                            // user-created namespaces only (flag bit 2): entries of namespaces that are merely in use are
                            // derived from the other components, asynchronously
                            let mut v: Vec<String> = l.iter().filter(|n| n.flag & 2 != 0).map(|n| format!("{}:{}", n.namespace_id, n.namespace_name)).collect();
                            v.sort();
                            format!("{}#{}", fnv(v.join(";").as_bytes()), v.len())
                        }
                        _ => "err".to_string(),
                    };
                    format!("dump la={} ll={} nsq={} {} {}", la, ll, nsq, config_dump(&config).await, snapshot_dump(&handler, &scratch).await)
                }
                ["quit"] => break,
                _ => "bad-op".to_string(),
            };
            println!("{}", out);
        }
        // let pending flushes run
        tokio::time::sleep(std::time::Duration::from_millis(50)).await;
    });
    std::process::exit(0);
}
