//! model `indexfile` (C05): the real RaftIndexManager actor on a temp directory; reopen = stop the
//! actor (its Drop releases the db_lock) and start a new one on the same directory.
use crate::util::*;
use actix::prelude::*;
use rnacos::raft::filestore::log::{LogRange, SnapshotRange};
use rnacos::raft::filestore::raftindex::{RaftIndexManager, RaftIndexRequest, RaftIndexResponse};
use std::collections::HashMap;
use std::sync::Arc;

fn kv<'a>(ws: &'a [&'a str], k: &str) -> &'a str {
    for w in ws {
        if let Some(v) = w.strip_prefix(k) {
            if let Some(v) = v.strip_prefix('=') {
                return v;
            }
        }
    }
    ""
}

fn nats(s: &str) -> Vec<u64> {
    if s == "-" || s.is_empty() {
        return vec![];
    }
    s.split(',').filter_map(|x| x.parse().ok()).collect()
}

fn join(v: &[u64]) -> String {
    if v.is_empty() {
        "-".to_string()
    } else {
        v.iter().map(|x| x.to_string()).collect::<Vec<_>>().join(",")
    }
}

fn start(sys: &actix_rt::SystemRunner, dir: &std::path::Path) -> Option<Addr<RaftIndexManager>> {
    let p = Arc::new(dir.to_string_lossy().to_string());
    let r = std::panic::catch_unwind(std::panic::AssertUnwindSafe(|| {
        sys.block_on(async move {
            let a = RaftIndexManager::new(p).start();
            // `started` runs the async init with ctx.wait: a first request returns when it is done
            match a.send(RaftIndexRequest::LoadIndexInfo).await {
                Ok(Ok(_)) => Some(a),
                _ => None,
            }
        })
    }));
    r.unwrap_or(None)
}

pub fn run() {
    let sys = actix_rt::System::new();
    let mut dir = tempfile::tempdir().unwrap();
    let mut actor: Option<Addr<RaftIndexManager>> = None;
    for_each_line(|l| {
        if l.starts_with('#') {
            actor = None;
            sys.block_on(async { tokio::time::sleep(std::time::Duration::from_millis(5)).await });
            dir = tempfile::tempdir().unwrap();
            return l.to_string();
        }
        let ws: Vec<&str> = l.split_whitespace().collect();
        if ws.first() == Some(&"open") || ws.first() == Some(&"reopen") {
            actor = None;
            // let the old actor stop and unlock
            sys.block_on(async { tokio::time::sleep(std::time::Duration::from_millis(10)).await });
            actor = start(&sys, dir.path());
            return if actor.is_some() { "ok".to_string() } else { "dead".to_string() };
        }
        if ws.first() == Some(&"size") {
            // a round trip through the actor: pending writes (`ctx.wait`) are finished first
            if let Some(a) = &actor {
                let a = a.clone();
                sys.block_on(async move {
                    let _ = a.send(RaftIndexRequest::LoadIndexInfo).await;
                });
            }
            let n = std::fs::metadata(dir.path().join("index")).map(|m| m.len()).unwrap_or(0);
            return format!("size {}", n);
        }
        let a = match &actor {
            Some(a) => a.clone(),
            None => return "dead".to_string(),
        };
        let req = match ws.as_slice() {
            ["hs", t, v] => Some(RaftIndexRequest::SaveHardState { current_term: t.parse().unwrap_or(0), voted_for: v.parse().unwrap_or(0) }),
            ["applied", n] => Some(RaftIndexRequest::SaveLastAppliedLog(n.parse().unwrap_or(0))),
            ["addaddr", i, ad] => Some(RaftIndexRequest::AddNodeAddr(i.parse().unwrap_or(0), Arc::new(ad.to_string()))),
            ["member", rest @ ..] => {
                let after = if kv(rest, "after") == "-" { None } else { Some(nats(kv(rest, "after"))) };
                let addrs = if kv(rest, "addrs") == "-" {
                    None
                } else {
                    let mut m = HashMap::new();
                    for e in kv(rest, "addrs").split(';') {
                        let p: Vec<&str> = e.splitn(2, '@').collect();
                        if p.len() == 2 {
                            if let Ok(i) = p[0].parse::<u64>() {
                                m.insert(i, Arc::new(p[1].to_string()));
                            }
                        }
                    }
                    Some(m)
                };
                Some(RaftIndexRequest::SaveMember { member: nats(kv(rest, "m")), member_after_consensus: after, node_addr: addrs })
            }
            ["logs", l] => {
                let mut v = vec![];
                if *l != "-" {
                    for e in l.split(';') {
                        let p: Vec<u64> = e.split(':').map(|x| x.parse().unwrap_or(0)).collect();
                        if p.len() == 7 {
                            v.push(LogRange { id: p[0], pre_term: p[1], start_index: p[2], record_count: p[3], split_off_index: p[4], is_close: p[5] != 0, mark_remove: p[6] != 0 });
                        }
                    }
                }
                Some(RaftIndexRequest::SaveLogs(v))
            }
            ["snaps", l] => {
                let mut v = vec![];
                if *l != "-" {
                    for e in l.split(';') {
                        let p: Vec<u64> = e.split(':').map(|x| x.parse().unwrap_or(0)).collect();
                        if p.len() == 2 {
                            v.push(SnapshotRange { id: p[0], end_index: p[1] });
                        }
                    }
                }
                Some(RaftIndexRequest::SaveSnapshots(v))
            }
            ["info"] => None,
            _ => return "bad-op".to_string(),
        };
        sys.block_on(async move {
            match req {
                Some(r) => match a.send(r).await {
                    Ok(Ok(_)) => "ok".to_string(),
                    _ => "dead".to_string(),
                },
                None => match a.send(RaftIndexRequest::LoadIndexInfo).await {
                    Ok(Ok(RaftIndexResponse::RaftIndexInfo { raft_index, last_applied_log })) => {
                        let mut addrs: Vec<String> = raft_index.node_addrs.iter().map(|(k, v)| format!("{}@{}", k, v)).collect();
                        addrs.sort();
                        let logs: Vec<String> = raft_index.logs.iter().map(|l| format!("{}:{}:{}:{}:{}:{}:{}", l.id, l.pre_term, l.start_index, l.record_count, l.split_off_index, l.is_close as u8, l.mark_remove as u8)).collect();
                        let snaps: Vec<String> = raft_index.snapshots.iter().map(|s| format!("{}:{}", s.id, s.end_index)).collect();
                        let j = |v: &Vec<String>| if v.is_empty() { "-".to_string() } else { v.join(";") };
                        format!(
                            "term={} vote={} member={} after={} addrs={} logs={} snaps={} applied={}",
                            raft_index.current_term, raft_index.voted_for, join(&raft_index.member), join(&raft_index.member_after_consensus),
                            j(&addrs), j(&logs), j(&snaps), last_applied_log
                        )
                    }
                    _ => "dead".to_string(),
                },
            }
        })
    });
}
