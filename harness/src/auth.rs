//! models `openapi` (C16: real ApiCheckAuth middleware around the real app_config; real
//! InvokerHandler::handle) and `console` (C17: real UserRole::match_url_by_roles, real CheckLogin
//! middleware around console_config).  One full node is built in-process per harness run.
use actix_web::body::MessageBody;
use actix_web::web::Data;
use actix_web::{test, App};
use rnacos::cache::actor_model::{CacheManagerRaftReq, CacheSetParam};
use rnacos::cache::model::{CacheKey, CacheType, CacheValue};
use rnacos::common::appdata::AppShareData;
use rnacos::common::model::{TokenSession, UserSession};
use rnacos::common::AppSysConfig;
use rnacos::console::middle::login_middle::CheckLogin;
use rnacos::grpc::handler::InvokerHandler;
use rnacos::grpc::{PayloadHandler, PayloadUtils, RequestMeta};
use rnacos::openapi::middle::auth_middle::ApiCheckAuth;
use rnacos::starter::{build_share_data, config_factory};
use rnacos::user::permission::UserRole;
use rnacos::web_config::{app_config, console_config};
use std::io::BufRead;
use std::ops::Deref;
use std::sync::Arc;

async fn build_node(dir: &std::path::Path) -> Arc<AppShareData> {
    std::env::set_var("RNACOS_DATA_DIR", dir.to_string_lossy().to_string());
    std::env::set_var("RNACOS_ENABLE_OPEN_API_AUTH", "true");
    std::env::set_var("RNACOS_HTTP_CONSOLE_PORT", "0");
    std::env::set_var("RNACOS_ENABLE_METRICS", "false");
    let sys_config = Arc::new(AppSysConfig::init_from_env());
    let factory_data = config_factory(sys_config.clone()).await.expect("config_factory");
    build_share_data(factory_data).expect("build_share_data")
}

async fn put_api_token(app: &Arc<AppShareData>, token: &str, ttl: i32, now: i32) {
    let key = CacheKey { cache_type: CacheType::ApiTokenSession, key: Arc::new(token.to_string()) };
    let session = Arc::new(TokenSession { username: Arc::new("verif".to_string()), roles: vec![], extend_infos: Default::default() });
    let mut p = CacheSetParam::new(key, CacheValue::ApiTokenSession(session));
    p.ttl = ttl;
    p.now = now;
    let _ = app.direct_cache_manager.send(CacheManagerRaftReq::Set(p)).await;
}

async fn put_user_session(app: &Arc<AppShareData>, token: &str, roles: Vec<&str>) {
    let key = CacheKey { cache_type: CacheType::UserSession, key: Arc::new(token.to_string()) };
    let session = Arc::new(UserSession {
        username: Arc::new("verif".to_string()),
        nickname: None,
        roles: roles.iter().map(|r| Arc::new(r.to_string())).collect(),
        namespace_privilege: None,
        extend_infos: Default::default(),
        refresh_time: 0,
    });
    let mut p = CacheSetParam::new(key, CacheValue::UserSession(session));
    p.ttl = 3600;
    p.now = rnacos::common::datetime_utils::now_second_i32();
    let _ = app.direct_cache_manager.send(CacheManagerRaftReq::Set(p)).await;
}

fn kv<'a>(ws: &'a [&'a str], k: &str) -> &'a str {
    for w in ws {
        if let Some(v) = w.strip_prefix(k) {
            if let Some(v) = v.strip_prefix('=') {
                return v;
            }
        }
    }
    ""
}

fn token_value(t: &str) -> Option<String> {
    match t {
        "none" => None,
        "empty" => Some("".to_string()),
        "garbage" => Some("zzz-not-a-token".to_string()),
        "expired" => Some("tok-expired".to_string()),
        "valid" => Some("tok-valid".to_string()),
        other => Some(other.to_string()),
    }
}

pub fn run(model: &str) {
    let lines: Vec<String> = std::io::stdin().lock().lines().map_while(Result::ok).collect();
    let dir = tempfile::tempdir().unwrap();
    let model = model.to_string();
    let sys = actix_rt::System::new();
    let out: Vec<String> = sys.block_on(async move {
        let mut out = vec![];
        if model == "perm" {
            for l in &lines {
                if l.starts_with('#') {
                    out.push(l.clone());
                    continue;
                }
                let ws: Vec<&str> = l.split_whitespace().collect();
                match ws.as_slice() {
                    ["perm", roles, method, path] => {
                        let rs: Vec<Arc<String>> = roles.strip_prefix("roles=").unwrap_or("").split(',')
                            .filter(|x| !x.is_empty()).map(|x| Arc::new(if x == "EMPTY" { "".to_string() } else { x.to_string() })).collect();
                        let p = if *path == "EMPTY" { "" } else { path };
                        let m = if *method == "EMPTY" { "" } else { method };
                        out.push(format!("{}", UserRole::match_url_by_roles(&rs, p, m)));
                    }
                    _ => out.push("bad-op".to_string()),
                }
            }
            return out;
        }
        let app = build_node(dir.path()).await;
        let now = rnacos::common::datetime_utils::now_second_i32();
        put_api_token(&app, "tok-valid", 3600, now).await;
        put_api_token(&app, "tok-expired", 1, now - 1000).await;
        put_user_session(&app, "sess-0", vec!["0"]).await;
        put_user_session(&app, "sess-1", vec!["1"]).await;
        put_user_session(&app, "sess-2", vec!["2"]).await;
        put_user_session(&app, "sess-12", vec!["1", "2"]).await;
        put_user_session(&app, "sess-x", vec!["9"]).await;
        put_user_session(&app, "sess-none", vec![]).await;
        let conf = app.sys_config.deref().clone();
        let api = test::init_service(
            App::new()
                .app_data(Data::new(app.clone()))
                .app_data(Data::new(app.config_addr.clone()))
                .app_data(Data::new(app.naming_addr.clone()))
                .app_data(Data::new(app.bi_stream_manage.clone()))
                .wrap(ApiCheckAuth::new(app.clone()))
                .configure(app_config(conf)),
        )
        .await;
        let console = test::init_service(
            App::new()
                .app_data(Data::new(app.clone()))
                .app_data(Data::new(app.config_addr.clone()))
                .app_data(Data::new(app.naming_addr.clone()))
                .app_data(Data::new(app.bi_stream_manage.clone()))
                .wrap(CheckLogin::new(app.clone()))
                .configure(console_config),
        )
        .await;
        // the gRPC service object with its own handler table, as main.rs builds it
        // (served by tonic on a loopback port: `request` reads the peer address of the connection)
        let grpc_port = std::net::TcpListener::bind("127.0.0.1:0").ok().and_then(|l| l.local_addr().ok()).map(|a| a.port()).unwrap_or(0);
        {
            let mut iv = InvokerHandler::new(app.clone());
            iv.add_config_handler(&app);
            iv.add_naming_handler(&app);
            iv.add_raft_handler(&app);
            let srv = rnacos::grpc::server::RequestServerImpl::new(app.clone(), iv);
            let addr: std::net::SocketAddr = format!("127.0.0.1:{}", grpc_port).parse().unwrap();
            tokio::spawn(async move {
                let _ = tonic::transport::Server::builder()
                    .add_service(rnacos::grpc::nacos_proto::request_server::RequestServer::new(srv))
                    .serve(addr)
                    .await;
            });
        }
        let mut grpc_client: Option<rnacos::grpc::nacos_proto::request_client::RequestClient<tonic::transport::Channel>> = None;
        let mut invoker = InvokerHandler::new(app.clone());
        invoker.add_config_handler(&app);
        invoker.add_naming_handler(&app);
        invoker.add_raft_handler(&app);
        for l in &lines {
            if l.starts_with('#') {
                out.push(l.clone());
                continue;
            }
            let ws: Vec<&str> = l.split_whitespace().collect();
            match ws.first().copied() {
                Some("http") if ws.len() >= 3 => {
                    let method = ws[1];
                    let mut uri = ws[2].to_string();
                    let carrier = kv(&ws, "carrier");
                    let tok = token_value(kv(&ws, "tok"));
                    let mut req = test::TestRequest::default().method(method.parse().unwrap_or(actix_web::http::Method::GET));
                    if let Some(t) = &tok {
                        match carrier {
                            "auth" => req = req.insert_header(("Authorization", t.clone())),
                            "bearer" => req = req.insert_header(("Authorization", format!("Bearer {}", t))),
                            "header" => req = req.insert_header(("accessToken", t.clone())),
                            "query" => {
                                uri.push(if uri.contains('?') { '&' } else { '?' });
                                uri.push_str(&format!("accessToken={}", t));
                            }
                            "body" => {
                                req = req
                                    .insert_header(("Content-Type", "application/x-www-form-urlencoded"))
                                    .set_payload(format!("accessToken={}&dataId=verif&group=g&content=c", t));
                            }
                            _ => {}
                        }
                    }
                    let req = req.uri(&uri).peer_addr("127.0.0.1:50000".parse().unwrap()).to_request();
                    match test::try_call_service(&api, req).await {
                        Ok(resp) => {
                            let status = resp.status().as_u16();
                            let body = resp.into_body().try_into_bytes().map(|b| b.to_vec()).unwrap_or_default();
                            let text = String::from_utf8_lossy(&body);
                            if status == 403 && text.contains("unknown user!") && text.contains("\"timestamp\"") && text.contains("\"error\":\"Forbidden\"") {
                                out.push("forbid".to_string());
                            } else {
                                // the catch-all placeholder page of the SDK port is not a data handler
                                let reached = !(status == 404 && body.is_empty()) && !text.contains("<title>R-NACOS</title>");
                                if std::env::var("VERIF_DEBUG").is_ok() {
                                    eprintln!("DEBUG {} -> {} {}", uri, status, text.chars().take(120).collect::<String>());
                                }
                                out.push(format!("pass reached={}", if reached { 1 } else { 0 }));
                            }
                        }
                        Err(_) => out.push("pass reached=1".to_string()),
                    }
                }
                Some("chttp") if ws.len() >= 3 => {
                    // a served logout removes the session it was called with: keep the fixtures stable
                    put_user_session(&app, "sess-0", vec!["0"]).await;
                    put_user_session(&app, "sess-1", vec!["1"]).await;
                    put_user_session(&app, "sess-2", vec!["2"]).await;
                    put_user_session(&app, "sess-12", vec!["1", "2"]).await;
                    put_user_session(&app, "sess-x", vec!["9"]).await;
                    put_user_session(&app, "sess-none", vec![]).await;
                    let method = ws[1];
                    let uri = ws[2].to_string();
                    let sess = kv(&ws, "session");
                    let mut req = test::TestRequest::default().method(method.parse().unwrap_or(actix_web::http::Method::GET));
                    match sess {
                        "none" | "" => {}
                        "empty" => req = req.insert_header(("Token", "")),
                        s => req = req.insert_header(("Token", s.to_string())),
                    }
                    let req = req.uri(&uri).peer_addr("127.0.0.1:50000".parse().unwrap()).to_request();
                    match test::try_call_service(&console, req).await {
                        Ok(resp) => {
                            let h = resp.headers();
                            if h.contains_key("No-Login") || (resp.status().as_u16() == 302 && h.get("Location").map(|v| v.to_str().unwrap_or("").contains("/p/login")).unwrap_or(false)) {
                                out.push("nologin".to_string());
                            } else if h.contains_key("No-Permission") || (resp.status().as_u16() == 302 && h.get("Location").map(|v| v.to_str().unwrap_or("").contains("nopermission")).unwrap_or(false)) {
                                out.push("nopermission".to_string());
                            } else {
                                let status = resp.status().as_u16();
                                let body = resp.into_body().try_into_bytes().map(|b| b.to_vec()).unwrap_or_default();
                                let reached = !(status == 404 && body.is_empty());
                                out.push(format!("served reached={}", if reached { 1 } else { 0 }));
                            }
                        }
                        Err(_) => out.push("served reached=1".to_string()),
                    }
                }
                Some("grpc") if ws.len() >= 2 => {
                    let ty = ws[1];
                    let has_session = kv(&ws, "session") == "1";
                    let cluster_valid = kv(&ws, "clustervalid") == "1";
                    let payload = PayloadUtils::build_payload(ty, "{}".to_string());
                    let meta = RequestMeta {
                        connection_id: Arc::new("verif-conn".to_string()),
                        token_session: if has_session {
                            Some(Arc::new(TokenSession { username: Arc::new("verif".to_string()), roles: vec![], extend_infos: Default::default() }))
                        } else {
                            None
                        },
                        cluster_token_is_valid: cluster_valid,
                        ..Default::default()
                    };
                    let r = match invoker.handle(payload, meta).await {
                        Ok(res) => {
                            let ptype = res.payload.metadata.as_ref().map(|m| m.r#type.clone()).unwrap_or_default();
                            let body = res.payload.body.as_ref().map(|b| String::from_utf8_lossy(&b.value).to_string()).unwrap_or_default();
                            if ptype == "ServerCheckResponse" {
                                "servercheck".to_string()
                            } else if ptype == "ErrorResponse" && body.contains("unknown user!") {
                                "403".to_string()
                            } else if ptype == "ErrorResponse" && body.contains("request cluster token is invalid") {
                                "500".to_string()
                            } else {
                                "dispatched".to_string()
                            }
                        }
                        Err(_) => "dispatched".to_string(),
                    };
                    out.push(r);
                }
                // the same through the real gRPC service object (`RequestServerImpl::request`): fill_token_session reads
                // the headers of the payload (user token, cluster token) before InvokerHandler::handle decides
                //   grpcsrv <type> token=<none|empty|valid|garbage> ctoken=<none|empty|prefix|exact|longer|garbage>
                Some("grpcsrv") if ws.len() >= 2 => {
                    if grpc_client.is_none() {
                        for _ in 0..50 {
                            match rnacos::grpc::nacos_proto::request_client::RequestClient::connect(format!("http://127.0.0.1:{}", grpc_port)).await {
                                Ok(c) => {
                                    grpc_client = Some(c);
                                    break;
                                }
                                Err(_) => tokio::time::sleep(std::time::Duration::from_millis(100)).await,
                            }
                        }
                    }
                    let mut payload = PayloadUtils::build_payload(ws[1], "{}".to_string());
                    let cfg = app.sys_config.cluster_token.as_ref().clone();
                    if let Some(meta) = payload.metadata.as_mut() {
                        match kv(&ws, "token") {
                            "empty" => {
                                meta.headers.insert("accessToken".to_string(), String::new());
                            }
                            "valid" => {
                                meta.headers.insert("accessToken".to_string(), "tok-valid".to_string());
                            }
                            "garbage" => {
                                meta.headers.insert("accessToken".to_string(), "zzz-garbage".to_string());
                            }
                            _ => {}
                        }
                        let ct = match kv(&ws, "ctoken") {
                            "empty" => Some(String::new()),
                            "prefix" => Some(cfg.chars().take(cfg.chars().count() / 2).collect::<String>()),
                            "exact" => Some(cfg.clone()),
                            "longer" => Some(format!("{}x", cfg)),
                            "garbage" => Some("q".repeat(cfg.len().max(1))),
                            _ => None,
                        };
                        if let Some(ct) = ct {
                            meta.headers.insert("ClusterToken".to_string(), ct);
                        }
                    }
                    let client = match grpc_client.as_mut() {
                        Some(c) => c,
                        None => {
                            out.push("err no-grpc-client".to_string());
                            continue;
                        }
                    };
                    let r = match client.request(tonic::Request::new(payload)).await {
                        Ok(res) => {
                            let p = res.into_inner();
                            let ptype = p.metadata.as_ref().map(|m| m.r#type.clone()).unwrap_or_default();
                            let body = p.body.as_ref().map(|b| String::from_utf8_lossy(&b.value).to_string()).unwrap_or_default();
                            if ptype == "ServerCheckResponse" {
                                "servercheck".to_string()
                            } else if ptype == "ErrorResponse" && body.contains("unknown user!") {
                                "403".to_string()
                            } else if ptype == "ErrorResponse" && body.contains("request cluster token is invalid") {
                                "500".to_string()
                            } else if ptype == "ErrorResponse" && body.contains("\"errorCode\":301") {
                                // the connection has no registered bi-stream: refused before anything else is looked at
                                "301".to_string()
                            } else {
                                if std::env::var("VERIF_DEBUG").is_ok() {
                                    eprintln!("DEBUG grpcsrv {} -> {} {}", ws[1], ptype, body.chars().take(200).collect::<String>());
                                }
                                "dispatched".to_string()
                            }
                        }
                        Err(_) => "dispatched".to_string(),
                    };
                    out.push(r);
                }
                _ => out.push("bad-op".to_string()),
            }
        }
        out
    });
    for o in out {
        println!("{}", o);
    }
    use std::io::Write;
    let _ = std::io::stdout().flush();
    std::process::exit(0);
}
