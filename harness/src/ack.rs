//! model `ack` (C06, in-process part): a complete standalone node; configuration writes through the real
//! ConfigRoute (what every HTTP / gRPC publish handler calls) and reads through the config actor.
//!   pub <key> <content>  -> ok | err        del <key> -> ok | err        get <key> -> val <content> | none
//!   closewrite           -> ok   (FileStore::set_close_write: the state machine rejects applies, as during an import)
use crate::util::*;
use rnacos::config::core::{ConfigCmd, ConfigKey, ConfigResult};
use rnacos::raft::cluster::model::{DelConfigReq, SetConfigReq};
use std::io::BufRead;
use std::sync::Arc;

pub fn run() {
    let lines: Vec<String> = std::io::stdin().lock().lines().map_while(Result::ok).collect();
    let sys = actix_rt::System::new();
    let mut out: Vec<String> = vec![];
    // a fresh node per case (`#` lines): each in its own temp directory
    let mut i = 0;
    while i < lines.len() {
        let mut j = i + 1;
        while j < lines.len() && !lines[j].starts_with('#') {
            j += 1;
        }
        let chunk: Vec<String> = lines[i..j].to_vec();
        i = j;
        let res: Vec<String> = sys.block_on(async move {
            let mut res = vec![];
            let dir = tempfile::tempdir().unwrap();
            let mut app = None;
            for l in chunk {
                if l.starts_with('#') {
                    res.push(l.clone());
                    continue;
                }
                if app.is_none() {
                    let a = crate::privs::build_node(dir.path()).await;
                    let _ = crate::privs::wait_leader(&a).await;
                    app = Some(a);
                }
                let a = app.as_ref().unwrap();
                let ws: Vec<&str> = l.split_whitespace().collect();
                let r = match ws.as_slice() {
                    ["pub", k, c] => {
                        let req = SetConfigReq::new(ConfigKey::new(k, "DEFAULT_GROUP", ""), Arc::new(c.to_string()));
                        match tokio::time::timeout(std::time::Duration::from_secs(8), a.config_route.set_config(req)).await {
                            Ok(Ok(_)) => "ok".to_string(),
                            Ok(Err(_)) => "err".to_string(),
                            Err(_) => "timeout".to_string(),
                        }
                    }
                    ["del", k] => {
                        let req = DelConfigReq::new(ConfigKey::new(k, "DEFAULT_GROUP", ""));
                        match tokio::time::timeout(std::time::Duration::from_secs(8), a.config_route.del_config(req)).await {
                            Ok(Ok(_)) => "ok".to_string(),
                            Ok(Err(_)) => "err".to_string(),
                            Err(_) => "timeout".to_string(),
                        }
                    }
                    // the leader's side of a publish / removal that a follower forwarded (raft::cluster::handle_route)
                    ["rpub", k, c] => {
                        let req = rnacos::raft::cluster::model::RouterRequest::ConfigSet {
                            key: format!("{}\u{2}DEFAULT_GROUP\u{2}", k),
                            value: Arc::new(c.to_string()),
                            op_user: None,
                            config_type: None,
                            desc: None,
                            extend_info: Default::default(),
                        };
                        match tokio::time::timeout(std::time::Duration::from_secs(8), rnacos::raft::cluster::handle_route(a, req)).await {
                            Ok(Ok(_)) => "ok".to_string(),
                            Ok(Err(_)) => "err".to_string(),
                            Err(_) => "timeout".to_string(),
                        }
                    }
                    ["rdel", k] => {
                        let req = rnacos::raft::cluster::model::RouterRequest::ConfigDel {
                            key: format!("{}\u{2}DEFAULT_GROUP\u{2}", k),
                            extend_info: Default::default(),
                        };
                        match tokio::time::timeout(std::time::Duration::from_secs(8), rnacos::raft::cluster::handle_route(a, req)).await {
                            Ok(Ok(_)) => "ok".to_string(),
                            Ok(Err(_)) => "err".to_string(),
                            Err(_) => "timeout".to_string(),
                        }
                    }
                    ["get", k] => match a.config_addr.send(ConfigCmd::GET(ConfigKey::new(k, "DEFAULT_GROUP", ""))).await {
                        Ok(Ok(ConfigResult::Data { value, .. })) => format!("val {}", value),
                        _ => "none".to_string(),
                    },
                    ["closewrite"] => {
                        a.raft_store.set_close_write();
                        "ok".to_string()
                    }
                    _ => "bad-op".to_string(),
                };
                res.push(r);
            }
            res
        });
        out.extend(res);
    }
    for o in out {
        println!("{}", o);
    }
    use std::io::Write;
    let _ = std::io::stdout().flush();
    std::process::exit(0);
}
