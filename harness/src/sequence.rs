//! model `sequence` (C19): real SequenceDbManager actor, SeqGroup, SimpleSequence.
use crate::util::*;
use actix::prelude::*;
use rnacos::common::sequence_utils::SimpleSequence;
use rnacos::sequence::core::SequenceDbManager;
use rnacos::sequence::model::{SeqGroup, SequenceRaftReq, SequenceRaftResult};
use rnacos::config::core::ConfigActor;
use rnacos::config::model::ConfigRaftCmd;
use rnacos::verif_hooks::VerifConfigSeq;
use std::collections::HashMap;
use std::sync::Arc;

fn mk_add(e: &(String, String, u64, Option<u64>)) -> ConfigRaftCmd {
    ConfigRaftCmd::ConfigAdd {
        key: e.0.clone(),
        value: Arc::new(e.1.clone()),
        config_type: None,
        desc: None,
        history_id: e.2,
        history_table_id: e.3,
        op_time: 1,
        op_user: None,
    }
}

pub fn run() {
    let sys = actix_rt::System::new();
    let mut db: Addr<SequenceDbManager> = sys.block_on(async { SequenceDbManager::new().start() });
    let mut g = SeqGroup::new(100);
    let mut c: Vec<SimpleSequence> = vec![];
    // per node: (value stored in its last snapshot, number of committed requests at that time); marks of all requests
    let mut csaved: HashMap<usize, (u64, usize)> = HashMap::new();
    let mut cmarks: Vec<Option<u64>> = vec![];
    let mut rsaved: HashMap<usize, (u64, usize)> = HashMap::new();
    // real ConfigActors as cluster nodes + the committed log of ConfigAdd commands + current content per key
    let mut r: Vec<Addr<ConfigActor>> = vec![];
    let mut rlog: Vec<(String, String, u64, Option<u64>)> = vec![];
    let mut rcontent: HashMap<String, u64> = HashMap::new();
    for_each_line(|l| {
        if l.starts_with('#') {
            db = sys.block_on(async { SequenceDbManager::new().start() });
            g = SeqGroup::new(100);
            c = vec![];
            r = vec![];
            rlog = vec![];
            rcontent = HashMap::new();
            return l.to_string();
        }
        let ws: Vec<&str> = l.split_whitespace().collect();
        let send = |req: SequenceRaftReq| -> String {
            let db = db.clone();
            match sys.block_on(async move { db.send(req).await }) {
                Ok(Ok(SequenceRaftResult::NextId(v))) => format!("id {}", v),
                Ok(Ok(SequenceRaftResult::NextRange { start, len })) => format!("range {} {}", start, len),
                Ok(Ok(SequenceRaftResult::None)) => "ok".to_string(),
                _ => "err".to_string(),
            }
        };
        match ws.as_slice() {
            ["db", "nextid", k] => send(SequenceRaftReq::NextId(Arc::new(k.to_string()))),
            ["db", "nextrange", k, st] => match st.parse::<u64>() {
                Ok(s) => send(SequenceRaftReq::NextRange(Arc::new(k.to_string()), s)),
                Err(_) => "bad-op".to_string(),
            },
            ["db", "setid", k, v] => match v.parse::<u64>() {
                Ok(v) => send(SequenceRaftReq::SetId(Arc::new(k.to_string()), v)),
                Err(_) => "bad-op".to_string(),
            },
            ["db", "removeid", k] => send(SequenceRaftReq::RemoveId(Arc::new(k.to_string()))),
            ["g", "new"] => {
                g = SeqGroup::new(100);
                "ok".to_string()
            }
            ["g", "next"] => match g.next_id() {
                Some(v) => format!("some {}", v),
                None => "none".to_string(),
            },
            ["g", "apply", a, b] => match (a.parse::<u64>(), b.parse::<u64>()) {
                (Ok(a), Ok(b)) => {
                    g.apply_range(a, b);
                    "ok".to_string()
                }
                _ => "bad-op".to_string(),
            },
            ["g", "need"] => format!("{}", g.need_apply()),
            ["c", "new", n, st, b] => match (n.parse::<usize>(), st.parse::<u64>(), b.parse::<u64>()) {
                (Ok(n), Ok(st), Ok(b)) => {
                    c = (0..n).map(|_| SimpleSequence::new(st, b)).collect();
                    csaved.clear();
                    cmarks.clear();
                    "ok".to_string()
                }
                _ => "bad-op".to_string(),
            },
            ["c", "issue", i] => match i.parse::<usize>() {
                Ok(i) if i < c.len() => {
                    // what ConfigActor does: the leader draws (id, mark); the committed request carries the
                    // mark and every node applies it with set_valid_last_id
                    match c[i].next_state() {
                        Ok((id, mark)) => {
                            cmarks.push(mark);
                            if let Some(m) = mark {
                                for s in c.iter_mut() {
                                    s.set_valid_last_id(m);
                                }
                            }
                            format!("id {} mark {}", id, mark.map(|m| m.to_string()).unwrap_or("-".to_string()))
                        }
                        Err(_) => "err".to_string(),
                    }
                }
                _ => "bad-op".to_string(),
            },
            ["c", "restart", i] => match i.parse::<usize>() {
                Ok(i) if i < c.len() => {
                    // snapshot stores get_end_id(); load calls set_last_id
                    let e = c[i].get_end_id();
                    c[i].set_last_id(e);
                    "ok".to_string()
                }
                _ => "bad-op".to_string(),
            },
            // the node compacts: the value its snapshot stores (get_end_id) and the log position
            ["c", "snap", i] => match i.parse::<usize>() {
                Ok(i) if i < c.len() => {
                    csaved.insert(i, (c[i].get_end_id(), cmarks.len()));
                    "ok".to_string()
                }
                _ => "bad-op".to_string(),
            },
            // restart from that snapshot: set_last_id(stored value), then the marks of the requests committed since
            ["c", "restartsaved", i] => match i.parse::<usize>() {
                Ok(i) if i < c.len() => match csaved.get(&i) {
                    Some((v, pos)) => {
                        c[i].set_last_id(*v);
                        for m in &cmarks[*pos..] {
                            if let Some(m) = m {
                                c[i].set_valid_last_id(*m);
                            }
                        }
                        "ok".to_string()
                    }
                    None => "nosnapshot".to_string(),
                },
                _ => "bad-op".to_string(),
            },
            ["r", "snap", i] => match i.parse::<usize>() {
                Ok(i) if i < r.len() => {
                    let node = r[i].clone();
                    let e = sys.block_on(async move { node.send(VerifConfigSeq { draw: false }).await.map(|x| x.0).unwrap_or(0) });
                    rsaved.insert(i, (e, rlog.len()));
                    "ok".to_string()
                }
                _ => "bad-op".to_string(),
            },
            // a fresh actor loads the snapshot's sequence record (InnerSetLastId) and replays the committed log since
            ["r", "restartsaved", i] => match i.parse::<usize>() {
                Ok(i) if i < r.len() => match rsaved.get(&i).cloned() {
                    Some((v, pos)) => {
                        let log: Vec<_> = rlog[pos..].to_vec();
                        let fresh = sys.block_on(async move {
                            let fresh = ConfigActor::new().start();
                            let _ = fresh.send(rnacos::config::core::ConfigCmd::InnerSetLastId(v)).await;
                            for e in log {
                                let _ = fresh.send(mk_add(&e)).await;
                            }
                            fresh
                        });
                        r[i] = fresh;
                        "ok".to_string()
                    }
                    None => "nosnapshot".to_string(),
                },
                _ => "bad-op".to_string(),
            },
            ["r", "new", n] => match n.parse::<usize>() {
                Ok(n) => {
                    rsaved.clear();
                    r = sys.block_on(async { (0..n).map(|_| ConfigActor::new().start()).collect() });
                    rlog = vec![];
                    rcontent = HashMap::new();
                    "ok".to_string()
                }
                _ => "bad-op".to_string(),
            },
            // the leader draws (id, mark) exactly as ConfigAsyncCmd::Add does; the committed ConfigAdd is applied by
            // every node's real set_config; `same` re-publishes the key's current content, `new` changes it
            ["r", "issue", i, key, how] => match i.parse::<usize>() {
                Ok(i) if i < r.len() => {
                    let leader = r[i].clone();
                    let (id, mark) = match sys.block_on(async move { leader.send(VerifConfigSeq { draw: true }).await }) {
                        Ok(v) => v,
                        Err(_) => return "err".to_string(),
                    };
                    let ver = rcontent.entry(key.to_string()).or_insert(0);
                    if *how != "same" || *ver == 0 {
                        *ver += 1;
                    }
                    let entry = (format!("{}\u{2}g\u{2}t", key), format!("v{}", ver), id, mark);
                    rlog.push(entry.clone());
                    let nodes = r.clone();
                    let ok = sys.block_on(async move {
                        let mut ok = true;
                        for a in nodes {
                            ok &= matches!(a.send(mk_add(&entry)).await, Ok(Ok(_)));
                        }
                        ok
                    });
                    if !ok {
                        return "err".to_string();
                    }
                    format!("id {} mark {}", id, mark.map(|m| m.to_string()).unwrap_or("-".to_string()))
                }
                _ => "bad-op".to_string(),
            },
            // restart: a fresh actor that replays the whole committed log (no snapshot), or loads the snapshot's
            // sequence record (InnerSetLastId with the old node's get_end_id) and nothing else
            ["r", "restart", i, how] => match i.parse::<usize>() {
                Ok(i) if i < r.len() => {
                    let old = r[i].clone();
                    let log = rlog.clone();
                    let snap = *how == "snap";
                    let fresh = sys.block_on(async move {
                        let fresh = ConfigActor::new().start();
                        if snap {
                            let (e, _) = old.send(VerifConfigSeq { draw: false }).await.unwrap_or((0, None));
                            let _ = fresh.send(rnacos::config::core::ConfigCmd::InnerSetLastId(e)).await;
                        } else {
                            for e in log {
                                let _ = fresh.send(mk_add(&e)).await;
                            }
                        }
                        fresh
                    });
                    r[i] = fresh;
                    "ok".to_string()
                }
                _ => "bad-op".to_string(),
            },
            ["r", "ends"] => {
                let nodes = r.clone();
                let ends: Vec<String> = sys.block_on(async move {
                    let mut v = vec![];
                    for a in nodes {
                        v.push(a.send(VerifConfigSeq { draw: false }).await.map(|x| x.0).unwrap_or(0).to_string());
                    }
                    v
                });
                format!("ends {}", ends.join(","))
            }
            ["c", "ends"] => format!(
                "ends {}",
                c.iter().map(|s| s.get_end_id().to_string()).collect::<Vec<_>>().join(",")
            ),
            _ => "bad-op".to_string(),
        }
    });
}
