//! model `sequence` (C19): real SequenceDbManager actor, SeqGroup, SimpleSequence.
use crate::util::*;
use actix::prelude::*;
use rnacos::common::sequence_utils::SimpleSequence;
use rnacos::sequence::core::SequenceDbManager;
use rnacos::sequence::model::{SeqGroup, SequenceRaftReq, SequenceRaftResult};
use std::sync::Arc;

pub fn run() {
    let sys = actix_rt::System::new();
    let mut db: Addr<SequenceDbManager> = sys.block_on(async { SequenceDbManager::new().start() });
    let mut g = SeqGroup::new(100);
    let mut c: Vec<SimpleSequence> = vec![];
    for_each_line(|l| {
        if l.starts_with('#') {
            db = sys.block_on(async { SequenceDbManager::new().start() });
            g = SeqGroup::new(100);
            c = vec![];
            return l.to_string();
        }
        let ws: Vec<&str> = l.split_whitespace().collect();
        let send = |req: SequenceRaftReq| -> String {
            let db = db.clone();
            match sys.block_on(async move { db.send(req).await }) {
                Ok(Ok(SequenceRaftResult::NextId(v))) => format!("id {}", v),
                Ok(Ok(SequenceRaftResult::NextRange { start, len })) => format!("range {} {}", start, len),
                Ok(Ok(SequenceRaftResult::None)) => "ok".to_string(),
                _ => "err".to_string(),
            }
        };
        match ws.as_slice() {
            ["db", "nextid", k] => send(SequenceRaftReq::NextId(Arc::new(k.to_string()))),
            ["db", "nextrange", k, st] => match st.parse::<u64>() {
                Ok(s) => send(SequenceRaftReq::NextRange(Arc::new(k.to_string()), s)),
                Err(_) => "bad-op".to_string(),
            },
            ["db", "setid", k, v] => match v.parse::<u64>() {
                Ok(v) => send(SequenceRaftReq::SetId(Arc::new(k.to_string()), v)),
                Err(_) => "bad-op".to_string(),
            },
            ["db", "removeid", k] => send(SequenceRaftReq::RemoveId(Arc::new(k.to_string()))),
            ["g", "new"] => {
                g = SeqGroup::new(100);
                "ok".to_string()
            }
            ["g", "next"] => match g.next_id() {
                Some(v) => format!("some {}", v),
                None => "none".to_string(),
            },
            ["g", "apply", a, b] => match (a.parse::<u64>(), b.parse::<u64>()) {
                (Ok(a), Ok(b)) => {
                    g.apply_range(a, b);
                    "ok".to_string()
                }
                _ => "bad-op".to_string(),
            },
            ["g", "need"] => format!("{}", g.need_apply()),
            ["c", "new", n, st, b] => match (n.parse::<usize>(), st.parse::<u64>(), b.parse::<u64>()) {
                (Ok(n), Ok(st), Ok(b)) => {
                    c = (0..n).map(|_| SimpleSequence::new(st, b)).collect();
                    "ok".to_string()
                }
                _ => "bad-op".to_string(),
            },
            ["c", "issue", i] => match i.parse::<usize>() {
                Ok(i) if i < c.len() => {
                    // what ConfigActor does: the leader draws (id, mark); the committed request carries the
                    // mark and every node applies it with set_valid_last_id
                    match c[i].next_state() {
                        Ok((id, mark)) => {
                            if let Some(m) = mark {
                                for s in c.iter_mut() {
                                    s.set_valid_last_id(m);
                                }
                            }
                            format!("id {} mark {}", id, mark.map(|m| m.to_string()).unwrap_or("-".to_string()))
                        }
                        Err(_) => "err".to_string(),
                    }
                }
                _ => "bad-op".to_string(),
            },
            ["c", "restart", i] => match i.parse::<usize>() {
                Ok(i) if i < c.len() => {
                    // snapshot stores get_end_id(); load calls set_last_id
                    let e = c[i].get_end_id();
                    c[i].set_last_id(e);
                    "ok".to_string()
                }
                _ => "bad-op".to_string(),
            },
            ["c", "ends"] => format!(
                "ends {}",
                c.iter().map(|s| s.get_end_id().to_string()).collect::<Vec<_>>().join(",")
            ),
            _ => "bad-op".to_string(),
        }
    });
}
