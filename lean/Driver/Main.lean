import RNacos.Driver.Codec
import RNacos.Driver.Distro
import RNacos.Driver.Sequence
import RNacos.Driver.AuthDrv
import RNacos.Driver.ConfigDrv
import RNacos.Driver.NamingDrv
import RNacos.Driver.IndexDrv
import RNacos.Driver.LogDrv
import RNacos.Driver.StoreDrv
import RNacos.Driver.ApplyDrv
import RNacos.Driver.PrivDrv
import RNacos.Driver.CrashDrv
import RNacos.Driver.AckDrv
import RNacos.Driver.ClusterDrv
open RNacos.Driver

/-- Generic loop: `# …` lines are echoed and reset the state. -/
partial def loop {σ : Type} (h : IO.FS.Stream) (out : IO.FS.Stream) (init : σ)
    (step : σ → List String → σ × String) (s : σ) : IO Unit := do
  let line ← h.getLine
  if line.isEmpty then return ()
  let l := line.trimAscii.toString
  if l.startsWith "#" then
    out.putStrLn l
    loop h out init step init
  else
    let (s', o) := step s (words l)
    if o ≠ "" then out.putStrLn o
    loop h out init step s'

def main (args : List String) : IO UInt32 := do
  let stdin ← IO.getStdin
  let stdout ← IO.getStdout
  match args with
  | ["codec"] => loop stdin stdout RNacos.BufReader.new Codec.step RNacos.BufReader.new; return 0
  | ["codec", "--spec"] => loop stdin stdout () (fun _ ws => ((), Codec.spec ws)) (); return 0
  | ["distro"] => loop stdin stdout () Distro.step (); return 0
  | ["distro", "--spec"] => loop stdin stdout ({} : Distro.SpecSt) Distro.specStep {}; return 0
  | ["sequence"] => loop stdin stdout ({} : Sequence.St) Sequence.step {}; return 0
  | ["sequence", "--spec"] => loop stdin stdout ({} : Sequence.SpecSt) Sequence.specStep {}; return 0
  | ["openapi"] => loop stdin stdout () AuthDrv.step (); return 0
  | ["openapi", "--spec"] => loop stdin stdout ({} : AuthDrv.SpecSt) (AuthDrv.specStep AuthDrv.specOpenapi) {}; return 0
  | ["console"] => loop stdin stdout () AuthDrv.step (); return 0
  | ["console", "--spec"] => loop stdin stdout ({} : AuthDrv.SpecSt) (AuthDrv.specStep AuthDrv.specConsole) {}; return 0
  | ["perm"] => loop stdin stdout () AuthDrv.step (); return 0
  | ["perm", "--spec"] => loop stdin stdout ({} : AuthDrv.SpecSt) (AuthDrv.specStep AuthDrv.specPerm) {}; return 0
  | ["config"] => loop stdin stdout ({} : ConfigDrv.St) ConfigDrv.step {}; return 0
  | ["config", "--spec"] => loop stdin stdout ({} : ConfigDrv.SpecSt) ConfigDrv.specStep {}; return 0
  | ["naming"] => loop stdin stdout ({} : RNacos.Naming.Naming) NamingDrv.step {}; return 0
  | ["naming", "--spec"] => loop stdin stdout ({} : NamingDrv.SpecSt) NamingDrv.specStep {}; return 0
  | ["cluster"] => loop stdin stdout () ClusterDrv.step (); return 0
  | ["cluster", "--spec"] => loop stdin stdout ({} : ClusterDrv.SpecSt) ClusterDrv.specStep {}; return 0
  | ["ack"] => loop stdin stdout ({} : AckDrv.St) AckDrv.step {}; return 0
  | ["ack", "--spec"] => loop stdin stdout ({} : AckDrv.SpecSt) AckDrv.specStep {}; return 0
  | ["crash"] => loop stdin stdout () CrashDrv.step (); return 0
  | ["crash", "--spec"] => loop stdin stdout ({} : CrashDrv.SpecSt) CrashDrv.specStep {}; return 0
  | ["priv"] => loop stdin stdout () PrivDrv.step (); return 0
  | ["priv", "--spec"] => loop stdin stdout ({} : PrivDrv.SpecSt) PrivDrv.specStep {}; return 0
  | ["apply"] => loop stdin stdout ({} : ApplyDrv.MSt) ApplyDrv.step {}; return 0
  | ["apply", "--spec"] => loop stdin stdout ({} : ApplyDrv.SpecSt) ApplyDrv.specStep {}; return 0
  | ["logstore"] => loop stdin stdout ({} : RNacos.LogStore.Store) StoreDrv.step {}; return 0
  | ["logstore", "--spec"] => loop stdin stdout ({} : StoreDrv.SpecSt) StoreDrv.specStep {}; return 0
  | ["logfile"] => loop stdin stdout ({} : LogDrv.St) LogDrv.step {}; return 0
  | ["logfile", "--spec"] => loop stdin stdout ({} : LogDrv.SpecSt) LogDrv.specStep {}; return 0
  | ["indexfile"] => loop stdin stdout ({} : IndexDrv.St) IndexDrv.step {}; return 0
  | ["indexfile", "--spec"] => loop stdin stdout ({} : IndexDrv.SpecSt) IndexDrv.specStep {}; return 0
  | _ => IO.eprintln "usage: driver <model> [--spec]"; return 2
