import RNacos.Base.AssocList
/-
Model of the service registry (src/naming/core.rs, service.rs, model.rs, filter.rs): instances,
incrementally maintained counters, reverse maps, the two time-out sets and the query filter.
Not modelled: listener/subscriber notification, cluster/raft notification, instance metadata (metadata
overrides do not influence any of the modelled fields), cluster names (ignored by the code as well).
Wall-clock values are explicit `now` arguments (milliseconds).
-/
namespace RNacos.Naming
open RNacos

structure SKey where
  ns : String
  group : String
  service : String
  deriving DecidableEq, Repr, Inhabited

structure ShortKey where
  ip : String
  port : Nat
  deriving DecidableEq, Repr, Inhabited

structure IKey where
  skey : SKey
  short : ShortKey
  deriving DecidableEq, Repr

structure Inst where
  ip : String
  port : Nat
  weight : Nat              -- thousandths
  enabled : Bool
  healthy : Bool
  ephemeral : Bool
  fromGrpc : Bool
  fromCluster : Nat
  clientId : String
  lastModified : Int := 0
  deriving DecidableEq, Repr

def Inst.short (i : Inst) : ShortKey := ⟨i.ip, i.port⟩

/-- `Instance::is_enable_timeout` -/
def Inst.enableTimeout (i : Inst) : Bool := i.ephemeral && !i.fromGrpc && !(i.fromCluster > 0)

structure Tag where
  weight : Bool := true
  metadata : Bool := true
  enabled : Bool := true
  ephemeral : Bool := true
  fromUpdate : Bool := false
  deriving DecidableEq, Repr

def Tag.isNone (t : Tag) : Bool := !t.weight && !t.metadata && !t.enabled && !t.ephemeral

structure Svc where
  insts : List (ShortKey × Inst) := []
  instSize : Int := 0
  healthySize : Int := 0
  perpetual : List ShortKey := []
  healthyTO : List (Int × ShortKey) := []     -- insertion order; `timeout` sorts by time (stable)
  unhealthyTO : List (Int × ShortKey) := []
  lastEmpty : Int := 0
  protect : Nat := 0          -- protect threshold, thousandths
  deriving Repr

structure Cfg where
  healthTimeout : Int := 18000
  instTimeout : Int := 33000
  serviceTimeout : Int := 30000
  deriving Repr

structure Naming where
  services : List (SKey × Svc) := []
  clientSets : List (String × List IKey) := []
  nsIndex : List SKey := []
  emptySet : List (Int × SKey) := []
  range : Option (Nat × Nat) := none
  cfg : Cfg := {}
  deriving Repr

def insertByTime {α : Type} (x : Int × α) : List (Int × α) → List (Int × α)
  | [] => [x]
  | y :: ys => if x.1 ≤ y.1 then x :: y :: ys else y :: insertByTime x ys

/-- stable sort by time (the `BTreeMap<u64, LinkedList<T>>` iteration order) -/
def sortByTime {α : Type} (l : List (Int × α)) : List (Int × α) := l.foldr insertByTime []

/-- `TimeoutSet::timeout(now)`: entries with `t ≤ now`, by ascending time (stable), and the rest -/
def toSplit {α : Type} (l : List (Int × α)) (now : Int) : List α × List (Int × α) :=
  ((sortByTime (l.filter (·.1 ≤ now))).map (·.2), l.filter fun e => !(e.1 ≤ now))

def setInsert {α : Type} [DecidableEq α] (l : List α) (a : α) : List α := if a ∈ l then l else l ++ [a]

/-! ### Service -/

inductive UpdType where
  | none | new | updateValue | updateTime
  deriving DecidableEq, Repr

/-- an HTTP (non-gRPC) ephemeral update over a gRPC instance keeps the gRPC ownership -/
def keepOwner (inst old : Inst) : Inst :=
  if inst.ephemeral && !inst.fromGrpc && old.fromGrpc then
    { inst with fromGrpc := old.fromGrpc, clientId := old.clientId, fromCluster := old.fromCluster }
  else inst

/-- which of enabled / ephemeral / weight the update may change -/
def applyTag (i1 old : Inst) : Option Tag → Inst × UpdType
  | none => (i1, UpdType.updateValue)
  | some t =>
    if !t.isNone then
      ({ i1 with enabled := if !t.enabled then old.enabled else i1.enabled,
                 ephemeral := if !t.ephemeral then old.ephemeral else i1.ephemeral,
                 weight := if !t.weight then old.weight else i1.weight }, UpdType.updateValue)
    else
      ({ i1 with enabled := old.enabled, ephemeral := old.ephemeral, weight := old.weight }, UpdType.updateTime)

/-- bookkeeping when the stored instance `old` is replaced by `i2` -/
def Svc.replaceInst (s : Svc) (old i2 : Inst) (fromSync : Bool) : Svc :=
  { s with insts := AL.set s.insts i2.short i2,
           healthySize := (if !old.healthy && i2.healthy then s.healthySize + 1
                           else if old.healthy && !i2.healthy then s.healthySize - 1 else s.healthySize),
           healthyTO := (if i2.enableTimeout && !fromSync then s.healthyTO ++ [(i2.lastModified, i2.short)] else s.healthyTO),
           perpetual := (if !i2.ephemeral && old.ephemeral then setInsert s.perpetual i2.short
                         else if i2.ephemeral && !old.ephemeral then s.perpetual.erase i2.short else s.perpetual) }

/-- bookkeeping for a new instance -/
def Svc.insertInst (s : Svc) (inst : Inst) (fromSync : Bool) : Svc :=
  { s with insts := AL.set s.insts inst.short inst, instSize := s.instSize + 1,
           healthySize := (if inst.healthy then s.healthySize + 1 else s.healthySize),
           healthyTO := (if inst.enableTimeout && !fromSync then s.healthyTO ++ [(inst.lastModified, inst.short)] else s.healthyTO),
           perpetual := (if !inst.ephemeral then setInsert s.perpetual inst.short else s.perpetual) }

/-- `Service::update_instance`; returns the service, the kind of update and the client id whose reverse
entry must be dropped -/
def Svc.updateInstance (s : Svc) (inst0 : Inst) (tag : Option Tag) (fromSync : Bool) :
    Svc × UpdType × Option String :=
  match AL.get? s.insts inst0.short with
  | some old =>
    let r := applyTag (keepOwner inst0 old) old tag
    (s.replaceInst old r.1 fromSync, r.2,
      if !old.clientId.isEmpty && (keepOwner inst0 old).clientId != old.clientId then some old.clientId else none)
  | none => (s.insertInst inst0 fromSync, UpdType.new, none)

/-- the guard of `Service::remove_instance`: an ephemeral instance is not removed on behalf of a
different, non-empty client id -/
def Svc.refuses (s : Svc) (key : ShortKey) (client : Option String) : Bool :=
  match client, AL.get? s.insts key with
  | some c, some old => old.ephemeral && !c.isEmpty && old.clientId != c
  | _, _ => false

/-- bookkeeping when the stored instance `old` is removed -/
def Svc.dropInst (s : Svc) (key : ShortKey) (old : Inst) (now : Int) : Svc :=
  { s with insts := AL.erase s.insts key,
           perpetual := (if !old.ephemeral then s.perpetual.erase key else s.perpetual),
           instSize := s.instSize - 1,
           lastEmpty := (if s.instSize - 1 == 0 then now else s.lastEmpty),
           healthySize := (if old.healthy then s.healthySize - 1 else s.healthySize) }

/-- `Service::remove_instance`; `now` feeds `last_empty_times` -/
def Svc.removeInstance (s : Svc) (key : ShortKey) (client : Option String) (now : Int) : Svc × Option Inst :=
  if s.refuses key client then (s, none)
  else match AL.get? s.insts key with
    | none => (s, none)
    | some old => (s.dropInst key old now, some old)

/-- `Service::update_instance_healthy_invalid` -/
def Svc.markUnhealthy (s : Svc) (key : ShortKey) : Svc :=
  match AL.get? s.insts key with
  | none => s
  | some i =>
    if i.healthy then
      { s with healthySize := s.healthySize - 1,
               unhealthyTO := s.unhealthyTO ++ [(i.lastModified, key)],
               insts := AL.set s.insts key { i with healthy := false } }
    else
      -- already unhealthy (e.g. registered that way): still queued for removal
      { s with unhealthyTO := s.unhealthyTO ++ [(i.lastModified, key)] }

/-- `Service::update_perpetual_instance_healthy_valid`: the host of a persistent instance answered the probe -/
def Svc.probeValid (s : Svc) (key : ShortKey) : Svc :=
  match AL.get? s.insts key with
  | none => s
  | some i =>
    if !i.healthy && !i.ephemeral then
      { s with healthySize := s.healthySize + 1, insts := AL.set s.insts key { i with healthy := true } }
    else s

/-- re-validation in `time_check`: an instance that is not subject to the heartbeat clock, or that was
heard of after `limit`, is skipped -/
def Svc.skipTimeout (s : Svc) (key : ShortKey) (limit : Int) : Bool :=
  match AL.get? s.insts key with
  | some i => !i.enableTimeout || i.lastModified > limit
  | none => false

def Svc.expireStep (now limit : Int) (acc : Svc × List ShortKey) (key : ShortKey) : Svc × List ShortKey :=
  if acc.1.skipTimeout key limit then acc else ((acc.1.removeInstance key none now).1, acc.2 ++ [key])

def Svc.unhealthyStep (limit : Int) (acc : Svc × List ShortKey) (key : ShortKey) : Svc × List ShortKey :=
  if acc.1.skipTimeout key limit then acc else (acc.1.markUnhealthy key, acc.2 ++ [key])

/-- first loop of `time_check`: removals -/
def Svc.expirePass (s : Svc) (offlineTime now : Int) : Svc × List ShortKey :=
  (toSplit s.unhealthyTO offlineTime).1.foldl (Svc.expireStep now offlineTime)
    ({ s with unhealthyTO := (toSplit s.unhealthyTO offlineTime).2 }, [])

/-- second loop of `time_check`: healthy -> unhealthy -/
def Svc.unhealthyPass (s : Svc) (healthyTime : Int) : Svc × List ShortKey :=
  (toSplit s.healthyTO healthyTime).1.foldl (Svc.unhealthyStep healthyTime)
    ({ s with healthyTO := (toSplit s.healthyTO healthyTime).2 }, [])

/-- `Service::time_check(healthy_time, offline_time)`; returns removed and updated keys -/
def Svc.timeCheck (s : Svc) (healthyTime offlineTime now : Int) : Svc × List ShortKey × List ShortKey :=
  (((s.expirePass offlineTime now).1.unhealthyPass healthyTime).1, (s.expirePass offlineTime now).2,
    ((s.expirePass offlineTime now).1.unhealthyPass healthyTime).2)

/-- `do_refresh_process_range`: re-arm the health time-out of HTTP instances taken over from a node -/
def Svc.refreshRange (s : Svc) : Svc :=
  { s with healthyTO := s.healthyTO ++
      ((s.insts.filter fun e => !e.2.fromGrpc && e.2.fromCluster > 0).map fun e => (e.2.lastModified, e.1)) }

/-! ### NamingActor -/

def isRange (r : Nat × Nat) (h : Nat) : Bool := r.2 < 2 || h % r.2 == r.1

/-- `create_empty_service` -/
def Naming.ensureService (n : Naming) (k : SKey) (now : Int) : Naming :=
  match AL.get? n.services k with
  | some _ => n
  | none =>
    { n with services := AL.set n.services k {}, nsIndex := setInsert n.nsIndex k,
             emptySet := n.emptySet ++ [(now + n.cfg.serviceTimeout, k)] }

def clientRemoveKey (cs : List (String × List IKey)) (c : String) (k : IKey) : List (String × List IKey) :=
  match AL.get? cs c with
  | some ks => AL.set cs c (ks.erase k)
  | none => cs

/-- an HTTP write for a key this node is responsible for is stamped as locally owned -/
def Naming.atRange (n : Naming) (hash : Nat) : Bool :=
  match n.range with
  | some r => isRange r hash
  | none => false

def Naming.stampLocal (n : Naming) (inst : Inst) (hash : Nat) : Inst :=
  if n.atRange hash && !inst.fromGrpc then
    { inst with fromCluster := 0, clientId := "" }
  else inst

/-- the reverse map is keyed by the client id the instance ends up with -/
def recordClient (cs : List (String × List IKey)) (ik : IKey) : Option Inst → List (String × List IKey)
  | some fin =>
    if (fin.fromGrpc || fin.fromCluster > 0) && !fin.clientId.isEmpty then
      AL.set cs fin.clientId (setInsert ((AL.get? cs fin.clientId).getD []) ik)
    else cs
  | none => cs

def dropReplaced (cs : List (String × List IKey)) (ik : IKey) : Option String → List (String × List IKey)
  | some oldc => clientRemoveKey cs oldc ik
  | none => cs

/-- the part of `NamingActor::update_instance` after the service has been found -/
def Naming.putInstance (n : Naming) (k : SKey) (svc : Svc) (inst : Inst) (tag : Option Tag) (fromSync : Bool) :
    Naming :=
  { n with services := AL.set n.services k (svc.updateInstance inst tag fromSync).1,
           clientSets := dropReplaced
             (recordClient n.clientSets ⟨k, inst.short⟩
               (AL.get? (svc.updateInstance inst tag fromSync).1.insts inst.short))
             ⟨k, inst.short⟩ (svc.updateInstance inst tag fromSync).2.2 }

/-- `NamingActor::update_instance`; `hash` = the service key's hash value (for the process range) -/
def Naming.updateInstance (n0 : Naming) (k : SKey) (inst0 : Inst) (tag : Option Tag) (fromSync : Bool)
    (now : Int) (hash : Nat) : Naming :=
  match AL.get? (n0.ensureService k now).services k with
  | none => n0.ensureService k now
  | some svc =>
    (n0.ensureService k now).putInstance k svc
      ((n0.ensureService k now).stampLocal { inst0 with lastModified := now } hash) tag fromSync

/-- `NamingActor::remove_instance` -/
def Naming.removeInstance (n : Naming) (k : SKey) (short : ShortKey) (client : Option String) (now : Int) :
    Naming × Option Inst :=
  match AL.get? n.services k with
  | none => (n, none)
  | some svc =>
    ({ n with services := AL.set n.services k (svc.removeInstance short client now).1,
              emptySet := (if (svc.removeInstance short client now).1.instSize ≤ 0
                           then n.emptySet ++ [(now + n.cfg.serviceTimeout, k)] else n.emptySet),
              clientSets := (match (svc.removeInstance short client now).2 with
                | some o => if !o.clientId.isEmpty then clientRemoveKey n.clientSets o.clientId ⟨k, short⟩ else n.clientSets
                | none => n.clientSets) },
     (svc.removeInstance short client now).2)

/-- apply of `NamingRaftReq::RemoveInstance` (the committed removal of a persistent instance): an ephemeral registration
that has taken the address over is left alone -/
def Naming.raftRemove (n : Naming) (k : SKey) (short : ShortKey) (now : Int) : Naming :=
  match AL.get? n.services k with
  | none => n
  | some svc =>
    match AL.get? svc.insts short with
    | some i => if i.ephemeral then n else (n.removeInstance k short none now).1
    | none => (n.removeInstance k short none now).1

/-- `NamingActor::update_perpetual_health` for one service: the result of the TCP probe of a host (the health check
of persistent instances); a failed probe marks whatever instance is registered at the host unhealthy -/
def Naming.probe (n : Naming) (k : SKey) (short : ShortKey) (ok : Bool) : Naming :=
  match AL.get? n.services k with
  | none => n
  | some s => { n with services := AL.set n.services k (if ok then s.probeValid short else s.markUnhealthy short) }

/-- `NamingActor::diff_grpc_distro_client_data`: another node's digest of its gRPC connections (connection id -> the
instances it holds) is compared with what this node has recorded for those connections: recorded instances the digest
does not list are removed (unguarded), listed ones that are missing are returned - the caller asks the sender for them -/
def Naming.diffClientData (n : Naming) (data : List (String × List IKey)) (now : Int) : Naming × List IKey :=
  let removeKeys := data.flatMap fun e => match AL.get? n.clientSets e.1 with
    | some v => v.filter fun ik => !e.2.contains ik
    | none => []
  let newItems := data.flatMap fun e => match AL.get? n.clientSets e.1 with
    | some v => e.2.filter fun ik => !v.contains ik
    | none => e.2
  (removeKeys.foldl (fun acc ik => (acc.removeInstance ik.skey ik.short none now).1) n, newItems)

/-- is the recorded instance a persistent one? (a closing connection leaves those alone) -/
def Naming.isPersistent (n : Naming) (ik : IKey) : Bool :=
  match AL.get? n.services ik.skey with
  | some svc => (match AL.get? svc.insts ik.short with | some i => !i.ephemeral | none => false)
  | none => false

def Naming.removeClientStep (c : String) (now : Int) (acc : Naming) (ik : IKey) : Naming :=
  if acc.isPersistent ik then acc else (acc.removeInstance ik.skey ik.short (some c) now).1

/-- `remove_client_instance` (RemoveClient / RemoveClientFromCluster): only ephemeral instances of the
connection are dropped -/
def Naming.removeClient (n : Naming) (c : String) (now : Int) : Naming :=
  match AL.get? n.clientSets c with
  | none => n
  | some keys => keys.foldl (Naming.removeClientStep c now) { n with clientSets := AL.erase n.clientSets c }

def Naming.timeCheckStep (now : Int) (acc : Naming) (e : SKey × Svc) : Naming :=
  match AL.get? acc.services e.1 with
  | none => acc
  | some svc =>
    { acc with services := AL.set acc.services e.1
                 (svc.timeCheck (now - acc.cfg.healthTimeout) (now - acc.cfg.instTimeout) now).1,
               emptySet := (if (svc.timeCheck (now - acc.cfg.healthTimeout) (now - acc.cfg.instTimeout) now).1.instSize ≤ 0
                            then acc.emptySet ++ [(now + acc.cfg.serviceTimeout, e.1)] else acc.emptySet) }

/-- `NamingActor::time_check` (all services; the per-call size cap is not modelled) -/
def Naming.timeCheck (n : Naming) (now : Int) : Naming := n.services.foldl (Naming.timeCheckStep now) n

/-- `clear_one_empty_service` -/
def Naming.clearOneEmpty (n : Naming) (k : SKey) (now : Int) : Naming :=
  match AL.get? n.services k with
  | none => n
  | some svc =>
    if svc.instSize ≤ 0 && now - n.cfg.serviceTimeout ≥ svc.lastEmpty then
      { n with services := AL.erase n.services k, nsIndex := n.nsIndex.erase k }
    else n

/-- `NamingCmd::RemoveService` (console): only an empty service can be removed -/
def Naming.removeService (n : Naming) (k : SKey) : Naming × Bool :=
  match AL.get? n.services k with
  | none => (n, true)
  | some svc => if svc.instSize ≤ 0 then (n.clearOneEmpty k 9223372036854775807, true) else (n, false)

/-- `ClusterRefreshProcessRange` -/
def Naming.refreshRange (n : Naming) (r : Nat × Nat) (hashOf : SKey → Nat) : Naming :=
  { n with services := n.services.map (fun e => if isRange r (hashOf e.1) then (e.1, e.2.refreshRange) else e),
           range := some r }

/-! ### queries -/

/-- `InstanceFilterUtils::default_instance_filter` over the enabled instances -/
def filterList (all : List Inst) (protect : Nat) (healthyOnly : Bool) : List Inst :=
  let total := all.length
  let healthy := (all.filter (·.healthy)).length
  -- healthy / total <= threshold   (0/0 is NaN: comparison false)
  if total > 0 && healthy * 1000 ≤ protect * total then all.map fun i => { i with healthy := true }
  else if healthyOnly then all.filter (·.healthy) else all

/-- `get_instance_list`: enabled instances, through the protection filter -/
def Naming.queryList (n : Naming) (k : SKey) (healthyOnly : Bool) : List Inst :=
  match AL.get? n.services k with
  | none => []
  | some svc => filterList ((svc.insts.map (·.2)).filter (·.enabled)) svc.protect healthyOnly

/-- `QueryAllInstanceList` -/
def Naming.queryAll (n : Naming) (k : SKey) : List Inst :=
  match AL.get? n.services k with
  | none => []
  | some svc => svc.insts.map (·.2)

end RNacos.Naming
