import RNacos.Base.AssocList
/-
Model of the service registry (src/naming/core.rs, service.rs, model.rs, filter.rs): instances,
incrementally maintained counters, reverse maps, the two time-out sets and the query filter.
Not modelled: listener/subscriber notification, cluster/raft notification, instance metadata (metadata
overrides do not influence any of the modelled fields), cluster names (ignored by the code as well).
Wall-clock values are explicit `now` arguments (milliseconds).
-/
namespace RNacos.Naming
open RNacos

structure SKey where
  ns : String
  group : String
  service : String
  deriving DecidableEq, Repr, Inhabited

structure ShortKey where
  ip : String
  port : Nat
  deriving DecidableEq, Repr, Inhabited

structure IKey where
  skey : SKey
  short : ShortKey
  deriving DecidableEq, Repr

structure Inst where
  ip : String
  port : Nat
  weight : Nat              -- thousandths
  enabled : Bool
  healthy : Bool
  ephemeral : Bool
  fromGrpc : Bool
  fromCluster : Nat
  clientId : String
  lastModified : Int := 0
  deriving DecidableEq, Repr

def Inst.short (i : Inst) : ShortKey := ⟨i.ip, i.port⟩

/-- `Instance::is_enable_timeout` -/
def Inst.enableTimeout (i : Inst) : Bool := i.ephemeral && !i.fromGrpc && !(i.fromCluster > 0)

structure Tag where
  weight : Bool := true
  metadata : Bool := true
  enabled : Bool := true
  ephemeral : Bool := true
  fromUpdate : Bool := false
  deriving DecidableEq, Repr

def Tag.isNone (t : Tag) : Bool := !t.weight && !t.metadata && !t.enabled && !t.ephemeral

structure Svc where
  insts : List (ShortKey × Inst) := []
  instSize : Int := 0
  healthySize : Int := 0
  perpetual : List ShortKey := []
  healthyTO : List (Int × ShortKey) := []     -- insertion order; `timeout` sorts by time (stable)
  unhealthyTO : List (Int × ShortKey) := []
  lastEmpty : Int := 0
  protect : Nat := 0          -- protect threshold, thousandths
  deriving Repr

structure Cfg where
  healthTimeout : Int := 18000
  instTimeout : Int := 33000
  serviceTimeout : Int := 30000
  deriving Repr

structure Naming where
  services : List (SKey × Svc) := []
  clientSets : List (String × List IKey) := []
  nsIndex : List SKey := []
  emptySet : List (Int × SKey) := []
  range : Option (Nat × Nat) := none
  cfg : Cfg := {}
  deriving Repr

/-- `TimeoutSet::timeout(now)`: entries with `t ≤ now`, by ascending time (stable), and the rest -/
def toSplit {α : Type} (l : List (Int × α)) (now : Int) : List α × List (Int × α) :=
  let due := l.filter (·.1 ≤ now)
  ((due.mergeSort fun a b => a.1 ≤ b.1).map (·.2), l.filter fun e => !(e.1 ≤ now))

def setInsert {α : Type} [DecidableEq α] (l : List α) (a : α) : List α := if a ∈ l then l else l ++ [a]

/-! ### Service -/

inductive UpdType where
  | none | new | updateValue | updateTime
  deriving DecidableEq, Repr

/-- `Service::update_instance`; returns the service, the kind of update and the client id whose reverse
entry must be dropped -/
def Svc.updateInstance (s : Svc) (inst0 : Inst) (tag : Option Tag) (fromSync : Bool) :
    Svc × UpdType × Option String :=
  let key := inst0.short
  match AL.get? s.insts key with
  | some old =>
    -- an HTTP (non-gRPC) ephemeral update over a gRPC instance keeps the gRPC ownership
    let i1 := if inst0.ephemeral && !inst0.fromGrpc && old.fromGrpc then
        { inst0 with fromGrpc := old.fromGrpc, clientId := old.clientId, fromCluster := old.fromCluster }
      else inst0
    let replaceOld := if !old.clientId.isEmpty && i1.clientId != old.clientId then some old.clientId else none
    let hs := if !old.healthy && i1.healthy then s.healthySize + 1
              else if old.healthy && !i1.healthy then s.healthySize - 1 else s.healthySize
    let (i2, rtype) := match tag with
      | none => (i1, UpdType.updateValue)
      | some t =>
        if !t.isNone then
          ({ i1 with enabled := if !t.enabled then old.enabled else i1.enabled,
                     ephemeral := if !t.ephemeral then old.ephemeral else i1.ephemeral,
                     weight := if !t.weight then old.weight else i1.weight }, UpdType.updateValue)
        else
          ({ i1 with enabled := old.enabled, ephemeral := old.ephemeral, weight := old.weight }, UpdType.updateTime)
    let addPerp := !i2.ephemeral && old.ephemeral
    let remPerp := i2.ephemeral && !old.ephemeral
    let hto := if i2.enableTimeout && !fromSync then s.healthyTO ++ [(i2.lastModified, key)] else s.healthyTO
    let perp := if addPerp then setInsert s.perpetual key
                else if remPerp then s.perpetual.erase key else s.perpetual
    ({ s with insts := AL.set s.insts key i2, healthySize := hs, healthyTO := hto, perpetual := perp },
      rtype, replaceOld)
  | none =>
    let hto := if inst0.enableTimeout && !fromSync then s.healthyTO ++ [(inst0.lastModified, key)] else s.healthyTO
    let perp := if !inst0.ephemeral then setInsert s.perpetual key else s.perpetual
    ({ s with insts := AL.set s.insts key inst0, instSize := s.instSize + 1,
              healthySize := if inst0.healthy then s.healthySize + 1 else s.healthySize,
              healthyTO := hto, perpetual := perp },
      UpdType.new, none)

/-- `Service::remove_instance`; `now` feeds `last_empty_times` -/
def Svc.removeInstance (s : Svc) (key : ShortKey) (client : Option String) (now : Int) : Svc × Option Inst :=
  let refused := match client, AL.get? s.insts key with
    | some c, some old => old.ephemeral && !c.isEmpty && old.clientId != c
    | _, _ => false
  if refused then (s, none)
  else match AL.get? s.insts key with
    | none => (s, none)
    | some old =>
      let size := s.instSize - 1
      ({ s with insts := AL.erase s.insts key,
                perpetual := if !old.ephemeral then s.perpetual.erase key else s.perpetual,
                instSize := size,
                lastEmpty := if size == 0 then now else s.lastEmpty,
                healthySize := if old.healthy then s.healthySize - 1 else s.healthySize }, some old)

/-- `Service::update_instance_healthy_invalid` -/
def Svc.markUnhealthy (s : Svc) (key : ShortKey) : Svc :=
  match AL.get? s.insts key with
  | none => s
  | some i =>
    if i.healthy then
      { s with healthySize := s.healthySize - 1,
               unhealthyTO := s.unhealthyTO ++ [(i.lastModified, key)],
               insts := AL.set s.insts key { i with healthy := false } }
    else s

/-- `Service::time_check(healthy_time, offline_time)`; returns removed and updated keys -/
def Svc.timeCheck (s : Svc) (healthyTime offlineTime now : Int) : Svc × List ShortKey × List ShortKey :=
  let (dueU, restU) := toSplit s.unhealthyTO offlineTime
  let s1 := { s with unhealthyTO := restU }
  let (s2, removed) := dueU.foldl (fun (acc : Svc × List ShortKey) key =>
      let skip := match AL.get? acc.1.insts key with
        | some i => !i.enableTimeout || i.lastModified > offlineTime
        | none => false
      if skip then acc else ((acc.1.removeInstance key none now).1, acc.2 ++ [key])) (s1, [])
  let (dueH, restH) := toSplit s2.healthyTO healthyTime
  let s3 := { s2 with healthyTO := restH }
  let (s4, updated) := dueH.foldl (fun (acc : Svc × List ShortKey) key =>
      let skip := match AL.get? acc.1.insts key with
        | some i => !i.enableTimeout || i.lastModified > healthyTime
        | none => false
      if skip then acc else (acc.1.markUnhealthy key, acc.2 ++ [key])) (s3, [])
  (s4, removed, updated)

/-- `do_refresh_process_range`: re-arm the health time-out of HTTP instances taken over from a node -/
def Svc.refreshRange (s : Svc) : Svc :=
  { s with healthyTO := s.healthyTO ++
      ((s.insts.filter fun e => !e.2.fromGrpc && e.2.fromCluster > 0).map fun e => (e.2.lastModified, e.1)) }

/-! ### NamingActor -/

def isRange (r : Nat × Nat) (h : Nat) : Bool := r.2 < 2 || h % r.2 == r.1

/-- `create_empty_service` -/
def Naming.ensureService (n : Naming) (k : SKey) (now : Int) : Naming :=
  match AL.get? n.services k with
  | some _ => n
  | none =>
    { n with services := AL.set n.services k {}, nsIndex := setInsert n.nsIndex k,
             emptySet := n.emptySet ++ [(now + n.cfg.serviceTimeout, k)] }

def clientRemoveKey (cs : List (String × List IKey)) (c : String) (k : IKey) : List (String × List IKey) :=
  match AL.get? cs c with
  | some ks => AL.set cs c (ks.erase k)
  | none => cs

/-- `NamingActor::update_instance`; `hash` = the service key's hash value (for the process range) -/
def Naming.updateInstance (n0 : Naming) (k : SKey) (inst0 : Inst) (tag : Option Tag) (fromSync : Bool)
    (now : Int) (hash : Nat) : Naming :=
  let inst1 := { inst0 with lastModified := now }
  let n := n0.ensureService k now
  let atRange := match n.range with | some r => isRange r hash | none => false
  let inst := if atRange && !inst1.fromGrpc then { inst1 with fromCluster := 0, clientId := "" } else inst1
  match AL.get? n.services k with
  | none => n
  | some svc =>
    let ikey : IKey := ⟨k, inst.short⟩
    -- the reverse map is updated with the *incoming* client id, before the service decides ownership
    let cs := if (inst.fromGrpc || inst.fromCluster > 0) && !inst.clientId.isEmpty then
        AL.set n.clientSets inst.clientId (setInsert ((AL.get? n.clientSets inst.clientId).getD []) ikey)
      else n.clientSets
    let (svc', _, replaceOld) := svc.updateInstance inst tag fromSync
    let cs2 := match replaceOld with
      | some oldc => clientRemoveKey cs oldc ikey
      | none => cs
    { n with services := AL.set n.services k svc', clientSets := cs2 }

/-- `NamingActor::remove_instance` -/
def Naming.removeInstance (n : Naming) (k : SKey) (short : ShortKey) (client : Option String) (now : Int) :
    Naming × Option Inst :=
  match AL.get? n.services k with
  | none => (n, none)
  | some svc =>
    let (svc', old) := svc.removeInstance short client now
    let es := if svc'.instSize ≤ 0 then n.emptySet ++ [(now + n.cfg.serviceTimeout, k)] else n.emptySet
    let cs := match old with
      | some o => if !o.clientId.isEmpty then clientRemoveKey n.clientSets o.clientId ⟨k, short⟩ else n.clientSets
      | none => n.clientSets
    ({ n with services := AL.set n.services k svc', emptySet := es, clientSets := cs }, old)

/-- `remove_client_instance` (RemoveClient / RemoveClientFromCluster) -/
def Naming.removeClient (n : Naming) (c : String) (now : Int) : Naming :=
  match AL.get? n.clientSets c with
  | none => n
  | some keys =>
    let n1 := { n with clientSets := AL.erase n.clientSets c }
    keys.foldl (fun acc ik => (acc.removeInstance ik.skey ik.short (some c) now).1) n1

/-- `NamingActor::time_check` (all services; the per-call size cap is not modelled) -/
def Naming.timeCheck (n : Naming) (now : Int) : Naming :=
  let ht := now - n.cfg.healthTimeout
  let ot := now - n.cfg.instTimeout
  n.services.foldl (fun acc e =>
    match AL.get? acc.services e.1 with
    | none => acc
    | some svc =>
      let (svc', _, _) := svc.timeCheck ht ot now
      let es := if svc'.instSize ≤ 0 then acc.emptySet ++ [(now + acc.cfg.serviceTimeout, e.1)] else acc.emptySet
      { acc with services := AL.set acc.services e.1 svc', emptySet := es }) n

/-- `clear_one_empty_service` -/
def Naming.clearOneEmpty (n : Naming) (k : SKey) (now : Int) : Naming :=
  match AL.get? n.services k with
  | none => n
  | some svc =>
    if svc.instSize ≤ 0 && now - n.cfg.serviceTimeout ≥ svc.lastEmpty then
      { n with services := AL.erase n.services k, nsIndex := n.nsIndex.erase k }
    else n

/-- `NamingCmd::RemoveService` (console): only an empty service can be removed -/
def Naming.removeService (n : Naming) (k : SKey) : Naming × Bool :=
  match AL.get? n.services k with
  | none => (n, true)
  | some svc => if svc.instSize ≤ 0 then (n.clearOneEmpty k 9223372036854775807, true) else (n, false)

/-- `ClusterRefreshProcessRange` -/
def Naming.refreshRange (n : Naming) (r : Nat × Nat) (hashOf : SKey → Nat) : Naming :=
  { n with services := n.services.map (fun e => if isRange r (hashOf e.1) then (e.1, e.2.refreshRange) else e),
           range := some r }

/-! ### queries -/

/-- `InstanceFilterUtils::default_instance_filter` over the enabled instances -/
def filterList (all : List Inst) (protect : Nat) (healthyOnly : Bool) : List Inst :=
  let total := all.length
  let healthy := (all.filter (·.healthy)).length
  -- healthy / total <= threshold   (0/0 is NaN: comparison false)
  if total > 0 && healthy * 1000 ≤ protect * total then all.map fun i => { i with healthy := true }
  else if healthyOnly then all.filter (·.healthy) else all

/-- `get_instance_list`: enabled instances, through the protection filter -/
def Naming.queryList (n : Naming) (k : SKey) (healthyOnly : Bool) : List Inst :=
  match AL.get? n.services k with
  | none => []
  | some svc => filterList ((svc.insts.map (·.2)).filter (·.enabled)) svc.protect healthyOnly

/-- `QueryAllInstanceList` -/
def Naming.queryAll (n : Naming) (k : SKey) : List Inst :=
  match AL.get? n.services k with
  | none => []
  | some svc => svc.insts.map (·.2)

end RNacos.Naming
