/-
The periodic digest by which a node tells its peers which gRPC connections it holds and what they have registered
(C15), src/naming/cluster/node_manage.rs `send_distort_data` / `node_diff_clients`, src/naming/cluster/mod.rs
`handle_naming_route(SyncDistroClientInstances)`, src/naming/core.rs `diff_grpc_distro_client_data` /
`RemoveClientsFromCluster`.  It is the only message that makes a peer forget connections of a node that are gone when
the primary removal signal was missed (the node was restarted before the peers declared it dead).

Connections and instance keys are natural numbers.  `Naming.diffClientData` (Model/Naming.lean) is the registry's part
of the receiving side on the full registry model and is executed against the real `NamingActor`; this file is the
protocol around it.
-/
namespace RNacos.Digest

abbrev Client := Nat
abbrev IKey := Nat

/-- what a node holds: for each of its gRPC connections the instances registered through it -/
abbrev Held := List (Client × List IKey)

/-- what a peer keeps about that node: the connections it remembers (`ClusterInnerNode::client_set`) and the instances
it has recorded for each connection (`client_instance_set`) -/
structure Peer where
  remembered : List Client
  recorded : Client → List IKey

def lookup (d : Held) (c : Client) : Option (List IKey) := (d.find? (·.1 == c)).map (·.2)

/-- `node_diff_clients` + `RemoveClientsFromCluster`: every remembered connection the digest does not name is forgotten,
with everything recorded for it -/
def dropStale (p : Peer) (named : List Client) : Peer :=
  { remembered := p.remembered.filter (named.contains ·),
    recorded := fun c => if p.remembered.contains c && !named.contains c then [] else p.recorded c }

/-- `diff_grpc_distro_client_data` and the snapshot that answers it: for a named connection the recorded instances the
digest does not list are removed, the listed ones that are missing are asked for and arrive (each arrival also enters
the connection into `client_set`) -/
def reconcile (p : Peer) (d : Held) : Peer :=
  { remembered := p.remembered ++ (d.map (·.1)).filter (fun c => !p.remembered.contains c),
    recorded := fun c => match lookup d c with
      | some ks => ks
      | none => p.recorded c }

/-- a digest arrives -/
def receive (p : Peer) (d : Held) : Peer := reconcile (dropStale p (d.map (·.1))) d

/-- `send_distort_data`: what goes out for a node that holds `h`; `sendsEmpty` = the digest goes out also when the node
holds no connection at all (read off the source by the translator: `Gen.digestSentWhenEmpty`) -/
def send (sendsEmpty : Bool) (h : Held) : Option Held := if h.isEmpty && !sendsEmpty then none else some h

/-- one digest round between a node holding `h` and a peer -/
def round (sendsEmpty : Bool) (h : Held) (p : Peer) : Peer :=
  match send sendsEmpty h with
  | some d => receive p d
  | none => p

end RNacos.Digest
