import RNacos.Model.Sequence
/-
Snapshot encoders / loaders of two more state-machine components (C01), next to the configuration store
(`Model/Config`) and the namespace component (`Model/Namespace`):

  * the replicated sequences – `SequenceDbManager::{build_snapshot, load_snapshot_record}` (src/sequence/core.rs),
    `id_to_bin` / `bin_to_id` (src/common/byte_utils.rs) and the branch of `RaftDataHandler::load_snapshot`
    (src/raft/filestore/raftdata.rs) that sends the record keyed `SEQ_CONFIG` to the config actor instead;
  * the tables – `TableManager::{insert, remove, drop_table, build_snapshot}` (src/raft/db/table.rs) and the two
    branches of `load_snapshot` that turn `T_USER` / `T_CACHE` records back into `TableManagerReq::Set`
    (records of any other tree name are ignored there).

The request semantics of the sequences is `Sequence.SeqDb` (C19).  A `HashMap` is a key/value list in its iteration
order; the theorems hold for every such order.
-/
namespace RNacos.Components
open RNacos

abbrev Bytes := List Nat

/-! ## `id_to_bin` / `bin_to_id`: eight bytes, big endian -/

def idToBin (v : Nat) : Bytes :=
  [v / 2 ^ 56 % 256, v / 2 ^ 48 % 256, v / 2 ^ 40 % 256, v / 2 ^ 32 % 256,
   v / 2 ^ 24 % 256, v / 2 ^ 16 % 256, v / 2 ^ 8 % 256, v % 256]

/-- `(&buf[0..8]).read_u64::<BigEndian>()`: a shorter buffer is a slice-index panic (`none`); longer ones are cut -/
def binToId : Bytes → Option Nat
  | b0 :: b1 :: b2 :: b3 :: b4 :: b5 :: b6 :: b7 :: _ =>
    some (b0 * 2 ^ 56 + b1 * 2 ^ 48 + b2 * 2 ^ 40 + b3 * 2 ^ 32 + b4 * 2 ^ 24 + b5 * 2 ^ 16 + b6 * 2 ^ 8 + b7)
  | _ => none

/-! ## the sequence component -/

/-- a snapshot record of the tree `T_SEQUENCE`; the key is the sequence's name (`key.as_bytes()` /
`String::from_utf8(record.key)`: the UTF-8 of a `String` decodes to that `String`) -/
structure SeqRec where
  key : String
  value : Bytes
  deriving Repr, DecidableEq

def seqConfigKey : String := "SEQ_CONFIG"

/-- `SequenceDbManager::build_snapshot` -/
def seqBuild (db : Sequence.SeqDb) : List SeqRec := db.map fun kv => ⟨kv.1, idToBin kv.2⟩

/-- one `T_SEQUENCE` record on load: `SEQ_CONFIG` belongs to the config actor (`InnerSetLastId`), everything else is
`SequenceDbManager::load_snapshot_record` (an undecodable value is an error, the record is skipped) -/
def seqLoadRec (db : Sequence.SeqDb) (r : SeqRec) : Sequence.SeqDb :=
  if r.key = seqConfigKey then db
  else match binToId r.value with
    | some v => AL.set db r.key v
    | none => db

def seqLoad (db : Sequence.SeqDb) (rs : List SeqRec) : Sequence.SeqDb := rs.foldl seqLoadRec db

/-! ## the table component -/

abbrev Table := List (Bytes × Bytes)
abbrev Tables := List (String × Table)

inductive TblReq where
  | set (t : String) (k v : Bytes)
  | remove (t : String) (k : Bytes)
  | drop (t : String)
  /-- `NextId` on a table that does not exist creates it (empty); `SetSeqId`, `NextId` on an existing table and the
  rejected `SetUseAutoId` leave the data alone (the tables' own id sequences are not part of a snapshot) -/
  | nextId (t : String)
  | other
  deriving Repr, DecidableEq

def tget (ts : Tables) (t : String) (k : Bytes) : Option Bytes := (AL.get? ts t).bind fun tb => AL.get? tb k

def tset (ts : Tables) (t : String) (k v : Bytes) : Tables := AL.set ts t (AL.set ((AL.get? ts t).getD []) k v)

def Tables.apply (ts : Tables) : TblReq → Tables
  | .set t k v => tset ts t k v
  | .remove t k => match AL.get? ts t with
    | some tb => AL.set ts t (AL.erase tb k)
    | none => ts
  | .drop t => AL.erase ts t
  | .nextId t => match AL.get? ts t with
    | some _ => ts
    | none => AL.set ts t []
  | .other => ts

structure TblRec where
  tree : String
  key : Bytes
  value : Bytes
  deriving Repr, DecidableEq

/-- `TableManager::build_snapshot`: every entry of every table, under the table's name -/
def tblBuild (ts : Tables) : List TblRec := ts.flatMap fun nt => nt.2.map fun kv => ⟨nt.1, kv.1, kv.2⟩

/-- the tree names `load_snapshot` hands to the table manager -/
def loadedTrees : List String := ["T_USER", "T_CACHE"]

def tblLoadRec (ts : Tables) (r : TblRec) : Tables :=
  if r.tree ∈ loadedTrees then tset ts r.tree r.key r.value else ts

def tblLoad (ts : Tables) (rs : List TblRec) : Tables := rs.foldl tblLoadRec ts

end RNacos.Components
