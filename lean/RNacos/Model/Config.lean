import RNacos.Base.AssocList
import RNacos.Model.Sequence
/-
Model of the config store (src/config/core.rs, config_index.rs, model.rs): `ConfigActor`'s cache,
`TenantIndex`, history, paging, key codec.  The listener / subscriber part is in `Model/Listener.lean`.

`md5` is modelled as an injective tag: the `md5` field holds *the content whose md5 it is* (collisions
are outside the model).  Wall-clock values are explicit arguments.
-/
namespace RNacos.Config
open RNacos RNacos.Sequence

structure Key where
  dataId : String
  group : String
  tenant : String
  deriving DecidableEq, Repr, Inhabited

structure Hist where
  id : Nat
  content : String
  time : Int
  user : Option String
  deriving DecidableEq, Repr

structure Value where
  content : String
  md5 : String            -- the content this md5 was computed from
  tmp : Bool
  hist : List Hist         -- oldest first (as stored)
  ctype : Option String
  desc : Option String
  lastModified : Int
  deriving DecidableEq, Repr

structure Store where
  cache : List (Key × Value) := []
  index : List Key := []          -- TenantIndex as a duplicate-free collection of keys
  size : Nat := 0                 -- TenantIndex.size
  seq : SimpleSeq := SimpleSeq.new 0 100
  deriving Repr

/-- `ConfigType::new_by_value(v).get_value()` (ASCII lower-casing is enough for the literals) -/
def normType (v : String) : String :=
  match v.toLower with
  | "json" => "json" | "xml" => "xml" | "yml" => "yaml" | "yaml" => "yaml" | "html" => "html"
  | "toml" => "toml" | "properties" => "properties" | _ => "text"

/-- `TenantIndex::insert_config` -/
def Store.indexInsert (s : Store) (k : Key) : Store :=
  if k ∈ s.index then s else { s with index := k :: s.index, size := s.size + 1 }

/-- `TenantIndex::remove_config` -/
def Store.indexRemove (s : Store) (k : Key) : Store :=
  if k ∈ s.index then { s with index := s.index.erase k, size := s.size - 1 } else s

/-- `self.cache.insert(key, value)` -/
def Store.putCache (s : Store) (k : Key) (v : Value) : Store := { s with cache := AL.set s.cache k v }

/-- `sequence.set_valid_last_id(history_table_id)` when the request carries a mark -/
def Store.applyMark (s : Store) : Option Nat → Store
  | some m => { s with seq := s.seq.setValidLastId m }
  | none => s

/-- `ConfigValue::update_value` -/
def Value.update (v : Value) (content : String) (hid : Nat) (time : Int) (user : Option String) : Value :=
  let item : Hist := ⟨hid, content, time, user⟩
  { v with md5 := content, content := content, tmp := false,
           hist := (if v.hist.length ≥ 100 then v.hist.drop 1 else v.hist) ++ [item],
           lastModified := time }

/-- `ConfigValue::init` -/
def Value.init (content : String) (hid : Nat) (time : Int) (user : Option String) : Value :=
  { content := content, md5 := content, tmp := false, hist := [⟨hid, content, time, user⟩],
    ctype := none, desc := none, lastModified := time }

structure SetParam where
  key : Key
  value : String
  ctype : Option String     -- already normalised by the raft handler
  desc : Option String
  hid : Nat
  mark : Option Nat
  time : Int
  user : Option String
  deriving Repr

/-- type / description given in the request replace the stored ones, otherwise they stay -/
def Value.refresh (v : Value) (ctype desc : Option String) : Value :=
  { v with ctype := (match ctype with | some t => some t | none => v.ctype),
           desc := (match desc with | some d => some d | none => v.desc) }

/-- `ConfigActor::set_config`; returns the new store and whether listeners are notified -/
def Store.setConfig (s0 : Store) (p : SetParam) : Store × Bool :=
  let s := s0.applyMark p.mark
  match AL.get? s.cache p.key with
  | some v =>
    let v1 := v.refresh p.ctype p.desc
    if !v1.tmp && v1.md5 == p.value then (s.putCache p.key v1, false)
    else
      ((if v1.hist.isEmpty then s.indexInsert p.key else s).putCache p.key
        (v1.update p.value p.hid p.time p.user), true)
  | none =>
    ((s.putCache p.key ((Value.init p.value p.hid p.time p.user).refresh p.ctype p.desc)).indexInsert p.key, true)

/-- `ConfigActor::del_config` (always notifies) -/
def Store.delConfig (s : Store) (k : Key) : Store :=
  Store.indexRemove { s with cache := AL.erase s.cache k } k

/-- `ConfigActor::set_tmp_config` (`now` = the wall clock used by `ConfigValue::new`) -/
def Store.setTmp (s : Store) (k : Key) (val : String) (now : Int) : Store :=
  match AL.get? s.cache k with
  | some v => s.putCache k { v with tmp := true, md5 := val, content := val }
  | none =>
    s.putCache k
      { content := val, md5 := val, tmp := true, hist := [], ctype := none, desc := none, lastModified := now }

/-- `From<ConfigValueDO> for ConfigValue` -/
def Value.ofImport (content : String) (hist : List Hist) (ctype desc : Option String) : Value :=
  { content := content, md5 := content, tmp := false, hist := hist, ctype := ctype.map normType, desc := desc,
    lastModified := (match hist.getLast? with | some h => h.time | none => 0) }

/-- `ConfigRaftCmd::SetFullValue` -/
def Store.setFull (s : Store) (k : Key) (content : String) (hist : List Hist) (ctype desc : Option String)
    (lastId : Option Nat) : Store :=
  ((s.indexInsert k).putCache k (Value.ofImport content hist ctype desc)).applyMark lastId

/-- `ConfigCmd::GET` -/
def Store.get (s : Store) (k : Key) : Option Value := AL.get? s.cache k

/-! ### key codec -/

def sep : Char := Char.ofNat 2

/-- `ConfigKey::build_key` -/
def Key.build (k : Key) : String :=
  if k.tenant.isEmpty then k.dataId ++ sep.toString ++ k.group
  else k.dataId ++ sep.toString ++ k.group ++ sep.toString ++ k.tenant

/-- `From<&str> for ConfigKey` -/
def Key.parse (s : String) : Key :=
  match s.splitOn sep.toString with
  | [] => ⟨"", "", ""⟩
  | [d] => ⟨d, "", ""⟩
  | [d, g] => ⟨d, g, ""⟩
  | d :: g :: t :: _ => ⟨d, g, t⟩

/-! ### listing -/

structure Query where
  tenant : String
  group : Option String := none
  dataId : Option String := none
  likeGroup : Option String := none
  likeDataId : Option String := none
  offset : Nat := 0
  limit : Nat := 0
  deriving Repr

/-- `StringUtils::like(a, b).is_some()` = `a.rfind(b).is_some()` -/
def strContains (a b : String) : Bool := (a.splitOn b).length > 1 || b.isEmpty

def Query.matchGroup (q : Query) (g : String) : Bool :=
  match q.group with
  | some x => x.isEmpty || g == x
  | none => match q.likeGroup with
    | some l => l.isEmpty || strContains g l
    | none => true

def Query.matchDataId (q : Query) (d : String) : Bool :=
  match q.dataId with
  | some x => x.isEmpty || d == x
  | none => match q.likeDataId with
    | some l => l.isEmpty || strContains d l
    | none => true

def keyLe (a b : Key) : Bool := a.group < b.group || (a.group == b.group && a.dataId ≤ b.dataId)

def insertSorted (k : Key) : List Key → List Key
  | [] => [k]
  | x :: xs => if keyLe k x then k :: x :: xs else x :: insertSorted k xs

def sortKeys (l : List Key) : List Key := l.foldr insertSorted []

/-- the complete, ordered listing the pages are cut from (BTreeMap order: group, then dataId) -/
def Store.listing (s : Store) (q : Query) : List Key :=
  (sortKeys (s.index.filter (·.tenant == q.tenant))).filter fun k => q.matchGroup k.group && q.matchDataId k.dataId

/-- `TenantIndex::query_config_page` with `tenant = Some(t)` (no privilege restriction): (total, page) -/
def Store.queryPage (s : Store) (q : Query) : Nat × List Key :=
  let l := s.listing q
  (l.length, (l.drop q.offset).take q.limit)

/-- `get_history_info_page` with all three key parts given: (total, page newest first) -/
def Store.historyPage (s : Store) (k : Key) (offset : Option Nat) (limit : Option Nat) : Nat × List Hist :=
  match AL.get? s.cache k with
  | none => (0, [])
  | some v =>
    match offset with
    | none => (v.hist.length, [])
    | some o =>
      let r := v.hist.reverse.drop o
      (v.hist.length, match limit with | some l => r.take l | none => r)

/-! ### operations of the replicated log / actor messages, as one op type -/

inductive Op where
  | add (p : SetParam)
  | remove (k : Key)
  | full (k : Key) (content : String) (hist : List Hist) (ctype desc : Option String) (lastId : Option Nat)
  | tmp (k : Key) (val : String) (now : Int)
  deriving Repr

def Store.step (s : Store) : Op → Store
  | .add p => (s.setConfig p).1
  | .remove k => s.delConfig k
  | .full k c h t d l => s.setFull k c h t d l
  | .tmp k v n => s.setTmp k v n

def Store.run (s : Store) (ops : List Op) : Store := ops.foldl Store.step s

end RNacos.Config
