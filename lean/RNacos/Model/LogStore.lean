/-
Specification-level model of the Raft log as `FileStore` exposes it (C02/C03, several files):
`append_entry_to_log`, `replicate_to_log`, `delete_logs_from`, `get_log_entries`, `get_last_log_index`, the log
part of compaction and snapshot installation, reopen.  The log is a list of visible entries; which file an
entry lives in is not observable and not modelled (the single file is `RNacos/Model/LogFile.lean`).
-/
namespace RNacos.LogStore

inductive Kind where
  | normal (len seed : Nat)
  | pointer
  deriving DecidableEq, Repr

structure Ent where
  index : Nat
  term : Nat
  kind : Kind
  deriving DecidableEq, Repr

structure Store where
  ents : List Ent := []                 -- visible entries, ascending
  next : Option Nat := none             -- index the open file expects next (`none`: no log file yet)
  lastTerm : Nat := 0
  prePtr : Option (Nat × Nat) := none   -- `pre_ready_snapshot_pointer` (not persisted)
  hs : Nat × Nat := (0, 0)              -- `save_hard_state`: current term, voted for (0 = nobody); what `get_initial_state` reports
  deriving Repr

def mkEnts (i t n len seed : Nat) : List Ent :=
  (List.range n).map fun j => ⟨i + j, t, .normal len (seed + j)⟩

/-- `replicate_to_log` / `append_entry_to_log` (a batch of one): accepted iff contiguous with the open file,
or there is no log file yet (the first record defines the start) -/
def append (s : Store) (es : List Ent) : Store × Bool :=
  match es with
  | [] => (s, true)
  | e :: _ =>
    if s.next = none ∨ s.next = some e.index then
      ({ s with ents := s.ents ++ es, next := some (e.index + es.length),
                lastTerm := (es.getLast?.map (·.term)).getD s.lastTerm }, true)
    else (s, false)

/-- `delete_logs_from(k)` for `k` inside the log (above a compaction pointer) -/
def deleteFrom (s : Store) (k : Nat) : Store :=
  match s.next with
  | none => s
  | some n =>
    if k ≥ n then s
    else
      let kept := s.ents.filter (·.index < k)
      { s with ents := kept, next := some k, lastTerm := (kept.getLast?.map (·.term)).getD s.lastTerm }

/-- `save_new_snapshot_pointer`: everything up to the pointer's index is dropped, the pointer takes its place -/
def savePointer (s : Store) (i t : Nat) : Store :=
  match s.next with
  | none =>
    -- no log file yet: the pointer is written like a first record
    { s with ents := [⟨i, t, .pointer⟩], next := some (i + 1), lastTerm := t }
  | some _ => { s with ents := ⟨i, t, .pointer⟩ :: s.ents.filter (·.index > i) }

/-- `begin_ready_to_load`: the pointer of the compaction before the previous one is installed -/
def compact (s : Store) (i t : Nat) : Store :=
  match s.prePtr with
  | none => { s with prePtr := some (i, t) }
  | some (pi, pt) => { savePointer s pi pt with prePtr := some (i, t) }

/-- the log part of `finalize_snapshot_installation` (a snapshot sent by the leader, index `i`, term `t`): whatever the
log held - nothing, less than the snapshot, more than the snapshot - it is now the snapshot's pointer alone and the next
entry accepted is `i + 1` (fixes F28 / F29: the two cases `delete_through = None / Some` no longer differ) -/
def install (s : Store) (i t : Nat) : Store :=
  { s with ents := [⟨i, t, .pointer⟩], next := some (i + 1), lastTerm := t }

def get (s : Store) (a b : Nat) : List Ent := s.ents.filter fun e => a ≤ e.index ∧ e.index < b

def last (s : Store) : Nat × Nat :=
  match s.next with
  | none => (0, 0)
  | some n => (n - 1, s.lastTerm)

def reopen (s : Store) : Store := { s with prePtr := none }

end RNacos.LogStore
