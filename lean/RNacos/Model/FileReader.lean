import RNacos.Model.Varint
/-
Model of `FileMessageReader` (src/common/protobuf_utils.rs:249-333) over a file given as a byte list.
The file position always equals `start` between calls (every method seeks back to it).
-/
namespace RNacos.FileReader
open RNacos.Varint

structure FileReader where
  file : List Nat
  start : Nat
  deriving Repr

/-- `read_len`: up to 10 bytes at `start` into a zeroed 10-byte buffer; nothing read or length 0 is
"read end"; the frame length is `len + inner_sizeof_varint(len)` (size *function*, not bytes consumed). -/
def readLen (r : FileReader) : Option Nat :=
  let avail := (r.file.drop r.start).take 10
  if avail.isEmpty then none
  else
    let buf := avail ++ List.replicate (10 - avail.length) 0
    match vread buf 0 with
    | .ok v => if v = 0 then none else some (v + vsizeof v)
    | .error _ => none

/-- `read_next_position` -/
def readNextPosition (r : FileReader) : Option ((Nat × Nat) × FileReader) :=
  match readLen r with
  | none => none
  | some len => some ((r.start, len), { r with start := r.start + len })

/-- `read_next`: the frame at `start` (length prefix and body), read with one `file.read` of the frame's length from
`start` (where `read_len` has put the handle back); a file that ends inside the frame is an error -/
def readNext (r : FileReader) : Option (List Nat × FileReader) :=
  match readLen r with
  | none => none
  | some len =>
    let data := (r.file.drop r.start).take len
    if data.length < len then none else some (data, { r with start := r.start + len })

/-- `read_next` until it fails, at most `fuel` times (the loops of the catalogue, snapshot and transfer readers) -/
def readAll : Nat → FileReader → List (List Nat)
  | 0, _ => []
  | f + 1, r =>
    match readNext r with
    | none => []
    | some (d, r') => d :: readAll f r'

/-- `read_index_position(index)`: skip `index` frames, return the next one's (position, len). -/
def readIndexPosition : Nat → FileReader → Option ((Nat × Nat) × FileReader)
  | 0, r => readNextPosition r
  | n + 1, r =>
    match readNextPosition r with
    | none => none
    | some (_, r') => readIndexPosition n r'

/-- what `file.read(&mut [0u8; n])` delivers, call after call, from `pos` to the end of the file -/
def fileChunks (n : Nat) : Nat → List Nat → List (List Nat)
  | 0, _ => []
  | f + 1, s => if s.isEmpty then [] else s.take n :: fileChunks n f (s.drop n)

end RNacos.FileReader
