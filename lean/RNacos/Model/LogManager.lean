import RNacos.Model.LogStore
/-
Manager-level model of the Raft log (C02/C03, several files): `RaftLogManager` of
src/raft/filestore/raftlog/mod.rs — the catalogue of log files (`LogRange`: id, start_index, split_off_index,
record_count, is_close) plus what each file holds.  A file is abstract here (the list of its records; the byte
level of one file is `RNacos/Model/LogFile.lean`); *when* a file is full is a parameter `full`, so every theorem
holds for every file geometry and every record size.

  write / write_batch      RaftLogManager::write, write_batch (+ switch_new_log on Failure / SuccessToEnd)
  strip                    RaftLogManager::strip_log_to_index      (delete_logs_from)
  splitOff                 RaftLogManager::split_off
  savePointer              RaftLogManager::save_new_snapshot_pointer
  compact                  RaftLogManager::begin_ready_to_load
  get / lastIndex          get_query_log_actors + read_records / get_last_index_info
-/
namespace RNacos.LogManager
open RNacos.LogStore (Ent Kind)

structure File where
  id : Nat
  start : Nat              -- start_index
  splitOff : Nat           -- split_off_index: records below it are hidden
  closed : Bool            -- is_close
  count : Nat              -- record_count (written when the file is closed; 0 for the open file)
  recs : List Ent          -- record j of the file has index start + j
  deriving Repr

structure Mgr where
  files : List File := []
  prePtr : Option (Nat × Nat) := none     -- pre_ready_snapshot_pointer (not persisted)
  deriving Repr

/-- `LogInnerManager::get_end_index` -/
def endIdx (f : File) : Nat := f.start + f.recs.length

/-- `LogRangeWrap::get_log_range_end_index`: `none` stands for `u64::MAX` (the open file) -/
def rangeEnd (f : File) : Option Nat := if f.closed then some (f.start + f.count) else none

/-- `k < get_log_range_end_index()` -/
def belowRangeEnd (k : Nat) (f : File) : Bool :=
  match rangeEnd f with
  | none => true
  | some e => decide (k < e)

/-- `switch_new_log(next_index)`: the last file is closed with its record count, a new open file starts at
`next_index` -/
def switchNew (fs : List File) (nextIdx : Nat) : List File :=
  match fs.getLast? with
  | none => [{ id := 1, start := nextIdx, splitOff := nextIdx, closed := false, count := 0, recs := [] }]
  | some l =>
    fs.dropLast ++ [{ l with closed := true, count := nextIdx - l.start },
                    { id := l.id + 1, start := nextIdx, splitOff := nextIdx, closed := false, count := 0, recs := [] }]

/-- append to the last file -/
def pushRec (fs : List File) (e : Ent) : List File :=
  match fs.getLast? with
  | none => fs
  | some l => fs.dropLast ++ [{ l with recs := l.recs ++ [e] }]

inductive WriteRes where
  | ok | indexError | cannotRewrite
  deriving DecidableEq, Repr

/-- the file-level `write` on the current (last) file when it does not refuse the record for lack of room, and the
manager's reaction to `SuccessToEnd` -/
def writeCur (full : File → Bool) (fs : List File) (e : Ent) : List File × WriteRes :=
  match fs.getLast? with
  | none => (fs, .ok)
  | some l =>
    if endIdx l ≠ e.index then (fs, .indexError)          -- "logfile index != record.index"
    else
      let fs2 := pushRec fs e
      match fs2.getLast? with
      | some l2 => (if full l2 then switchNew fs2 (endIdx l2) else fs2, .ok)   -- SuccessToEnd: switch_new_log
      | none => (fs2, .ok)

/-- `RaftLogManager::write`: no current log → `switch_new_log(record.index)`; a full file answers `Failure`, the
manager opens a new file at its end index and writes again; `fuel` bounds the re-writes (`can_rewrite`: a single
write is re-written once, the second `Failure` is an error - after the switch) -/
def writeOne (full : File → Bool) (fs : List File) (e : Ent) : Nat → List File × WriteRes
  | 0 => (fs, .cannotRewrite)
  | fuel + 1 =>
    let fs0 := if fs.isEmpty then switchNew fs e.index else fs
    match fs0.getLast? with
    | none => (fs0, .ok)
    | some l =>
      if full l then writeOne full (switchNew fs0 (endIdx l)) e fuel
      else writeCur full fs0 e

def write (full : File → Bool) (m : Mgr) (e : Ent) : Mgr × WriteRes :=
  let r := writeOne full m.files e 2
  ({ m with files := r.1 }, r.2)

/-- `write_batch`: the records one after the other; the first refusal stops the batch (the records before it stay) -/
def writeBatchFs (full : File → Bool) (fs : List File) : List Ent → List File × WriteRes
  | [] => (fs, .ok)
  | e :: es =>
    match writeOne full fs e 2 with
    | (fs1, .ok) => writeBatchFs full fs1 es
    | r => r

def writeBatch (full : File → Bool) (m : Mgr) (es : List Ent) : Mgr × WriteRes :=
  let r := writeBatchFs full m.files es
  ({ m with files := r.1 }, r.2)

/-- file-level `strip_log_to(k)`: the records from index k on are removed -/
def stripFile (k : Nat) (f : File) : File := { f with recs := f.recs.take (k - f.start) }

/-- the loop of `strip_log_to_index`: number of files that lie wholly above the cut, and the files with the cut applied -/
def stripLoop (k : Nat) : List File → Nat × List File
  | [] => (0, [])
  | f :: fs =>
    let r := stripLoop k fs
    if belowRangeEnd k f then
      if k < f.start then (r.1 + 1, f :: r.2)
      else (r.1, stripFile k f :: r.2)
    else (r.1, f :: r.2)

def reopenLast (fs : List File) : List File :=
  match fs.getLast? with
  | none => fs
  | some l => fs.dropLast ++ [{ l with closed := false, count := 0 }]

def strip (m : Mgr) (k : Nat) : Mgr :=
  let r := stripLoop k m.files
  if r.1 > 0 then { m with files := reopenLast (r.2.take (r.2.length - r.1)) }
  else { m with files := r.2 }

/-- the loop of `split_off`: number of files removed and the list with the split point recorded -/
def splitLoop (k : Nat) : List File → Nat × List File
  | [] => (0, [])
  | f :: fs =>
    if !(belowRangeEnd k f) then
      let r := splitLoop k fs
      (r.1 + 1, f :: r.2)
    else if k > f.splitOff then (0, { f with splitOff := k } :: fs)      -- `break`
    else
      let r := splitLoop k fs
      (r.1, f :: r.2)

def splitOffFs (k : Nat) (fs : List File) : List File :=
  let r := splitLoop k fs
  r.2.drop r.1

def splitOff (m : Mgr) (k : Nat) : Mgr := { m with files := splitOffFs k m.files }

def ptrEnt (i t : Nat) : Ent := ⟨i, t, .pointer⟩

/-- `save_new_snapshot_pointer` -/
def savePointerFs (full : File → Bool) (fs : List File) (i t : Nat) : List File :=
  let fs1 := splitOffFs (i + 1) fs
  match fs1 with
  | [] => (writeOne full [] (ptrEnt i t) 2).1
  | f0 :: _ =>
    { id := f0.id - 1, start := i, splitOff := i, closed := true, count := 1, recs := [ptrEnt i t] } :: fs1

def savePointer (full : File → Bool) (m : Mgr) (i t : Nat) : Mgr :=
  { m with files := savePointerFs full m.files i t }

/-- `SplitOff(u64::MAX)` followed by `InstallSnapshotPointerLog` (`FileStore::finalize_snapshot_installation`):
`u64::MAX >= get_log_range_end_index()` holds for every file, the open one included (its end *is* `u64::MAX`), so
`split_off` removes them all; `save_new_snapshot_pointer` then finds no file and writes the pointer as a first record -/
def install (full : File → Bool) (m : Mgr) (i t : Nat) : Mgr :=
  { m with files := (writeOne full [] (ptrEnt i t) 2).1 }

/-- `begin_ready_to_load` -/
def compact (full : File → Bool) (m : Mgr) (i t : Nat) : Mgr :=
  match m.prePtr with
  | none => { m with prePtr := some (i, t) }
  | some (pi, pt) => { savePointer full m pi pt with prePtr := some (i, t) }

/-- file-level `read_records(a, b)` -/
def readFile (a b : Nat) (f : File) : List Ent :=
  f.recs.filter fun e => max a (max f.splitOff f.start) ≤ e.index ∧ e.index < b

def get (m : Mgr) (a b : Nat) : List Ent := m.files.flatMap (readFile a b)

def lastIndex (m : Mgr) : Nat :=
  match m.files.getLast? with
  | none => 0
  | some l => endIdx l - 1

def reopen (m : Mgr) : Mgr := { m with prePtr := none }

/-! ### abstraction to the list specification -/

def visible (f : File) : List Ent := f.recs.filter fun e => decide (f.splitOff ≤ e.index)

def absEnts (fs : List File) : List Ent := fs.flatMap visible

def absNext (fs : List File) : Option Nat := fs.getLast?.map endIdx

/-- the catalogue as the index file stores it -/
structure CatRow where
  id : Nat
  start : Nat
  count : Nat
  splitOff : Nat
  closed : Bool
  deriving DecidableEq, Repr

def catalogue (fs : List File) : List CatRow := fs.map fun f => ⟨f.id, f.start, f.count, f.splitOff, f.closed⟩

end RNacos.LogManager
