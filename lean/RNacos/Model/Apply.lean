/-
Model of the three ways a committed request reaches the state machine (C07) and of restart (C01),
src/raft/filestore/raftdata.rs + raftapply.rs:
  leader   : `apply_log_to_state_machine`  – one request, the component's answer is awaited
  follower : `do_send_log`                 – a batch, fire-and-forget, each component's mailbox keeps the order
  replay   : `load_log`                    – the log suffix after the snapshot, on start-up
Each path is a *dispatch table* (one row per `ClientRequest` variant: which component gets which message built
from which fields); the tables are regenerated from the source on every run (`RNacos/Gen/ApplyPaths.lean`).
The components themselves are arbitrary deterministic state machines here: what the theorems say holds for any
behaviour of ConfigActor, TableManager, … (their own rules are C09, C19, …).
-/
namespace RNacos.Apply

/-- a row of a dispatch table: target component and the (normalised) message expression -/
structure Row where
  variant : List Nat      -- strings are byte lists so that the kernel can compare the regenerated tables
  target : List Nat
  message : List Nat
  deriving DecidableEq, Repr

abbrev Table := List Row

def Table.lookup (t : Table) (v : List Nat) : Option Row := t.find? (·.variant == v)

/-- a committed request: its variant and an opaque payload -/
structure Req (α : Type) where
  variant : List Nat
  payload : α

/-- the whole state machine: one state per component, addressed by name -/
abbrev State (σ : Type) := List Nat → σ

/-- what a component does with a message (built by `message` from the payload): any function -/
structure Sem (α σ : Type) where
  deliver : (target message : List Nat) → α → σ → σ
  /-- building the message from the payload may fail (`ConfigValueDO::from_bytes(..)?`) -/
  fails : (message : List Nat) → α → Bool

/-- deliver one request along a path; a variant missing from the table is dropped; a request whose message
cannot be built changes nothing (and is reported, see `failsOn`) -/
def applyOne {α σ : Type} (sem : Sem α σ) (t : Table) (st : State σ) (r : Req α) : State σ :=
  match t.lookup r.variant with
  | none => st
  | some row =>
    if sem.fails row.message r.payload then st
    else fun c => if c = row.target then sem.deliver row.target row.message r.payload (st c) else st c

def failsOn {α σ : Type} (sem : Sem α σ) (t : Table) (r : Req α) : Bool :=
  match t.lookup r.variant with
  | none => false
  | some row => sem.fails row.message r.payload

/-- the leader path: every entry on its own (an entry that fails is answered with an error, the next one is applied) -/
def applyAll {α σ : Type} (sem : Sem α σ) (t : Table) (st : State σ) (rs : List (Req α)) : State σ :=
  rs.foldl (applyOne sem t) st

/-- the follower path: `for request in batch { do_send_log(request)? }` – the first failing request ends the batch -/
def applyBatch {α σ : Type} (sem : Sem α σ) (t : Table) (st : State σ) : List (Req α) → State σ
  | [] => st
  | r :: rs => if failsOn sem t r then st else applyBatch sem t (applyOne sem t st r) rs

def applyBatches {α σ : Type} (sem : Sem α σ) (t : Table) (st : State σ) (bs : List (List (Req α))) : State σ :=
  bs.foldl (applyBatch sem t) st

/-- restart: the snapshot of the state at compaction point `c` is loaded, then the log suffix is replayed -/
def restart {α σ : Type} (sem : Sem α σ) (leader replay : Table) (load : State σ → State σ)
    (init : State σ) (rs : List (Req α)) (c : Nat) : State σ :=
  applyAll sem replay (load (applyAll sem leader init (rs.take c))) (rs.drop c)

end RNacos.Apply
