import RNacos.Model.Config
/-
Model of the namespace component (src/namespace/mod.rs: `NamespaceActor`): an entry per namespace id with a name and
a set of origin flags - SYSTEM (the default namespace), USER (created or changed through the console / Raft),
CONFIG / NAMING ("weak": the namespace is merely in use by a configuration or a service; created and removed by the
config / naming actors).  Only entries with the USER flag are written to a snapshot.
-/
namespace RNacos.Namespace

def fSystem : Nat := 1
def fUser : Nat := 2
def fConfig : Nat := 4
def fNaming : Nat := 8

structure Ns where
  name : String
  flag : Nat
  deriving DecidableEq, Repr

/-- id → entry, in the order of first appearance (`id_order_list`) -/
abbrev State := List (String × Ns)

def get? (s : State) (id : String) : Option Ns := (s.find? (·.1 == id)).map (·.2)

def put (s : State) (id : String) (v : Ns) : State :=
  if s.any (·.1 == id) then s.map fun e => if e.1 == id then (id, v) else e else s ++ [(id, v)]

def erase (s : State) (id : String) : State := s.filter (·.1 != id)

def hasFlag (flag bit : Nat) : Bool := flag / bit % 2 == 1
def setFlag (flag bit : Nat) : Nat := if hasFlag flag bit then flag else flag + bit
def clearFlag (flag bit : Nat) : Nat := if hasFlag flag bit then flag - bit else flag

/-- `set_namespace(param, only_add, only_update)`; the default namespace (`public`) is never touched -/
def setNamespace (s : State) (id : String) (name : Option String) (onlyAdd onlyUpdate : Bool) : State :=
  if id == "public" then s else
  let bit := if id == "" then fSystem else fUser
  match get? s id with
  | some v =>
    if onlyAdd && hasFlag v.flag fUser then s
    else put s id ⟨name.getD v.name, setFlag v.flag bit⟩
  | none => if onlyUpdate then s else put s id ⟨name.getD "", bit⟩

/-- `NamespaceRaftReq` -/
inductive Req where
  | set (id : String) (name : Option String)
  | addOnly (id : String) (name : Option String)
  | update (id : String) (name : Option String)
  | delete (id : String)
  deriving Repr, DecidableEq

/-- `set_weak_namespace` -/
def setWeak (s : State) (id : String) (bit : Nat) : State :=
  if id == "" || id == "public" then s else
  match get? s id with
  | some v => put s id { v with flag := setFlag v.flag bit }
  | none => put s id ⟨id, bit⟩

/-- `remove_namespace(id, bit)` -/
def removeFlag (s : State) (id : String) (bit : Nat) : State :=
  if id == "" then s else
  match get? s id with
  | some v =>
    let nf := clearFlag v.flag bit
    if nf == v.flag then s else if nf > 0 then put s id { v with flag := nf } else erase s id
  | none => s

def apply (s : State) : Req → State
  | .set id name => setNamespace s id name false false
  | .addOnly id name => setNamespace s id name true true
  | .update id name => setNamespace s id name false true
  | .delete id => removeFlag s id fUser

/-- the user-created namespaces as served: id and name, in list order -/
def userList (s : State) : List (String × String) :=
  (s.filter fun e => hasFlag e.2.flag fUser).map fun e => (e.1, e.2.name)

/-- `build_snapshot`: one record (id, name) per entry with the USER flag, the system entry excluded -/
def buildSnapshot (s : State) : List (String × String) :=
  (s.filter fun e => e.1 != "" && hasFlag e.2.flag fUser).map fun e => (e.1, e.2.name)

/-- `load_snapshot_record` for every record, into the state of a freshly started actor -/
def loadSnapshot (fresh : State) (recs : List (String × String)) : State :=
  recs.foldl (fun st r => setNamespace st r.1 (some r.2) false false) fresh

/-- a freshly started actor: the default namespace only -/
def initial : State := [("", ⟨"public", fSystem⟩)]

end RNacos.Namespace
