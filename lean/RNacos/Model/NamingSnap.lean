import RNacos.Model.Naming
/-
The snapshot of the registry's persistent instances (C01): `NamingActor::{build_snapshot, load_snapshot_record}`
(src/naming/core.rs) with `Instance::{to_do, from_do}` (src/naming/model.rs), on the registry model of C11-C13.

`build_snapshot` walks every service's `perpetual_host_set`, looks the instance up and writes it if it is not ephemeral;
`load_snapshot_record` decodes the record and hands it to `update_instance(.., None, true, None)` - the ordinary
registration path, without an update tag, marked as coming from a sync.
-/
namespace RNacos.Naming
open RNacos

/-- what an `InstanceDo` carries of the model's instance (metadata, cluster and application name are not modelled) -/
structure Do where
  ip : String
  port : Nat
  weight : Nat
  enabled : Bool
  healthy : Bool
  ephemeral : Bool
  deriving DecidableEq, Repr

/-- `Instance::to_do` -/
def Inst.toDo (i : Inst) : Do := ⟨i.ip, i.port, i.weight, i.enabled, i.healthy, i.ephemeral⟩

/-- `Instance::from_do`: no connection, no origin node, no client id -/
def Do.toInst (d : Do) : Inst := ⟨d.ip, d.port, d.weight, d.enabled, d.healthy, d.ephemeral, false, 0, "", 0⟩

/-- the records one service contributes -/
def svcRecs (k : SKey) (s : Svc) : List (SKey × Do) :=
  s.perpetual.filterMap fun key => match AL.get? s.insts key with
    | some i => if i.ephemeral then none else some (k, i.toDo)
    | none => none

/-- `NamingActor::build_snapshot` -/
def buildSnapshot (n : Naming) : List (SKey × Do) := n.services.flatMap fun ks => svcRecs ks.1 ks.2

/-- `NamingActor::load_snapshot_record` (`now`: the clock, `hashOf`: the hash of a service key, for the process range) -/
def loadRec (now : Int) (hashOf : SKey → Nat) (n : Naming) (r : SKey × Do) : Naming :=
  n.updateInstance r.1 r.2.toInst none true now (hashOf r.1)

def loadSnapshot (now : Int) (hashOf : SKey → Nat) (n : Naming) (rs : List (SKey × Do)) : Naming :=
  rs.foldl (loadRec now hashOf) n

/-- what the registry holds under a service and an address, as an `InstanceDo` -/
def lookDo (n : Naming) (k : SKey) (key : ShortKey) : Option Do :=
  ((AL.get? n.services k).bind fun s => AL.get? s.insts key).map Inst.toDo

/-- the address a record is stored under -/
def keyOf (r : SKey × Do) : SKey × ShortKey := (r.1, ⟨r.2.ip, r.2.port⟩)

end RNacos.Naming
