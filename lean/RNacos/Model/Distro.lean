/-
Model of distro ownership and routing (src/naming/cluster/node_manage.rs, model.rs):
`InnerNodeManage::get_current_process_range`, `ProcessRange::is_range`, `NodeManage::route_addr`.
A view is the `all_nodes` BTreeMap in key order; `valid` is `status == Valid`.
-/
namespace RNacos.Distro

structure Node where
  id : Nat
  valid : Bool
  deriving Repr, DecidableEq

abbrev View := List Node

/-- `ClusterInnerNode::is_valid` as seen by the node whose id is `loc` -/
def isValidFor (loc : Nat) (n : Node) : Bool := n.id == loc || n.valid

/-- `Iterator::position(p).unwrap_or_default()` -/
def positionOf (p : Node → Bool) (l : List Node) : Nat :=
  if l.any p then l.findIdx p else 0

/-- `get_current_process_range` : (index, len) — the index of the local node is counted among the
nodes that are valid for it, the length is their number. -/
def ownerRange (v : View) (loc : Nat) : Nat × Nat :=
  if v.isEmpty then (0, 1)
  else
    let vs := v.filter (isValidFor loc)
    (positionOf (fun n => n.id == loc) vs, vs.length)

/-- `ProcessRange::is_range` -/
def isRange (r : Nat × Nat) (h : Nat) : Bool := r.2 < 2 || h % r.2 == r.1

/-- `get_all_valid_nodes`: `status == Valid`, in key order -/
def validNodes (v : View) : List Node := v.filter (·.valid)

/-- `route_addr`: the id of the node an HTTP write with hash `h` is routed to (`none` = `Local(0)` on an
empty valid list, i.e. handled locally). -/
def route (v : View) (h : Nat) : Option Nat :=
  let vs := validNodes v
  if vs.isEmpty then none else (vs[h % vs.length]?).map (·.id)

end RNacos.Distro
