/-
Model of distro ownership and routing (src/naming/cluster/node_manage.rs, model.rs):
`InnerNodeManage::get_current_process_range`, `ProcessRange::is_range`, `NodeManage::route_addr`.
A view is the `all_nodes` BTreeMap in key order; `valid` is `status == Valid`.
-/
namespace RNacos.Distro

structure Node where
  id : Nat
  valid : Bool
  deriving Repr, DecidableEq

abbrev View := List Node

/-- `ClusterInnerNode::is_valid` as seen by the node whose id is `loc` -/
def isValidFor (loc : Nat) (n : Node) : Bool := n.id == loc || n.valid

/-- `Iterator::position(p).unwrap_or_default()` -/
def positionOf (p : Node → Bool) (l : List Node) : Nat :=
  if l.any p then l.findIdx p else 0

/-- `get_current_process_range` : (index, len) — the index of the local node is counted among the
nodes that are valid for it, the length is their number. -/
def ownerRange (v : View) (loc : Nat) : Nat × Nat :=
  if v.isEmpty then (0, 1)
  else
    let vs := v.filter (isValidFor loc)
    (positionOf (fun n => n.id == loc) vs, vs.length)

/-- `ProcessRange::is_range` -/
def isRange (r : Nat × Nat) (h : Nat) : Bool := r.2 < 2 || h % r.2 == r.1

/-- `get_all_valid_nodes`: `status == Valid`, in key order -/
def validNodes (v : View) : List Node := v.filter (·.valid)

/-- `route_addr`: the id of the node an HTTP write with hash `h` is routed to (`none` = `Local(0)` on an
empty valid list, i.e. handled locally). -/
def route (v : View) (h : Nat) : Option Nat :=
  let vs := validNodes v
  if vs.isEmpty then none else (vs[h % vs.length]?).map (·.id)

end RNacos.Distro

namespace RNacos.Distro

/-- `InnerNodeManage` as a state machine: the owner range is cached and recomputed by `update_nodes`
and by every `check_node_status` tick (3 s), not when a node reports in (`ActiveNode`). -/
structure NM where
  view : View
  loc : Nat
  range : Nat × Nat
  deriving Repr

/-- `check_node_status`: non-local valid nodes that timed out become invalid; the range is recomputed -/
def NM.tick (m : NM) (timedOut : Nat → Bool) : NM :=
  let v := m.view.map fun n => if n.id != m.loc && n.valid && timedOut n.id then { n with valid := false } else n
  { m with view := v, range := ownerRange v m.loc }

/-- `active_node`: the node counts as valid again; the cached range is left alone until the next tick -/
def NM.active (m : NM) (id : Nat) : NM :=
  { m with view := m.view.map fun n => if n.id == id then { n with valid := true } else n }

end RNacos.Distro
