import RNacos.Base.AssocList
/-
Models of the three sequence mechanisms (C19):
  * `SeqDb`      – `SequenceDbManager` (src/sequence/core.rs): replicated next-free counters
  * `SeqGroup`   – `SeqGroup`/`SeqRange` double buffer (src/sequence/model.rs)
  * `SimpleSeq`  – `SimpleSequence` (src/common/sequence_utils.rs): config history ids + high-water mark
-/
namespace RNacos.Sequence

/-! ## SequenceDbManager -/

abbrev SeqDb := List (String × Nat)

inductive DbOp where
  | nextId (k : String)
  | nextRange (k : String) (step : Nat)
  | setId (k : String) (v : Nat)
  | removeId (k : String)
  deriving Repr, DecidableEq

/-- the value that the next `NextId`/`NextRange` on `k` will return -/
def SeqDb.next (db : SeqDb) (k : String) : Nat := (AL.get? db k).getD 1

/-- one replicated request: new state and (start, len) of the ids handed out (len 0 = none) -/
def SeqDb.step (db : SeqDb) : DbOp → SeqDb × Nat × Nat
  | .nextId k => (AL.set db k (db.next k + 1), db.next k, 1)
  | .nextRange k step => (AL.set db k (db.next k + step), db.next k, step)
  | .setId k v => (AL.set db k v, 0, 0)
  | .removeId k => (AL.erase db k, 0, 0)

/-- run a log of requests; the trace records (key, start, len) of every hand-out -/
def SeqDb.run (db : SeqDb) : List DbOp → SeqDb × List (String × Nat × Nat)
  | [] => (db, [])
  | op :: rest =>
    let (db1, s, l) := db.step op
    let (db2, tr) := SeqDb.run db1 rest
    let key := match op with
      | .nextId k => k | .nextRange k _ => k | .setId k _ => k | .removeId k => k
    (db2, if l = 0 then tr else (key, s, l) :: tr)

/-! ## SeqRange / SeqGroup -/

structure SeqRange where
  start : Nat
  len : Nat
  cur : Nat
  deriving Repr, DecidableEq

def SeqRange.hasNext (r : SeqRange) : Bool := r.cur < r.len
def SeqRange.nextId (r : SeqRange) : Option Nat × SeqRange :=
  if r.cur ≥ r.len then (none, r) else (some (r.start + r.cur), { r with cur := r.cur + 1 })

structure SeqGroup where
  a : SeqRange
  b : SeqRange
  useA : Bool
  adding : Bool
  deriving Repr, DecidableEq

def SeqGroup.new : SeqGroup := ⟨⟨0, 0, 0⟩, ⟨0, 0, 0⟩, false, false⟩

def SeqGroup.doNext (g : SeqGroup) : Option Nat × SeqGroup :=
  if g.useA then
    let (v, a') := g.a.nextId; (v, { g with a := a' })
  else
    let (v, b') := g.b.nextId; (v, { g with b := b' })

/-- `SeqGroup::next_id`: try the current range, switch once, try again -/
def SeqGroup.nextId (g : SeqGroup) : Option Nat × SeqGroup :=
  match g.doNext with
  | (some v, g') => (some v, g')
  | (none, g') => ({ g' with useA := !g'.useA }).doNext

/-- `SeqGroup::apply_range` -/
def SeqGroup.applyRange (g : SeqGroup) (start len : Nat) : SeqGroup :=
  if (g.useA && !g.a.hasNext) || (!g.useA && g.b.hasNext) then
    { g with a := ⟨start, len, 0⟩ }
  else { g with b := ⟨start, len, 0⟩ }

def SeqGroup.needApply (g : SeqGroup) : Bool :=
  if g.adding then false else (!g.a.hasNext || !g.b.hasNext)

inductive GOp where
  | next
  | apply (start len : Nat)
  deriving Repr, DecidableEq

/-- run group ops; the trace is the list of ids handed out, oldest first -/
def SeqGroup.run (g : SeqGroup) : List GOp → SeqGroup × List Nat
  | [] => (g, [])
  | .next :: rest =>
    let (v, g1) := g.nextId
    let (g2, tr) := SeqGroup.run g1 rest
    (g2, match v with | some x => x :: tr | none => tr)
  | .apply s l :: rest => SeqGroup.run (g.applyRange s l) rest

/-! ## SimpleSequence and its replication through `history_table_id` -/

structure SimpleSeq where
  cache : Nat
  batch : Nat
  last : Nat
  deriving Repr, DecidableEq

def SimpleSeq.new (last batch : Nat) : SimpleSeq := ⟨0, batch, last⟩
def SimpleSeq.setLastId (s : SimpleSeq) (v : Nat) : SimpleSeq := { s with last := v, cache := 0 }
def SimpleSeq.setValidLastId (s : SimpleSeq) (v : Nat) : SimpleSeq :=
  if s.last + s.cache < v then { s with last := v, cache := 0 } else s
def SimpleSeq.endId (s : SimpleSeq) : Nat := s.last + s.cache

/-- `next_state`: (id, optional high-water mark to replicate), new state -/
def SimpleSeq.nextState (s : SimpleSeq) : (Nat × Option Nat) × SimpleSeq :=
  if s.cache = 0 then
    ((s.last + 1, some (s.last + s.batch)), { s with cache := s.batch - 1, last := s.last + 1 })
  else ((s.last + 1, none), { s with cache := s.cache - 1, last := s.last + 1 })

/-- `next_section(n)`: [start,end] and new state -/
def SimpleSeq.nextSection (s : SimpleSeq) (n : Nat) : (Nat × Nat) × SimpleSeq :=
  if n = 0 then ((0, 0), s)
  else ((s.last + 1, s.last + n), { s with last := s.last + n, cache := 0 })

/-- cluster-level use in `ConfigActor`: the node that is leader draws an id; the mark (when a new
block is opened) travels with the committed request and is applied by **every** node
(`set_valid_last_id`), the leader included.  `restart i` = snapshot (`get_end_id`) + reload
(`set_last_id`). -/
inductive COp where
  | issue (leader : Nat)
  | restart (node : Nat)
  deriving Repr, DecidableEq

def applyMark (m : Option Nat) (s : SimpleSeq) : SimpleSeq :=
  match m with
  | some v => s.setValidLastId v
  | none => s

/-- the nodes of a cluster, by node number (every node starts from the same initial sequence) -/
abbrev Cluster := Nat → SimpleSeq

def clusterStep (nodes : Cluster) : COp → Cluster × Option Nat
  | .issue i =>
    let r := (nodes i).nextState
    (fun j => applyMark r.1.2 (if j = i then r.2 else nodes j), some r.1.1)
  | .restart i =>
    (fun j => if j = i then (nodes i).setLastId (nodes i).endId else nodes j, none)

def clusterRun (nodes : Cluster) : List COp → Cluster × List Nat
  | [] => (nodes, [])
  | op :: rest =>
    let r := clusterStep nodes op
    let r2 := clusterRun r.1 rest
    (r2.1, match r.2 with | some x => x :: r2.2 | none => r2.2)

/-! ### restart from a snapshot taken earlier

`build_snapshot` stores `get_end_id()`; a node that restarts loads that value (`InnerSetLastId` → `set_last_id`) and
then replays the committed requests since the snapshot, of which only those that opened a block of ids carry a mark
(`history_table_id`). -/

structure Saved where
  value : Nat                      -- `get_end_id()` at the time of the snapshot
  batch : Nat
  marks : List (Option Nat)        -- marks of the committed requests since, oldest first
  deriving Repr

def Saved.replay (sv : Saved) : SimpleSeq :=
  sv.marks.foldl (fun st m => applyMark m st) ⟨0, sv.batch, sv.value⟩

structure Cluster2 where
  nodes : Cluster
  saved : Nat → Option Saved

inductive COp2 where
  | issue (leader : Nat)
  | restart (node : Nat)           -- snapshot now + reload
  | snapshot (node : Nat)          -- the node compacts: the snapshot it will restart from
  | restartSaved (node : Nat)      -- restart from that snapshot + replay of the log since
  deriving Repr, DecidableEq

def cluster2Step (c : Cluster2) : COp2 → Cluster2 × Option Nat
  | .issue i =>
    let r := clusterStep c.nodes (.issue i)
    let mark := ((c.nodes i).nextState).1.2
    ({ nodes := r.1, saved := fun j => (c.saved j).map fun sv => { sv with marks := sv.marks ++ [mark] } }, r.2)
  | .restart i => ({ c with nodes := (clusterStep c.nodes (.restart i)).1 }, none)
  | .snapshot i =>
    ({ c with saved := fun j => if j = i then some ⟨(c.nodes i).endId, (c.nodes i).batch, []⟩ else c.saved j }, none)
  | .restartSaved i =>
    match c.saved i with
    | none => (c, none)
    | some sv => ({ c with nodes := fun j => if j = i then sv.replay else c.nodes j }, none)

def cluster2Run (c : Cluster2) : List COp2 → Cluster2 × List Nat
  | [] => (c, [])
  | op :: rest =>
    let r := cluster2Step c op
    let r2 := cluster2Run r.1 rest
    (r2.1, match r.2 with | some x => x :: r2.2 | none => r2.2)

end RNacos.Sequence
