import RNacos.Model.Varint
/-
Model of `MessageBufReader` (src/common/protobuf_utils.rs:145-235) and of the consumer loops
that sit on top of it:
  * `drainAll`   – "append a chunk, take messages until None" (snapshot reader, transfer reader,
                   metadata repository, `read_records`)
  * `scanCount`  – `LogInnerManager::move_to_index_by_count` (external `is_empty` test)
The buffer is byte exact: stale bytes survive `append_next_buf`'s shift-down.
-/
namespace RNacos.BufReader
open RNacos.Varint

structure BufReader where
  buf : List Nat
  start : Nat
  end_ : Nat
  nextLen : Nat
  deriving Repr, DecidableEq

/-- `MessageBufReader::new` (capacity constant: `vec![0u8; 1024]`). -/
def new (cap : Nat := 1024) : BufReader := ⟨List.replicate cap 0, 0, 0, 0⟩

/-- `MessageBufReader::new_with_data` (`end - start` is a `usize` subtraction: `start ≤ len` assumed). -/
def newWithData (buf : List Nat) (start : Nat) : BufReader :=
  ⟨buf, start, buf.length, buf.length - start⟩

/-- The unread window `buf[start..end]`. -/
def window (r : BufReader) : List Nat := (r.buf.drop r.start).take (r.end_ - r.start)

/-- `is_empty`: an empty window is not an end marker (whether the stream has ended is not known
yet); otherwise the first unread byte decides. -/
def isEmpty (r : BufReader) : Bool :=
  if r.start ≥ r.end_ then false else r.buf.getD r.start 0 == 0

/-- `capacity_expansion` loop of `append_next_buf` (fuel = an upper bound on the doublings). -/
def expand : Nat → List Nat → Nat → Nat → List Nat
  | 0, buf, _, _ => buf
  | f + 1, buf, e, n =>
    if buf.length - e < n then expand f (buf ++ List.replicate buf.length 0) e n else buf

/-- `append_next_buf`: shift the buffer down by `start` (positions past `len - start` keep their old
bytes), grow by doubling, copy the chunk at `end`. -/
def appendNextBuf (r : BufReader) (next : List Nat) : BufReader :=
  let moved := r.buf.drop r.start ++ r.buf.drop (r.buf.length - r.start)
  let e := r.end_ - r.start
  let grown := expand (e + next.length) moved e next.length
  let buf' := grown.take e ++ next ++ grown.drop (e + next.length)
  { buf := buf', start := 0, end_ := e + next.length, nextLen := r.nextLen }

/-- `next_message_vec`: returns the whole frame (length prefix + body). -/
def nextMessageVec (r : BufReader) : Option (List Nat) × BufReader :=
  if isEmpty r then (none, r)
  else
    let w := window r
    match vlen w with
    | none => (none, r)
    | some k =>
      let nl := match vreadGo 10 w with
        | .ok s => k + s % 2 ^ 64
        | .error _ => r.nextLen
      if w.length ≥ nl then
        (some (w.take nl), { r with start := r.start + nl, nextLen := 0 })
      else (none, { r with nextLen := nl })

/-- `while let Some(v) = reader.next_message_vec()`; `fuel` bounds the iterations (a malformed
varint of more than 10 bytes makes the real loop spin on empty slices: reported as `hung`). -/
def takeAll : Nat → BufReader → List (List Nat) → (List (List Nat) × BufReader × Bool)
  | 0, r, acc => (acc.reverse, r, true)
  | f + 1, r, acc =>
    match nextMessageVec r with
    | (none, r') => (acc.reverse, r', false)
    | (some v, r') => takeAll f r' (v :: acc)

/-- The reader pattern of snapshot/transfer/meta files and `read_records` without a count limit:
for every chunk, append it and take every complete message. -/
def drainAll : BufReader → List (List Nat) → List (List Nat) × BufReader × Bool
  | r, [] => ([], r, false)
  | r, ch :: rest =>
    let r1 := appendNextBuf r ch
    let (ms, r2, hung) := takeAll (r1.end_ - r1.start + 1) r1 []
    if hung then (ms, r2, true)
    else
      let (ms', r3, h') := drainAll r2 rest
      (ms ++ ms', r3, h')

/-- inner loop of `move_to_index_by_count`: counts messages, stops at `count`.
returns (bytes consumed, messages counted, reader, reachedCount, hung) -/
def scanInner : Nat → BufReader → Nat → Nat → Nat → (Nat × Nat × BufReader × Bool × Bool)
  | 0, r, cur, c, _ => (cur, c, r, false, true)
  | f + 1, r, cur, c, count =>
    match nextMessageVec r with
    | (none, r') => (cur, c, r', false, false)
    | (some v, r') =>
      if c + 1 == count then (cur + v.length, c + 1, r', true, false)
      else scanInner f r' (cur + v.length) (c + 1) count

/-- `move_to_index_by_count` over the chunks the file delivers from `data_cursor` on (an empty
list = `read_len == 0`). Returns (bytes advanced, messages counted, hung). -/
def scanCount : BufReader → List (List Nat) → Nat → Nat → Nat → (Nat × Nat × Bool)
  | _, [], cur, c, _ => (cur, c, false)
  | r, ch :: rest, cur, c, count =>
    let r1 := appendNextBuf r ch
    match scanInner (r1.end_ - r1.start + 1) r1 cur c count with
    | (cur', c', r2, reached, hung) =>
      if hung then (cur', c', true)
      else if reached then (cur', c', false)
      else if isEmpty r2 then (cur', c', false)
      else scanCount r2 rest cur' c' count

end RNacos.BufReader

