/-
Model of the namespace privilege group, src/common/model/privilege.rs and src/user/model.rs:
`PrivilegeGroup::{check_permission, check_option_value_permission, at_whitelist, at_blacklist}`,
`NamespacePrivilegeGroup::check_permission` (default-namespace mapping) and
`UserDo::build_namespace_privilege` (a group that is not enabled restricts nothing).
Namespace ids are strings as byte lists.
-/
namespace RNacos.Privilege

abbrev Ns := List Nat

/-- the stored group: flags and lists of the user record -/
structure Stored where
  enabled : Bool
  whitelistIsAll : Bool
  blacklistIsAll : Bool
  whitelist : List Ns
  blacklist : List Ns
  deriving DecidableEq, Repr

/-- the group a session carries -/
structure Group where
  whitelistIsAll : Bool
  whitelist : Option (List Ns)
  blacklistIsAll : Bool
  blacklist : Option (List Ns)
  deriving DecidableEq, Repr

/-- `PrivilegeGroup::all()` -/
def Group.all : Group := ⟨true, none, false, none⟩

/-- `UserDo::build_namespace_privilege`: only an enabled group restricts -/
def build (s : Stored) : Group :=
  if s.enabled then ⟨s.whitelistIsAll, some s.whitelist, s.blacklistIsAll, some s.blacklist⟩ else Group.all

def Group.atWhitelist (g : Group) (k : Ns) : Bool :=
  g.whitelistIsAll || (match g.whitelist with | some l => l.contains k | none => false)

def Group.atBlacklist (g : Group) (k : Ns) : Bool :=
  g.blacklistIsAll || (match g.blacklist with | some l => l.contains k | none => false)

/-- `PrivilegeGroup::check_permission` -/
def Group.checkRaw (g : Group) (k : Ns) : Bool := g.atWhitelist k && !g.atBlacklist k

/-- "public" -/
def publicName : Ns := [112, 117, 98, 108, 105, 99]

/-- `is_default_namespace`: empty or "public" -/
def isDefault (k : Ns) : Bool := k == [] || k == publicName

/-- the name under which the default namespace appears in privilege lists (`DEFAULT_NAMESPACE_ARC_STRING` = "") -/
def canon (k : Ns) : Ns := if isDefault k then [] else k

/-- `NamespacePrivilegeGroup::check_permission` -/
def Group.check (g : Group) (k : Ns) : Bool := g.checkRaw (canon k)

/-- `NamespacePrivilegeGroup::check_option_value_permission` -/
def Group.checkOpt (g : Group) (k : Option Ns) (emptyDefault : Bool) : Bool :=
  match k with
  | some k => g.check k
  | none => emptyDefault

/-! ## how a user's group is stored and changed (src/user/mod.rs `UserManager::{add_user, update_user}`) -/

/-- `PrivilegeGroupOptionParam` as the console sends it: every field may be absent -/
structure Param where
  whitelistIsAll : Option Bool := none
  whitelist : Option (List Ns) := none
  blacklistIsAll : Option Bool := none
  blacklist : Option (List Ns) := none
  deriving DecidableEq, Repr

/-- `add_user`: starts from `PrivilegeGroup::all()` (enabled, whitelist-is-all), takes both lists from the parameter (an
absent list is stored empty) and the flags that are given -/
def addUser : Option Param → Stored
  | none => ⟨true, true, false, [], []⟩
  | some p => ⟨true, p.whitelistIsAll.getD true, p.blacklistIsAll.getD false, p.whitelist.getD [], p.blacklist.getD []⟩

/-- `update_user`: without a parameter nothing changes; with one, the stored group is rebuilt
(`build_namespace_privilege`), enabled, and every field that is given replaces the stored one - also an empty list -/
def updateUser (s : Stored) : Option Param → Stored
  | none => s
  | some p =>
    let g := build s
    ⟨true, p.whitelistIsAll.getD g.whitelistIsAll, p.blacklistIsAll.getD g.blacklistIsAll,
      ((p.whitelist.orElse fun _ => g.whitelist).getD []), ((p.blacklist.orElse fun _ => g.blacklist).getD [])⟩

end RNacos.Privilege
