import RNacos.Gen.Tables
/-
Models of the three authentication / authorisation decisions, over the generated tables:
  * OpenAPI  `ApiCheckAuthMiddleware::call`      (src/openapi/middle/auth_middle.rs)
  * gRPC     `InvokerHandler::handle`            (src/grpc/handler/mod.rs) + `fill_token_session`
  * console  `CheckLoginMiddleware::call` + `UserRole::match_url_by_roles` (login_middle.rs, permission.rs)
Strings are byte lists.
-/
namespace RNacos.Auth

abbrev Str := List Nat

/-- ASCII lower-casing, what `(?i)` means for the ASCII literals in these patterns -/
def lowerB (b : Nat) : Nat := if 65 ≤ b ∧ b ≤ 90 then b + 32 else b

def isPrefixCI : Str → Str → Bool
  | [], _ => true
  | _ :: _, [] => false
  | a :: as, b :: bs => lowerB a == lowerB b && isPrefixCI as bs

/-- unanchored, case-insensitive literal search (`Regex::is_match` of `(?i)<lit>.*`) -/
def containsCI (needle : Str) : Str → Bool
  | [] => needle.isEmpty
  | b :: bs => isPrefixCI needle (b :: bs) || containsCI needle bs

/-! ## OpenAPI -/

/-- `is_check_path` when auth is enabled -/
def openapiIsCheckPath (path : Str) : Bool :=
  (Gen.openapiNeedles.any fun n => containsCI n path) && !Gen.openapiIgnorePath.contains path

inductive Outcome where
  | pass
  | forbid
  deriving Repr, DecidableEq

/-- the middleware's verdict; `sessionOf token` = the cache lookup (`none` for unknown/expired tokens) -/
def openapiDecide (enableAuth : Bool) (path : Str) (token : Str) (hasSession : Str → Bool) : Outcome :=
  if !enableAuth || !openapiIsCheckPath path then .pass
  else if token.isEmpty then .forbid
  else if hasSession token then .pass else .forbid

def hexVal (b : Nat) : Option Nat :=
  if 48 ≤ b ∧ b ≤ 57 then some (b - 48)
  else if 97 ≤ b ∧ b ≤ 102 then some (b - 87)
  else if 65 ≤ b ∧ b ≤ 70 then some (b - 55)
  else none

/-- `actix_router::Quoter::requote` with the default protected set `%/+`: every valid `%XX` is decoded
except those that decode to `%`, `/` or `+`.  This is the path the router matches and
(`request.match_info().as_str()`) the path the middleware decides on. -/
def requote : Str → Str
  | [] => []
  | [a] => [a]
  | [a, b] => [a, b]
  | c :: a :: b :: rest =>
    if c == 37 then
      match hexVal a, hexVal b with
      | some x, some y =>
        let ch := x * 16 + y
        if ch == 37 || ch == 47 || ch == 43 then c :: requote (a :: b :: rest)
        else ch :: requote rest
      | _, _ => c :: requote (a :: b :: rest)
    else c :: requote (a :: b :: rest)

/-- the verdict for the raw request path as it arrives on the wire -/
def openapiDecideRaw (enableAuth : Bool) (rawPath : Str) (token : Str) (hasSession : Str → Bool) : Outcome :=
  openapiDecide enableAuth (requote rawPath) token hasSession

/-- where the token comes from: Authorization header (a `Bearer ` scheme is stripped by the caller of
this model: the value given here is the final token), else the accessToken header, else the query
parameter, else – unless GET – the form body. -/
def openapiToken (authHeader accessHeader query body : Option Str) (isGet : Bool) : Str :=
  match authHeader with
  | some t => t
  | none =>
    match accessHeader with
    | some t => t
    | none =>
      match query with
      | some t => t
      | none => if isGet then [] else body.getD []

/-! ## gRPC -/

inductive GrpcOutcome where
  | serverCheck        -- answered without touching data
  | forbidden403
  | clusterTokenInvalid500
  | dispatched         -- reaches the handler of this type (or "not found" for an unknown type)
  deriving Repr, DecidableEq

/-- the branch that compares the cluster token -/
def grpcClusterBranch (clusterTokenCfg : Str) (clusterHeader : Option Str) : Bool × Bool :=
  if !clusterTokenCfg.isEmpty then
    (false, match clusterHeader with | some c => c == clusterTokenCfg | none => false)
  else (false, false)

/-- `fill_token_session`: a user token is looked up only when auth is on **and** a token header is
present; the cluster token is compared only otherwise. Returns (hasSession, clusterTokenValid). -/
def grpcFill (enableAuth : Bool) (userToken : Option Str) (hasSession : Str → Bool)
    (clusterTokenCfg : Str) (clusterHeader : Option Str) : Bool × Bool :=
  match enableAuth, userToken with
  | true, some t =>
    -- a token header that is present but empty counts as absent (`!token.is_empty()`)
    if t.isEmpty then grpcClusterBranch clusterTokenCfg clusterHeader else (hasSession t, false)
  | _, _ => grpcClusterBranch clusterTokenCfg clusterHeader

def grpcDecide (enableAuth : Bool) (clusterTokenCfg : Str) (url : Str) (hasSession clusterValid : Bool) :
    GrpcOutcome :=
  if url == Gen.grpcServerCheck then .serverCheck
  else if enableAuth && !Gen.grpcIgnoreAuth.contains url && !hasSession then .forbidden403
  else if !clusterTokenCfg.isEmpty && Gen.grpcCluster.contains url && !clusterValid then .clusterTokenInvalid500
  else .dispatched

/-! ## console -/

/-- `STATIC_FILE_PATH.is_match(path)`: somewhere a `.` followed by one of the extensions (any case) -/
def isStaticPath : Str → Bool
  | [] => false
  | b :: bs => (b == 46 && Gen.consoleStaticExts.any fun e => isPrefixCI e bs) || isStaticPath bs

def consoleIsCheckPath (path : Str) : Bool :=
  !Gen.consoleIgnoreLogin.contains path && !isStaticPath path

/-- `PathResource::match_url` -/
def resMatch (res : Str × Str) (path method : Str) : Bool :=
  let matchMethod := res.2 == Gen.methodAll || res.2 == method
  if path.isEmpty then matchMethod && (res.1.isEmpty || res.1 == [47])
  else matchMethod && (res.1.isEmpty || res.1 == path)

def lookup (tbl : List (Str × α)) (k : Str) : Option α := (tbl.find? (·.1 == k)).map (·.2)

/-- path resources of a group = union over its modules -/
def groupResources (g : Str) : List (Str × Str) :=
  ((lookup Gen.permGroups g).getD []).flatMap fun m => (lookup Gen.permModules m).getD []

/-- `UserRole::new(v).match_url` -/
def roleMatch (roleValue : Str) (path method : Str) : Bool :=
  ((lookup Gen.permRoles roleValue).getD []).any fun g => (groupResources g).any fun r => resMatch r path method

/-- `UserRole::match_url_by_roles` -/
def rolesMatch (roles : List Str) (path method : Str) : Bool := roles.any fun r => roleMatch r path method

inductive ConsoleOutcome where
  | served
  | noLogin
  | noPermission
  deriving Repr, DecidableEq

/-- `CheckLoginMiddleware::call`; `session` = roles of the session the token resolves to -/
def consoleDecide (path method : Str) (token : Str) (session : Str → Option (List Str)) : ConsoleOutcome :=
  if !consoleIsCheckPath path then .served
  else if token.isEmpty then .noLogin
  else match session token with
    | none => .noLogin
    | some roles => if rolesMatch roles path method then .served else .noPermission

end RNacos.Auth
