import RNacos.Model.Varint
import RNacos.Model.FileReader
import RNacos.Model.IndexFile
import RNacos.Spec.Stream
/-
Model of one Raft log file, `LogInnerManager` in src/raft/filestore/raftlog/mod.rs:
32-byte header, varint index area up to `data_area_index` (4096), then the length-prefixed `LogRecord`
stream, zero padded (the file is pre-allocated in 1 MB steps).

The file is a byte list holding the explicitly written prefix; everything between its end and `fileLen`
is zero (pre-allocation by `set_len`).  The 1024-byte chunked readers (`MessageBufReader` fed by
`file.read`) are modelled by the whole-stream parse `specDecode`; that the chunked reader computes the
same for every chunking of a well-formed stream is C20's theorem (`drain_any_chunking`,
`scan_any_chunking`), and the composite is exercised by the correspondence check.
-/
namespace RNacos.LogFile
open RNacos.Varint RNacos.FileReader RNacos.Spec.Stream
open RNacos.IndexFile (pVarint pBytes writeAt be8 unbe8)

structure Rec where
  index : Nat
  term : Nat
  value : List Nat
  deriving DecidableEq, Repr, Inhabited

/-- quick-protobuf `LogRecord::write_message`: zero scalars and the empty value are omitted -/
def recBody (r : Rec) : List Nat :=
  pVarint 8 r.index ++ pVarint 16 r.term ++ (if r.value.isEmpty then [] else pBytes 42 r.value)

/-- one protobuf field of a record body -/
inductive RField where
  | v (tag val : Nat)
  | b (tag : Nat) (bytes : List Nat)

/-- `LogRecord::from_reader`: tags 8, 16, 42; unknown fields are skipped by wire type
(0 varint, 1 fixed64, 2 length-delimited, 5 fixed32; groups are an error) -/
def parseRec : Nat → List Nat → Option (List RField)
  | 0, bs => if bs.isEmpty then some [] else none
  | f + 1, bs =>
    if bs.isEmpty then some [] else
    match vlen bs, vreadGo 10 bs with
    | some k, .ok tag =>
      let rest := bs.drop k
      if tag % 8 = 0 then
        match vlen rest, vreadGo 10 rest with
        | some k2, .ok val => (parseRec f (rest.drop k2)).map (RField.v tag val :: ·)
        | _, _ => none
      else if tag % 8 = 2 then
        match vlen rest, vreadGo 10 rest with
        | some k2, .ok len =>
          let body := (rest.drop k2).take len
          if body.length < len then none
          else (parseRec f (rest.drop (k2 + len))).map (RField.b tag body :: ·)
        | _, _ => none
      else if tag % 8 = 1 then
        if rest.length < 8 then none else parseRec f (rest.drop 8)
      else if tag % 8 = 5 then
        if rest.length < 4 then none else parseRec f (rest.drop 4)
      else none
    | _, _ => none

def lastV (fs : List RField) (tag : Nat) : Nat :=
  (fs.filterMap fun f => match f with | .v t v => if t = tag then some v else none | _ => none).getLast?.getD 0

def lastB (fs : List RField) (tag : Nat) : List Nat :=
  (fs.filterMap fun f => match f with | .b t b => if t = tag then some b else none | _ => none).getLast?.getD []

def decRec (body : List Nat) : Option Rec :=
  (parseRec body.length body).map fun fs => ⟨lastV fs 8 % 2 ^ 64, lastV fs 16 % 2 ^ 64, lastB fs 42⟩

/-- `read_message`: a frame is its own length prefix followed by the body -/
def decFrame (fr : List Nat) : Option Rec :=
  match vlen fr, vreadGo 10 fr with
  | some k, .ok n => decRec ((fr.drop k).take n)
  | _, _ => none

structure Idx where
  logIndex : Nat
  fileIndex : Nat
  deriving DecidableEq, Repr, Inhabited

inductive Mark where
  | success | successToEnd | failure | indexEqualError
  deriving DecidableEq, Repr

structure LogFile where
  bytes : List Nat
  fileLen : Nat
  firstIndex : Nat          -- header.first_index
  hdrTerm : Nat             -- header.last_term
  interval : Nat            -- header.index_interval
  areaEnd : Nat             -- header.data_area_index
  indexs : List Idx
  startIndex : Nat
  indexCursor : Nat
  dataCursor : Nat
  msgCount : Nat
  lastTerm : Nat
  curCount : Nat
  splitOff : Nat
  pos : Nat                 -- position of the `data_file` handle
  needSeek : Bool
  deriving Repr, Inhabited

def dataStart : Nat := 4096
def allocStep : Nat := 1048576

def beN (w n : Nat) : List Nat := (List.range w).reverse.map fun i => n / 256 ^ i % 256
def unbeN (bs : List Nat) : Nat := bs.foldl (fun acc b => acc * 256 + b) 0

/-- `LogIndexHeaderDo` written big endian by binrw: 32 bytes -/
def header (lastTerm firstIndex interval areaEnd : Nat) : List Nat :=
  beN 4 0x42313644 ++ beN 2 0 ++ beN 8 lastTerm ++ beN 8 firstIndex ++ beN 2 areaEnd ++ beN 2 interval ++
  beN 2 0 ++ [0, 0, 0, 0]

def lastIdx (f : LogFile) : Idx := f.indexs.getLast?.getD ⟨f.startIndex, dataStart⟩

def endIndex (f : LogFile) : Nat := f.startIndex + f.msgCount

/-- the frames (prefix + body each) found from offset `cursor`, at most `count` of them;
`move_to_index_by_count` (an early return for `count = 0`, else stop at the count, the zero length or the
end of the written bytes) -/
def scanFrames (bytes : List Nat) (cursor count : Nat) : List (List Nat) :=
  let s := bytes.drop cursor
  (specDecode s.length s).take count

/-- (data_cursor, records counted) -/
def moveByCount (bytes : List Nat) (from_ : Idx) (start count : Nat) : Nat × Nat :=
  let fs := scanFrames bytes from_.fileIndex count
  (from_.fileIndex + fs.flatten.length, from_.logIndex - start + fs.length)

/-- `read_indexs` over the index area (the bytes after the 32-byte header, up to offset 4096) -/
def readIndexsGo : Nat → List Nat → Nat → Nat → Nat → Nat → List Idx → List Idx × Nat
  | 0, _, _, off, _, _, acc => (acc.reverse, off)
  | fuel + 1, area, interval, off, li, fi, acc =>
    match vread area off with
    | .ok next =>
      if next = 0 then (acc.reverse, off)
      else
        let li2 := li + interval
        let fi2 := fi + next
        let off2 := off + vsizeof next
        if off2 > area.length - 10 then ((⟨li2, fi2⟩ :: acc).reverse, off2)
        else readIndexsGo fuel area interval off2 li2 fi2 (⟨li2, fi2⟩ :: acc)
    | .error _ => (acc.reverse, off)

def readIndexs (area : List Nat) (start interval : Nat) : List Idx × Nat :=
  readIndexsGo area.length area interval 0 start dataStart [⟨start, dataStart⟩]

/-- `get_start_index`: the last index entry at or below `start` (the first one if none) -/
def startIdx (f : LogFile) (start : Nat) : Idx :=
  ((f.indexs.filter (·.logIndex ≤ start)).getLast?).getD (f.indexs.headD ⟨f.startIndex, dataStart⟩)

/-- `read_records(start, end)`; `none` = the error path (the actor answers with an empty list) -/
def readRecords (f : LogFile) (start stop : Nat) : Option (List Rec) :=
  let s := max start f.splitOff
  let e := min stop (endIndex f)
  if s ≥ e then some []
  else
    let idx := startIdx f s
    -- `FileMessageReader::read_index_position` from the index entry, then the chunked decode
    match readIndexPosition (s - idx.logIndex) ⟨f.bytes, idx.fileIndex⟩ with
    | none => none
    | some ((p, _), _) => (scanFrames f.bytes p (e - s)).mapM decFrame

/-- `LogInnerManager::init` on a file that does not exist yet (or is empty) -/
def create (start preTerm splitOff : Nat) (interval : Nat := 128) (areaEnd : Nat := 4096) : LogFile :=
  { bytes := header preTerm start interval areaEnd ++ List.replicate (dataStart - 32) 0, fileLen := allocStep,
    firstIndex := start, hdrTerm := preTerm, interval := interval, areaEnd := areaEnd,
    indexs := [⟨start, dataStart⟩], startIndex := start, indexCursor := 32, dataCursor := dataStart,
    msgCount := 0, lastTerm := preTerm, curCount := 0, splitOff := max splitOff start,
    pos := dataStart, needSeek := false }

/-- `init` after the end-of-log scan: a kill can separate the record that completes an index step from its index
entry; the entries that are missing are written back (the scan is repeated with the step as its limit) -/
def repairIndex : Nat → LogFile → LogFile
  | 0, f => f
  | fuel + 1, f =>
    if f.interval = 0 ∨ f.msgCount - ((lastIdx f).logIndex - f.startIndex) < f.interval then f
    else
      let mv := moveByCount f.bytes (lastIdx f) f.startIndex f.interval
      let delta := vwrite (mv.1 - (lastIdx f).fileIndex)
      repairIndex fuel { f with bytes := writeAt f.bytes f.indexCursor delta, indexCursor := f.indexCursor + delta.length,
                                indexs := f.indexs ++ [⟨(lastIdx f).logIndex + f.interval, mv.1⟩] }

/-- the end of `init`: the term of the last record, if there is one that is not split off -/
def initTerm (f0 : LogFile) (preTerm : Nat) : LogFile :=
  if f0.msgCount > 0 then
    if max (endIndex f0 - 1) f0.splitOff ≥ endIndex f0 then f0
    else
      match readRecords f0 (endIndex f0 - 1) (endIndex f0) with
      | some rs => { f0 with lastTerm := (rs.getLast?.map (·.term)).getD preTerm, needSeek := true }
      | none => f0   -- an error inside read_records: the handle has moved but the flag is not set
  else f0

/-- `LogInnerManager::init` on an existing file -/
def load (bytes : List Nat) (fileLen start preTerm splitOff : Nat) : LogFile :=
  let head := (bytes ++ List.replicate (dataStart - bytes.length) 0).take dataStart
  let firstIndex := unbeN ((head.drop 14).take 8)
  let hdrTerm := unbeN ((head.drop 6).take 8)
  let areaEnd := unbeN ((head.drop 22).take 2)
  let interval := unbeN ((head.drop 24).take 2)
  let (indexs, off) := readIndexs (head.drop 32) start interval
  let li := indexs.getLast?.getD ⟨start, dataStart⟩
  let (dc, mc) := moveByCount bytes li start 0xffff
  let f0 : LogFile :=
    { bytes := bytes, fileLen := fileLen, firstIndex := firstIndex, hdrTerm := hdrTerm, interval := interval, areaEnd := areaEnd,
      indexs := indexs, startIndex := start, indexCursor := off + 32, dataCursor := dc, msgCount := mc,
      lastTerm := preTerm, curCount := if interval = 0 then 0 else mc % interval,
      splitOff := max splitOff start, pos := dc, needSeek := false }
  initTerm (repairIndex (mc + 1) f0) preTerm

def init (disk : List Nat) (fileLen start preTerm splitOff : Nat) (interval : Nat := 128) (areaEnd : Nat := 4096) :
    LogFile :=
  if fileLen = 0 then create start preTerm splitOff interval areaEnd else load disk fileLen start preTerm splitOff

def isFull (f : LogFile) : Bool := f.indexCursor + 10 ≥ f.areaEnd || f.dataCursor ≥ 2000000000

/-- `write` -/
def write (f : LogFile) (r : Rec) : LogFile × Mark :=
  if isFull f then (f, .failure)
  else if endIndex f ≠ r.index then (f, .indexEqualError)
  else
    let buf := frame (recBody r)
    let fileLen2 := if f.fileLen ≤ f.dataCursor + buf.length then f.fileLen + max buf.length allocStep else f.fileLen
    let p := if f.needSeek then f.dataCursor else f.pos
    let bytes1 := writeAt f.bytes p buf
    let dc := f.dataCursor + buf.length
    let mc := f.msgCount + 1
    let f2 : LogFile :=
      if f.curCount + 1 = f.interval then
        -- the record completes an index step: the offset step since the last index entry is appended
        let delta := vwrite (dc - (lastIdx f).fileIndex)
        { f with bytes := writeAt bytes1 f.indexCursor delta, fileLen := fileLen2, pos := p + buf.length,
                 needSeek := false, dataCursor := dc, curCount := 0, lastTerm := r.term, msgCount := mc,
                 indexCursor := f.indexCursor + delta.length, indexs := f.indexs ++ [⟨mc + f.firstIndex, dc⟩] }
      else
        { f with bytes := bytes1, fileLen := fileLen2, pos := p + buf.length, needSeek := false,
                 dataCursor := dc, curCount := f.curCount + 1, lastTerm := r.term, msgCount := mc }
    (f2, if isFull f2 then .successToEnd else .success)

/-- `get_file_index_by_log_index`: walking the index entries backwards, the entry to restart from, the
bytes of index area to give back and the number of entries to drop -/
def findIdxGo : List Idx → Idx → Nat → Nat → Nat → Option (Idx × Nat × Nat)
  | [], _, _, _, _ => none
  | item :: rest, last, len, pop, k =>
    let changed := item.logIndex ≠ last.logIndex
    let len2 := if changed then len + vsizeof (last.fileIndex - item.fileIndex) else len
    let pop2 := if changed then pop + 1 else pop
    let last2 := if changed then item else last
    if item.logIndex ≤ k then some (item, len2, pop2) else findIdxGo rest last2 len2 pop2 k

def findIdx (f : LogFile) (k : Nat) : Option (Idx × Nat × Nat) :=
  findIdxGo f.indexs.reverse (lastIdx f) 0 0 k

/-- `strip_log_to` up to the point where the file has been cut: index entries dropped and zeroed, the data
cursor moved back by re-scanning from the index entry, the removed records zeroed -/
def stripCore (f : LogFile) (k : Nat) (idx : Idx) (len pop : Nat) : LogFile :=
  let f1 : LogFile :=
    if pop > 0 then
      { f with indexs := f.indexs.take (f.indexs.length - pop), indexCursor := f.indexCursor - len,
               bytes := writeAt f.bytes (f.indexCursor - len) (List.replicate len 0) }
    else f
  let cnt := k - idx.logIndex
  let mv := moveByCount f1.bytes idx f1.startIndex cnt
  { f1 with dataCursor := mv.1, msgCount := mv.2, curCount := cnt, pos := mv.1, lastTerm := f1.hdrTerm,
            bytes := writeAt f1.bytes mv.1 (List.replicate (f.dataCursor - mv.1) 0) }

/-- the end of `strip_log_to`: the term of the last remaining record -/
def refreshTerm (f2 : LogFile) (k : Nat) : LogFile :=
  if f2.msgCount > 0 ∧ max (k - 1) f2.splitOff < min k (endIndex f2) then
    match readRecords f2 (k - 1) k with
    | some rs => { f2 with needSeek := true, lastTerm := (rs.getLast?.map (·.term)).getD f2.hdrTerm }
    | none => f2
  else f2

/-- `strip_log_to`; `none` = error ("not found index") -/
def strip (f : LogFile) (k : Nat) : Option LogFile :=
  if k ≥ endIndex f then some f
  else
    match findIdx f k with
    | none => none
    | some (idx, len, pop) => some (refreshTerm (stripCore f k idx len pop) k)

/-- `get_last_index_info` -/
def lastInfo (f : LogFile) : Nat × Nat := (endIndex f - 1, f.lastTerm)

end RNacos.LogFile
