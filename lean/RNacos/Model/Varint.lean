/-
Model of `src/common/protobuf_utils.rs`: `write_varint64`, `read_varint64_offset`,
`inner_sizeof_varint`.

Bytes are `Nat`s (< 256 wherever they come from the driver or from `vwrite`).
`b & 0x80 == 0` is modelled as `b < 128`, `b & 0x7f` as `b % 128` (equal for bytes).
-/
namespace RNacos.Varint

/-- Outcome classes of `read_varint64_offset`. `oob` is the slice-index panic of the Rust code. -/
inductive VErr where
  | oob
  | tooLong
  deriving Repr, DecidableEq

/-- `write_varint64`: the `while v > 0x7F` loop, with fuel (number of continuation bytes allowed). -/
def vwriteF : Nat → Nat → List Nat
  | 0, v => [v]
  | f + 1, v => if v > 0x7F then (v % 128 + 128) :: vwriteF f (v / 128) else [v]

/-- u64 values need at most 10 bytes, i.e. 9 continuation bytes. -/
def vwrite (v : Nat) : List Nat := vwriteF 9 v

/-- The unrolled read of `read_varint64_offset`: at most `fuel` bytes are looked at; a byte `< 128`
ends the number; running out of bytes is the Rust index panic; running out of fuel is the
"can't read more than 10 bytes" error (the 11th byte is never read). -/
def vreadGo : Nat → List Nat → Except VErr Nat
  | 0, _ => .error .tooLong
  | _ + 1, [] => .error .oob
  | f + 1, b :: rest =>
    if b < 128 then .ok b
    else match vreadGo f rest with
      | .ok r => .ok (b % 128 + 128 * r)
      | .error e => .error e

/-- `read_varint64_offset(bytes, offset)`; the 10th byte's upper bits are silently truncated
(`(r2 as u64) << 56`), i.e. the result is taken modulo 2^64. -/
def vread (bs : List Nat) (off : Nat) : Except VErr Nat :=
  match vreadGo 10 (bs.drop off) with
  | .ok r => .ok (r % 2 ^ 64)
  | .error e => .error e

/-- The range table of `inner_sizeof_varint`, as upper bounds (exclusive) of each arm. -/
def sizeofBounds : List Nat :=
  [0x80, 0x4000, 0x200000, 0x10000000, 0x800000000, 0x40000000000, 0x2000000000000,
   0x100000000000000, 0x8000000000000000]

def sizeofGo : List Nat → Nat → Nat → Nat
  | [], _, n => n
  | b :: bs, v, n => if v < b then n else sizeofGo bs v (n + 1)

/-- `inner_sizeof_varint`. -/
def vsizeof (v : Nat) : Nat := sizeofGo sizeofBounds v 1

/-- Number of bytes of the varint at the head of `bs` (index after the first byte `< 128`),
looking at no more than `bs`. `none` if no terminator byte. -/
def vlen : List Nat → Option Nat
  | [] => none
  | b :: rest => if b < 128 then some 1 else (vlen rest).map (· + 1)

end RNacos.Varint
