import RNacos.Model.Varint
import RNacos.Model.FileReader
/-
Model of the Raft catalogue file `index` (src/raft/filestore/raftindex.rs, model.rs, log.rs):
8-byte big-endian `last_applied_log`, then one length-prefixed protobuf `RaftIndex`, rewritten in place
(never truncated).  The protobuf encoding of `RaftIndex` is modelled field by field (proto3 rules of
quick-protobuf: zero scalars and empty packed lists are omitted).
-/
namespace RNacos.IndexFile
open RNacos.Varint RNacos.FileReader

structure LogRange where
  id : Nat
  preTerm : Nat
  startIndex : Nat
  recordCount : Nat
  splitOff : Nat
  isClose : Bool
  markRemove : Bool
  deriving DecidableEq, Repr, Inhabited

structure SnapRange where
  id : Nat
  endIndex : Nat
  deriving DecidableEq, Repr, Inhabited

structure RaftIdx where
  logs : List LogRange := []
  currentLog : Nat := 0
  snapshots : List SnapRange := []
  lastSnapshot : Nat := 0
  lastSnapIndex : Nat := 0
  lastSnapTerm : Nat := 0
  term : Nat := 0
  vote : Nat := 0
  member : List Nat := []
  memberAfter : List Nat := []
  addrs : List (Nat × List Nat) := []     -- node id -> address bytes
  deriving DecidableEq, Repr, Inhabited

/-! ### protobuf wire format (the part quick-protobuf uses here) -/

def pVarint (tag v : Nat) : List Nat := if v = 0 then [] else vwrite tag ++ vwrite v
def pBool (tag : Nat) (b : Bool) : List Nat := if b then vwrite tag ++ [1] else []
def pBytes (tag : Nat) (bs : List Nat) : List Nat := vwrite tag ++ vwrite bs.length ++ bs
def pPacked (tag : Nat) (vs : List Nat) : List Nat :=
  if vs.isEmpty then [] else pBytes tag (vs.flatMap vwrite)

def encLogRange (r : LogRange) : List Nat :=
  pVarint 8 r.id ++ pVarint 16 r.preTerm ++ pVarint 24 r.startIndex ++ pVarint 32 r.recordCount ++
  pVarint 40 r.splitOff ++ pBool 48 r.isClose ++ pBool 56 r.markRemove

def encSnapRange (r : SnapRange) : List Nat := pVarint 8 r.id ++ pVarint 16 r.endIndex

def encAddr (a : Nat × List Nat) : List Nat :=
  pVarint 8 a.1 ++ (if a.2.isEmpty then [] else pBytes 18 a.2)

def encIdx (r : RaftIdx) : List Nat :=
  (r.logs.flatMap fun l => pBytes 10 (encLogRange l)) ++ pVarint 16 r.currentLog ++
  (r.snapshots.flatMap fun s => pBytes 26 (encSnapRange s)) ++ pVarint 32 r.lastSnapshot ++
  pVarint 40 r.lastSnapIndex ++ pVarint 48 r.lastSnapTerm ++ pVarint 56 r.term ++ pVarint 64 r.vote ++
  pPacked 74 r.member ++ pPacked 82 r.memberAfter ++ (r.addrs.flatMap fun a => pBytes 90 (encAddr a))

/-- one field: (tag, payload) where payload is a varint value or a byte string -/
inductive Field where
  | v (tag : Nat) (val : Nat)
  | b (tag : Nat) (bytes : List Nat)
  deriving Repr

/-- generic field parser (wire types 0 and 2), fuelled by the input length -/
def parseFields : Nat → List Nat → Option (List Field)
  | 0, bs => if bs.isEmpty then some [] else none
  | f + 1, bs =>
    if bs.isEmpty then some [] else
    match vlen bs, vreadGo 10 bs with
    | some k, .ok tag =>
      let rest := bs.drop k
      if tag % 8 = 0 then
        match vlen rest, vreadGo 10 rest with
        | some k2, .ok val => (parseFields f (rest.drop k2)).map (Field.v tag val :: ·)
        | _, _ => none
      else if tag % 8 = 2 then
        match vlen rest, vreadGo 10 rest with
        | some k2, .ok len =>
          let body := (rest.drop k2).take len
          if body.length < len then none
          else (parseFields f (rest.drop (k2 + len))).map (Field.b tag body :: ·)
        | _, _ => none
      else none
    | _, _ => none

def varintList : Nat → List Nat → List Nat
  | 0, _ => []
  | f + 1, bs =>
    if bs.isEmpty then [] else
    match vlen bs, vreadGo 10 bs with
    | some k, .ok v => v :: varintList f (bs.drop k)
    | _, _ => []

def getV (fs : List Field) (tag : Nat) : Nat :=
  (fs.filterMap fun f => match f with | .v t v => if t = tag then some v else none | _ => none).getLast?.getD 0

def decLogRange (bs : List Nat) : Option LogRange :=
  (parseFields bs.length bs).map fun fs =>
    ⟨getV fs 8, getV fs 16, getV fs 24, getV fs 32, getV fs 40, getV fs 48 != 0, getV fs 56 != 0⟩

def decSnapRange (bs : List Nat) : Option SnapRange :=
  (parseFields bs.length bs).map fun fs => ⟨getV fs 8, getV fs 16⟩

def decAddr (bs : List Nat) : Option (Nat × List Nat) :=
  (parseFields bs.length bs).map fun fs =>
    (getV fs 8, (fs.filterMap fun f => match f with | .b t b => if t = 18 then some b else none | _ => none).getLast?.getD [])

/-- later entries for the same node id win (`HashMap::insert`) -/
def addrInsert (m : List (Nat × List Nat)) (a : Nat × List Nat) : List (Nat × List Nat) :=
  m.filter (·.1 != a.1) ++ [a]

def decIdx (bs : List Nat) : Option RaftIdx :=
  match parseFields bs.length bs with
  | none => none
  | some fs =>
    let subs (tag : Nat) : List (List Nat) :=
      fs.filterMap fun f => match f with | .b t b => if t = tag then some b else none | _ => none
    match (subs 10).mapM decLogRange, (subs 26).mapM decSnapRange, (subs 90).mapM decAddr with
    | some logs, some snaps, some addrs =>
      some { logs := logs, currentLog := getV fs 16, snapshots := snaps, lastSnapshot := getV fs 32,
             lastSnapIndex := getV fs 40, lastSnapTerm := getV fs 48, term := getV fs 56, vote := getV fs 64,
             member := (subs 74).flatMap fun b => varintList b.length b,
             memberAfter := (subs 82).flatMap fun b => varintList b.length b,
             addrs := addrs.foldl addrInsert [] }
    | _, _, _ => none

/-! ### the file -/

/-- `id_to_bin`: 8 bytes, big endian -/
def be8 (n : Nat) : List Nat := (List.range 8).reverse.map fun i => n / 256 ^ i % 256

/-- `bin_to_id` -/
def unbe8 (bs : List Nat) : Nat := (bs.take 8).foldl (fun acc b => acc * 256 + b) 0

/-- `seek(off); write_all(data)` on a file held as a byte list (gaps are zero-filled) -/
def writeAt (file : List Nat) (off : Nat) (data : List Nat) : List Nat :=
  let padded := file ++ List.replicate (off - file.length) 0
  padded.take off ++ data ++ padded.drop (off + data.length)

def frame (body : List Nat) : List Nat := vwrite body.length ++ body

structure IndexFile where
  bytes : List Nat
  idx : RaftIdx
  applied : Nat
  deriving Repr, DecidableEq, Inhabited

/-- a file shorter than the 8 header bytes plus the first length byte holds nothing yet -/
def freshLimit : Nat := 8

/-- the record part of the file (everything from offset 8): an all-default index is the single length byte 0;
otherwise `FileMessageReader::read_next` at 8, then `read_message` (length prefix, body) -/
def parseRec (tail : List Nat) : Option RaftIdx :=
  if tail.head? = some 0 then some {} else
  match readLen ⟨tail, 0⟩ with
  | none => none
  | some flen =>
    let buf := tail.take flen
    if buf.length < flen then none
    else
      match vlen buf, vreadGo 10 buf with
      | some k, .ok n => decIdx ((buf.drop k).take n)
      | _, _ => none

/-- `RaftIndexInnerManager::init` with the size up to which the file counts as new;
`none` = the error path (the manager actor stops) -/
def initL (limit : Nat) (bytes : List Nat) : Option IndexFile :=
  if bytes.length ≤ limit then
    some ⟨writeAt bytes 0 (be8 0 ++ frame (encIdx {})), {}, 0⟩
  else
    (parseRec (bytes.drop 8)).map fun idx => ⟨bytes, idx, unbe8 bytes⟩

def init (bytes : List Nat) : Option IndexFile := initL freshLimit bytes

/-- `write_last_applied_log` -/
def IndexFile.writeApplied (f : IndexFile) (n : Nat) : IndexFile :=
  { f with bytes := writeAt f.bytes 0 (be8 n), applied := n }

/-- `write_index` -/
def IndexFile.writeIndex (f : IndexFile) (idx : RaftIdx) : IndexFile :=
  { f with bytes := writeAt f.bytes 8 (frame (encIdx idx)), idx := idx }

/-! ### the mutators of `RaftIndexManager`: read-modify-write of the cached record -/

inductive Op where
  | hardState (term vote : Nat)
  | member (m : List Nat) (after : Option (List Nat)) (addrs : Option (List (Nat × List Nat)))
  | addAddr (id : Nat) (addr : List Nat)
  | logs (l : List LogRange)
  | snapshots (s : List SnapRange)
  | applied (n : Nat)
  deriving Repr

def IndexFile.step (f : IndexFile) : Op → IndexFile
  | .hardState t v => f.writeIndex { f.idx with term := t, vote := v }
  | .member m a ad =>
    f.writeIndex { f.idx with member := m, memberAfter := a.getD f.idx.memberAfter,
                              addrs := match ad with | some x => x.foldl addrInsert [] | none => f.idx.addrs }
  | .addAddr id addr => f.writeIndex { f.idx with addrs := addrInsert f.idx.addrs (id, addr) }
  | .logs l => f.writeIndex { f.idx with logs := l }
  | .snapshots s => f.writeIndex { f.idx with snapshots := s }
  | .applied n => f.writeApplied n

end RNacos.IndexFile
