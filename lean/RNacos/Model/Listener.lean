import RNacos.Model.Config
/-
Model of config change notification (C10): `ConfigListener` (long-polling) and `Subscriber` (gRPC) of
src/config/core.rs / config_subscribe.rs, layered on the `Store` model.

Ghost data: a pending long-poll remembers the (key, md5) items it was registered with — the code does
not store them, the invariant of C10 talks about them.
-/
namespace RNacos.Listener
open RNacos RNacos.Config

/-- a long-poll request that has been registered (`ConfigListener::add`) -/
structure Pending where
  version : Nat
  items : List (Key × String)   -- ghost: what the client holds (md5 tag = content, "" = absent)
  deadline : Int
  deriving Repr, DecidableEq

structure LState where
  version : Nat := 0
  byKey : List (Key × List Nat) := []     -- `listener`
  byTime : List (Int × List Nat) := []    -- `time_listener`, ascending by time
  pending : List Pending := []            -- `sender_map` (live senders), with ghost items
  deriving Repr

structure SubState where
  byKey : List (Key × List String) := []      -- `listener`  : key -> clients
  byClient : List (String × List Key) := []   -- `client_keys`: client -> keys
  deriving Repr

structure CState where
  store : Store := {}
  l : LState := {}
  sub : SubState := {}
  deriving Repr

inductive Out where
  | data (version : Nat) (keys : List Key)     -- ListenerResult::DATA
  | null (version : Nat)                       -- ListenerResult::NULL
  | notify (key : Key) (clients : List String) -- BiStreamManageCmd::NotifyConfig
  | changeKeys (keys : List Key)               -- ConfigResult::ChangeKey (answer to Subscribe)
  deriving Repr, DecidableEq

/-- md5 the store currently has for a key (`""` when the key is absent) -/
def curMd5 (s : Store) (k : Key) : String :=
  match s.get k with
  | some v => v.md5
  | none => ""

/-- the keys of `items` whose held md5 differs from the store's (LISTENER / Subscribe comparison):
present: `v.md5 != item.md5`; absent: `!item.md5.is_empty()` -/
def changed (s : Store) (items : List (Key × String)) : List Key :=
  (items.filter fun it => match s.get it.1 with
    | some v => v.md5 != it.2
    | none => !it.2.isEmpty).map (·.1)

def insertTime (t : Int) (v : Nat) : List (Int × List Nat) → List (Int × List Nat)
  | [] => [(t, [v])]
  | (t', vs) :: rest =>
    if t' = t then (t', vs ++ [v]) :: rest
    else if t < t' then (t, [v]) :: (t', vs) :: rest
    else (t', vs) :: insertTime t v rest

/-- `ConfigListener::add` -/
def LState.add (l : LState) (items : List (Key × String)) (deadline : Int) : LState :=
  let v := l.version + 1
  let byKey := items.foldl (fun acc it =>
    match AL.get? acc it.1 with
    | some vs => AL.set acc it.1 (vs ++ [v])
    | none => AL.set acc it.1 [v]) l.byKey
  { version := v, byKey := byKey, byTime := insertTime deadline v l.byTime,
    pending := l.pending ++ [⟨v, items, deadline⟩] }

/-- `ConfigListener::notify` -/
def LState.notify (l : LState) (k : Key) : LState × List Out :=
  match AL.get? l.byKey k with
  | none => (l, [])
  | some vs =>
    let live := vs.filter fun v => l.pending.any (·.version == v)
    ({ l with byKey := AL.erase l.byKey k,
              pending := l.pending.filter fun p => !(vs.contains p.version) },
     live.eraseDups.map fun v => Out.data v [k])

/-- `ConfigListener::timeout` (at most `cap` time keys are examined per call) -/
def LState.timeout (l : LState) (now : Int) (cap : Nat := 10000) : LState × List Out :=
  let expired := ((l.byTime.take cap).takeWhile fun e => e.1 < now)
  let vs := expired.flatMap (·.2)
  let live := vs.filter fun v => l.pending.any (·.version == v)
  ({ l with byTime := l.byTime.filter fun e => !(expired.any (·.1 == e.1)),
            pending := l.pending.filter fun p => !(vs.contains p.version) },
   live.map Out.null)

/-- `ConfigCmd::LISTENER` -/
def CState.listen (c : CState) (items : List (Key × String)) (deadline : Int) : CState × List Out :=
  let ch := changed c.store items
  if !ch.isEmpty || deadline ≤ 0 then
    -- answered at once on a fresh channel: the version is not consumed; reported with version 0
    (c, [Out.data 0 ch])
  else ({ c with l := c.l.add items deadline }, [])

/-! ### subscriber -/

def setInsert [DecidableEq α] (l : List α) (a : α) : List α := if a ∈ l then l else l ++ [a]

/-- `Subscriber::add_subscribe` -/
def SubState.add (s : SubState) (client : String) (keys : List Key) : SubState :=
  let byKey := keys.foldl (fun acc k => AL.set acc k (setInsert ((AL.get? acc k).getD []) client)) s.byKey
  let old := (AL.get? s.byClient client).getD []
  { byKey := byKey, byClient := AL.set s.byClient client (keys.foldl setInsert old) }

/-- `Subscriber::remove_subscribe` -/
def SubState.remove (s : SubState) (client : String) (keys : List Key) : SubState :=
  let byKey := keys.foldl (fun acc k =>
    match AL.get? acc k with
    | some cs =>
      let cs' := cs.erase client
      if cs'.isEmpty then AL.erase acc k else AL.set acc k cs'
    | none => acc) s.byKey
  let byClient := match AL.get? s.byClient client with
    | some ks =>
      let ks' := ks.filter fun k => !(keys.contains k)
      if ks'.isEmpty then AL.erase s.byClient client else AL.set s.byClient client ks'
    | none => s.byClient
  { byKey := byKey, byClient := byClient }

/-- `Subscriber::remove_client_subscribe` -/
def SubState.removeClient (s : SubState) (client : String) : SubState :=
  match AL.get? s.byClient client with
  | none => s
  | some ks =>
    let byKey := ks.foldl (fun acc k =>
      match AL.get? acc k with
      | some cs =>
        let cs' := cs.erase client
        if cs'.isEmpty then AL.erase acc k else AL.set acc k cs'
      | none => acc) s.byKey
    { byKey := byKey, byClient := AL.erase s.byClient client }

/-- `Subscriber::remove_config_key` -/
def SubState.removeKey (s : SubState) (k : Key) : SubState :=
  match AL.get? s.byKey k with
  | none => s
  | some cs =>
    let byClient := cs.foldl (fun acc c =>
      match AL.get? acc c with
      | some ks =>
        let ks' := ks.erase k
        if ks'.isEmpty then AL.erase acc c else AL.set acc c ks'
      | none => acc) s.byClient
    { byKey := AL.erase s.byKey k, byClient := byClient }

/-- `Subscriber::notify` -/
def SubState.notify (s : SubState) (k : Key) : List Out :=
  match AL.get? s.byKey k with
  | some cs => [Out.notify k cs]
  | none => []

/-! ### the actor's operations -/

inductive Op where
  | publish (p : SetParam)                                  -- applied ConfigAdd
  | remove (k : Key)                                        -- applied ConfigRemove
  | listen (items : List (Key × String)) (deadline : Int)   -- LISTENER
  | tick (now : Int)                                        -- the 500 ms `hb`
  | subscribe (client : String) (items : List (Key × String))
  | unsubscribe (client : String) (keys : List Key)
  | removeClient (client : String)
  | tmp (k : Key) (val : String) (now : Int)                -- SetTmpValue  (outside C10's alphabet)
  | full (k : Key) (content : String) (hist : List Hist) (ctype desc : Option String) (lastId : Option Nat)
  deriving Repr

def CState.step (c : CState) : Op → CState × List Out
  | .publish p =>
    let (st, notif) := c.store.setConfig p
    if notif then
      let (l', o1) := c.l.notify p.key
      ({ c with store := st, l := l' }, o1 ++ c.sub.notify p.key)
    else ({ c with store := st }, [])
  | .remove k =>
    let (l', o1) := c.l.notify k
    ({ store := c.store.delConfig k, l := l', sub := c.sub.removeKey k }, o1 ++ c.sub.notify k)
  | .listen items dl => c.listen items dl
  | .tick now =>
    let (l', o) := c.l.timeout now
    ({ c with l := l' }, o)
  | .subscribe client items =>
    let ch := changed c.store items
    ({ c with sub := c.sub.add client (items.map (·.1)) }, if ch.isEmpty then [] else [Out.changeKeys ch])
  | .unsubscribe client keys => ({ c with sub := c.sub.remove client keys }, [])
  | .removeClient client => ({ c with sub := c.sub.removeClient client }, [])
  | .tmp k v n => ({ c with store := c.store.setTmp k v n }, [])
  | .full k ct h t d l => ({ c with store := c.store.setFull k ct h t d l }, [])

def CState.run (c : CState) : List Op → CState × List Out
  | [] => (c, [])
  | op :: rest =>
    let (c1, o1) := c.step op
    let (c2, o2) := CState.run c1 rest
    (c2, o1 ++ o2)

end RNacos.Listener
