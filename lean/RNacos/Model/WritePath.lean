/-
Model of what a client is told about a configuration write (C06), src/raft/cluster/route.rs `ConfigRoute::{set_config,
del_config}`, src/config/core.rs `Handler<ConfigAsyncCmd>`, src/raft/cluster/mod.rs (the leader's handling of a routed
request).  Whether each `Result` on the way is propagated or dropped is read off the source by the translator
(`RNacos/Gen/WritePath.lean`); the model takes that table as a parameter.
-/
namespace RNacos.WritePath

inductive Route where
  | localLeader       -- this node is the leader
  | remote            -- the request is forwarded to the leader
  | unknown           -- no leader known
  deriving DecidableEq, Repr

/-- what happens to the request -/
structure World where
  committed : Bool      -- did Raft commit the entry (client_write returned Ok)?
  transportOk : Bool    -- did the forwarded request and its answer travel?
  deriving DecidableEq, Repr

/-- propagation flags of the call sites, by role -/
structure Sites where
  raftResult : Bool        -- ConfigAsyncCmd handler + send_raft_request: client_write's result
  localAnswer : Bool       -- ConfigRoute local arm: the actor's answer
  transport : Bool         -- ConfigRoute remote arm: send_request's result
  leaderAnswer : Bool      -- ConfigRoute remote arm: decoding the leader's answer; leader side: the actor's answer
  unknownIsError : Bool
  deriving DecidableEq, Repr

/-- does the actor answer Ok? (a dropped raft result makes every answer Ok) -/
def actorOk (s : Sites) (w : World) : Bool := if s.raftResult then w.committed else true

/-- is the client told "success"? -/
def success (s : Sites) (r : Route) (w : World) : Bool :=
  match r with
  | .localLeader => if s.localAnswer then actorOk s w else true
  | .remote =>
    (if s.transport then w.transportOk else true) &&
    (if s.leaderAnswer then (!w.transportOk || actorOk s w) else true)
  | .unknown => !s.unknownIsError

end RNacos.WritePath
