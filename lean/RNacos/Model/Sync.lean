/-
Message-level model of the naming synchronisation between cluster nodes (C15), src/naming/cluster/
{instance_delay_notify.rs, node_manage.rs, sync}: every node owns the instances registered at it (C14 decides the
owner), queues changes per key for a delayed batch (`ClusterInstanceDelayNotifyActor`: the last change per key wins),
sends the batch to every other node over an ordered stream, and the receiver applies it to its copy of the sender's
instances.  Keys and instances are natural numbers here; a removal is `none`.
-/
namespace RNacos.Sync

abbrev Key := Nat
abbrev Val := Option Nat          -- an instance (its content) or "removed"
abbrev View := Key → Val

structure Change where
  key : Key
  val : Val
  deriving DecidableEq, Repr

def upd (v : View) (c : Change) : View := fun k => if k = c.key then c.val else v k

/-- apply changes in order -/
def applyAll (v : View) (cs : List Change) : View := cs.foldl upd v

/-- what the delayed-notify actor keeps: the last change per key -/
def coalesce : List Change → List Change
  | [] => []
  | c :: rest => if rest.any (·.key == c.key) then coalesce rest else c :: coalesce rest

/-- one ordered pair (owner n, receiver m): the owner's instances, the changes not yet flushed, the batches in
flight (oldest first), the receiver's copy -/
structure Link where
  own : View
  pending : List Change
  inflight : List (List Change)
  copy : View
  beats : List Change := []       -- `beat_instances_map`: queued heartbeats of HTTP instances (flushed every 15 s)

inductive Step where
  | client (c : Change)      -- a registration / deregistration / update arrives at the owner
  | flush                    -- the delay elapses: the pending changes become one batch (coalesced)
  | deliver                  -- the oldest batch in flight is applied by the receiver
  | beat (k : Key)           -- a heartbeat of a registered instance reaches the owner (`UpdateInstanceBeat`)
  | beatFlush                -- the 15 s heartbeat flush: the queued heartbeats become one update batch

def Link.step (l : Link) : Step → Link
  | .client c =>
    -- `delay_notify`: the change is queued and a queued heartbeat of the same instance is discarded
    { l with own := upd l.own c, pending := l.pending ++ [c], beats := l.beats.filter (·.key != c.key) }
  | .flush => if l.pending.isEmpty then l else { l with pending := [], inflight := l.inflight ++ [coalesce l.pending] }
  | .deliver =>
    match l.inflight with
    | [] => l
    | b :: rest => { l with inflight := rest, copy := applyAll l.copy b }
  | .beat k =>
    -- `delay_beat_notify`: only for a registered instance, and only if no change of it is waiting for the next flush
    match l.own k with
    | none => l
    | some v => if l.pending.any (·.key == k) then l else { l with beats := l.beats.filter (·.key != k) ++ [⟨k, some v⟩] }
  | .beatFlush => if l.beats.isEmpty then l else { l with beats := [], inflight := l.inflight ++ [l.beats] }

def Link.run (l : Link) (ss : List Step) : Link := ss.foldl Link.step l

def Link.quiescent (l : Link) : Prop := l.pending = [] ∧ l.inflight = [] ∧ l.beats = []

end RNacos.Sync
