import RNacos.Lemmas.Drain
/-
`scanInner` / `scanCount` (= `move_to_index_by_count`) against the whole-stream specification.
-/
namespace RNacos.BufReader
open RNacos.Varint RNacos.Spec.Stream

/-- how many records a scan with limit `count` (0 = no limit), `c` already counted, takes from `n` -/
def kOf (count c n : Nat) : Nat := if count = 0 then n else min (count - c) n

theorem frames_take_succ (b : List Nat) (bs : List (List Nat)) (k : Nat) :
    (frames ((b :: bs).take (k + 1))).length = (frame b).length + (frames (bs.take k)).length := by
  rw [List.take_succ_cons, frames_cons, List.length_append]

theorem scanInner_frames : ∀ (bs : List (List Nat)) (r : BufReader) (p : List Nat) (fuel cur c count : Nat),
    WF r → BodiesOK bs → Stuck p → window r = frames bs ++ p → bs.length + 1 ≤ fuel →
    (count = 0 ∨ c < count) →
    ∃ r', scanInner fuel r cur c count =
        (cur + (frames (bs.take (kOf count c bs.length))).length, c + kOf count c bs.length, r',
          decide (count ≠ 0 ∧ count - c ≤ bs.length), false) ∧
      WF r' ∧ window r' = frames (bs.drop (kOf count c bs.length)) ++ p := by
  intro bs
  induction bs with
  | nil =>
    intro r p fuel cur c count hwf _ hs hw hf hc
    obtain ⟨f, rfl⟩ : ∃ f, fuel = f + 1 := ⟨fuel - 1, by simp at hf; omega⟩
    have hw' : window r = p := by simpa [frames] using hw
    obtain ⟨r', hn, hwf', hwin⟩ := next_stuck hwf (by rw [hw']; exact hs)
    have hk : kOf count c 0 = 0 := by unfold kOf; split <;> simp
    refine ⟨r', ?_, hwf', by rw [hwin, hw']; simp [frames]⟩
    simp only [scanInner, hn, List.length_nil, hk, List.take_nil]
    have : decide (count ≠ 0 ∧ count - c ≤ 0) = false := by
      simp only [decide_eq_false_iff_not]; omega
    rw [this]
    simp [frames]
  | cons b bs ih =>
    intro r p fuel cur c count hwf hb hs hw hf hc
    obtain ⟨f, rfl⟩ : ∃ f, fuel = f + 1 := ⟨fuel - 1, by simp at hf; omega⟩
    rw [frames_cons, List.append_assoc] at hw
    obtain ⟨r1, hn, hwf1, hwin1⟩ := next_frame hwf b _ (hb b (by simp)) hw
    by_cases heq : c + 1 = count
    · -- the limit is reached with this record
      have hk : kOf count c (b :: bs).length = 1 := by
        unfold kOf; simp only [List.length_cons]; split <;> omega
      refine ⟨r1, ?_, hwf1, by rw [hk, hwin1]; simp⟩
      simp only [scanInner, hn, hk]
      have h1 : (c + 1 == count) = true := by simp [heq]
      have h2 : decide (count ≠ 0 ∧ count - c ≤ (b :: bs).length) = true := by
        simp only [decide_eq_true_eq, List.length_cons]; omega
      simp only [h1, if_true, h2]
      simp [frames, List.take]
    · have hc' : count = 0 ∨ c + 1 < count := by omega
      obtain ⟨r', hsc, hwf', hwin'⟩ := ih r1 p f (cur + (frame b).length) (c + 1) count hwf1
        (fun x hx => hb x (by simp [hx])) hs hwin1 (by simp at hf; omega) hc'
      have hk : kOf count c (b :: bs).length = kOf count (c + 1) bs.length + 1 := by
        unfold kOf; simp only [List.length_cons]; split <;> omega
      refine ⟨r', ?_, hwf', by rw [hk, List.drop_succ_cons]; exact hwin'⟩
      simp only [scanInner, hn]
      have h1 : (c + 1 == count) = false := by simp [heq]
      simp only [h1, Bool.false_eq_true, if_false, hsc, hk, frames_take_succ]
      have h2 : decide (count ≠ 0 ∧ count - (c + 1) ≤ bs.length) =
          decide (count ≠ 0 ∧ count - c ≤ (b :: bs).length) := by
        simp only [List.length_cons]; congr 1; apply propext; omega
      rw [h2]
      simp only [Prod.mk.injEq, and_true]
      omega

/-- **`move_to_index_by_count` is correct under any chunking of a well-formed stream**: it counts
`min count |records|` records (all of them when `count = 0` can never be hit, see C03) and advances
by exactly their bytes. -/
theorem scanCount_correct : ∀ (chunks : List (List Nat)) (r : BufReader) (bs : List (List Nat))
    (tail : List Nat) (cur c count : Nat),
    WF r → BodiesOK bs → TailOK tail → window r ++ chunks.flatten = stream bs tail →
    (∀ b rest, bs = b :: rest → (window r).length < (frame b).length) →
    (count = 0 ∨ c < count) →
    scanCount r chunks cur c count =
      (cur + (frames (bs.take (kOf count c bs.length))).length, c + kOf count c bs.length, false) := by
  intro chunks
  induction chunks with
  | nil =>
    intro r bs tail cur c count _ _ _ hw hlt _
    cases bs with
    | nil =>
      have hk : kOf count c 0 = 0 := by unfold kOf; split <;> simp
      simp [scanCount, hk, frames]
    | cons b rest =>
      exfalso
      have h1 := hlt b rest rfl
      simp only [List.flatten_nil, List.append_nil] at hw
      rw [hw, stream_eq, frames_cons] at h1
      simp only [List.length_append] at h1
      omega
  | cons ch rest ih =>
    intro r bs tail cur c count hwf hb ht hw _ hc
    obtain ⟨hwf1, hwin1, _⟩ := append_window hwf ch
    have hq : (window r ++ ch) ++ rest.flatten = stream bs tail := by
      rw [← hw]; simp
    obtain ⟨bs1, bs2, p, e1, e2, e3, e4⟩ := split_prefix bs _ _ tail hq
    have hb1 : BodiesOK bs1 := fun x hx => hb x (by rw [e1]; simp [hx])
    have hb2 : BodiesOK bs2 := fun x hx => hb x (by rw [e1]; simp [hx])
    have hs : Stuck p := stuck_of_split hb2 ht e3 e4
    have hfuel : bs1.length + 1 ≤ (appendNextBuf r ch).end_ - (appendNextBuf r ch).start + 1 := by
      rw [← window_length hwf1, hwin1, e2, List.length_append]
      have := frames_length_ge bs1
      omega
    obtain ⟨r2, hsc, hwf2, hwin2⟩ := scanInner_frames bs1 (appendNextBuf r ch) p _ cur c count hwf1 hb1 hs
      (by rw [hwin1, e2]) hfuel hc
    simp only [scanCount, hsc, Bool.false_eq_true, if_false]
    have hlen : bs.length = bs1.length + bs2.length := by rw [e1]; simp
    by_cases hreach : count ≠ 0 ∧ count - c ≤ bs1.length
    · -- limit reached inside this chunk
      have hd : decide (count ≠ 0 ∧ count - c ≤ bs1.length) = true := by simpa using hreach
      have hk1 : kOf count c bs1.length = count - c := by unfold kOf; split <;> omega
      have hk : kOf count c bs.length = count - c := by unfold kOf; split <;> omega
      simp only [hd, if_true, hk1, hk]
      rw [e1, List.take_append_of_le_length (by omega)]
    · have hd : decide (count ≠ 0 ∧ count - c ≤ bs1.length) = false := by simpa using hreach
      have hk1 : kOf count c bs1.length = bs1.length := by unfold kOf; split <;> omega
      simp only [hd, Bool.false_eq_true, if_false]
      rw [hk1, List.drop_length] at hwin2
      simp only [frames, List.map_nil, List.flatten_nil, List.nil_append] at hwin2
      by_cases hemp : isEmpty r2 = true
      · -- the end marker is at the head of the window: no record can follow
        have hbs2 : bs2 = [] := by
          cases bs2 with
          | nil => rfl
          | cons b rest2 =>
            exfalso
            rw [isEmpty_eq hwf2, hwin2] at hemp
            cases p with
            | nil => simp at hemp
            | cons a t =>
              simp only [beq_iff_eq] at hemp
              subst hemp
              rw [stream_eq, frames_cons, List.append_assoc] at e3
              have hh := vwriteF_head_ne_zero 9 b.length (hb2 b (by simp)).1
              unfold frame vwrite at e3
              cases hvw : vwriteF 9 b.length with
              | nil => exact absurd hvw (vwriteF_ne_nil _ _)
              | cons x xs =>
                rw [hvw] at e3 hh
                simp at e3 hh
                omega
        subst hbs2
        have hk : kOf count c bs.length = bs1.length := by
          unfold kOf; simp at hlen; split <;> omega
        simp only [hemp, if_true, hk1, hk]
        rw [e1]; simp
      · have hemp' : isEmpty r2 = false := by simpa using hemp
        simp only [hemp', Bool.false_eq_true, if_false]
        have hc2 : count = 0 ∨ c + bs1.length < count := by omega
        rw [hk1, List.take_length]
        rw [ih r2 bs2 tail _ _ count hwf2 hb2 ht (by rw [hwin2]; exact e3) (by rw [hwin2]; exact e4) hc2]
        have hk : kOf count c bs.length = bs1.length + kOf count (c + bs1.length) bs2.length := by
          unfold kOf; split <;> omega
        have ht1 : List.take (bs1.length + kOf count (c + bs1.length) bs2.length) bs1 = bs1 :=
          List.take_of_length_le (by omega)
        have ht2 : bs1.length + kOf count (c + bs1.length) bs2.length - bs1.length =
            kOf count (c + bs1.length) bs2.length := by omega
        rw [hk, e1, List.take_append, frames_append, List.length_append, ht1, ht2]
        simp only [Prod.mk.injEq, and_true]
        omega

end RNacos.BufReader
