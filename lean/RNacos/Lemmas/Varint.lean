import RNacos.Model.Varint
/-
Helper lemmas about the varint model (used by Props/C20 and by the log-file proofs).
-/
namespace RNacos.Varint

theorem vwriteF_ne_nil (f v : Nat) : vwriteF f v ≠ [] := by
  cases f <;> simp [vwriteF] <;> split <;> simp

theorem vwriteF_length_le (f v : Nat) : (vwriteF f v).length ≤ f + 1 := by
  induction f generalizing v with
  | zero => simp [vwriteF]
  | succ n ih =>
    simp only [vwriteF]
    split
    · simp only [List.length_cons]; have := ih (v / 128); omega
    · simp

/-- reading back what was written, for any trailing bytes: `v < 128^(n+1)` needs at most `n`
continuation bytes, and the reader may use at least `n+1` bytes. -/
theorem vreadGo_vwriteF (n : Nat) : ∀ (v m : Nat) (rest : List Nat), v < 128 ^ (n + 1) → n + 1 ≤ m →
    vreadGo m (vwriteF n v ++ rest) = .ok v := by
  induction n with
  | zero =>
    intro v m rest hv hm
    obtain ⟨m', rfl⟩ : ∃ m', m = m' + 1 := ⟨m - 1, by omega⟩
    simp only [vwriteF, List.cons_append, List.nil_append, vreadGo]
    have : v < 128 := by simpa using hv
    simp [this]
  | succ n ih =>
    intro v m rest hv hm
    obtain ⟨m', rfl⟩ : ∃ m', m = m' + 1 := ⟨m - 1, by omega⟩
    simp only [vwriteF]
    split
    · rename_i hgt
      simp only [List.cons_append, vreadGo]
      have h1 : ¬ (v % 128 + 128 < 128) := by omega
      simp only [h1, if_false]
      have hdiv : v / 128 < 128 ^ (n + 1) := by
        apply Nat.div_lt_of_lt_mul
        have : 128 ^ (n + 1 + 1) = 128 * 128 ^ (n + 1) := by rw [Nat.pow_succ]; omega
        omega
      rw [ih (v / 128) m' rest hdiv (by omega)]
      simp only
      congr 1
      omega
    · rename_i hle
      simp only [List.cons_append, List.nil_append, vreadGo]
      have : v < 128 := by omega
      simp [this]

theorem pow64_lt : (2 : Nat) ^ 64 < 128 ^ 10 := by decide

/-- `read_varint64(write_varint64(v) ++ rest) = v` for every u64. -/
theorem vread_vwrite (v : Nat) (rest : List Nat) (hv : v < 2 ^ 64) :
    vread (vwrite v ++ rest) 0 = .ok v := by
  unfold vread vwrite
  simp only [List.drop_zero]
  rw [vreadGo_vwriteF 9 v 10 rest (by have := pow64_lt; omega) (by omega)]
  simp only
  congr 1
  exact Nat.mod_eq_of_lt hv

theorem vreadGo_vwrite (v : Nat) (rest : List Nat) (hv : v < 2 ^ 64) :
    vreadGo 10 (vwrite v ++ rest) = .ok v :=
  vreadGo_vwriteF 9 v 10 rest (by have := pow64_lt; omega) (by omega)

/-- length of the written varint, characterised by the 7-bit group count -/
theorem vwriteF_length (n : Nat) : ∀ (v k : Nat), k ≤ n → (k = 0 ∨ 128 ^ k ≤ v) → v < 128 ^ (k + 1) →
    (vwriteF n v).length = k + 1 := by
  induction n with
  | zero =>
    intro v k hk _ _
    have : k = 0 := by omega
    subst this; simp [vwriteF]
  | succ n ih =>
    intro v k hk hlo hhi
    simp only [vwriteF]
    by_cases hgt : v > 0x7F
    · rw [if_pos hgt]
      have hk0 : k ≠ 0 := by
        intro h; subst h; simp at hhi; omega
      obtain ⟨k', rfl⟩ : ∃ k', k = k' + 1 := ⟨k - 1, by omega⟩
      simp only [List.length_cons]
      have hlo' : 128 ^ (k' + 1) ≤ v := by rcases hlo with h | h; omega; exact h
      have e1 : 128 ^ (k' + 1) = 128 * 128 ^ k' := by rw [Nat.pow_succ]; omega
      have e2 : 128 ^ (k' + 1 + 1) = 128 * 128 ^ (k' + 1) := by rw [Nat.pow_succ]; omega
      have h1 : 128 ^ k' ≤ v / 128 := by
        rw [Nat.le_div_iff_mul_le (by omega)]; omega
      have h2 : v / 128 < 128 ^ (k' + 1) := by
        apply Nat.div_lt_of_lt_mul; omega
      rw [ih (v / 128) k' (by omega) (Or.inr h1) h2]
    · rw [if_neg hgt]
      have hv : v < 128 := by omega
      rcases Nat.eq_zero_or_pos k with h0 | h0
      · subst h0; simp
      · rcases hlo with h | h
        · omega
        · have : 128 ^ 1 ≤ 128 ^ k := Nat.pow_le_pow_right (by omega) h0
          omega

/-- the first byte of a written non-zero value is not the end marker -/
theorem vwriteF_head_ne_zero (f v : Nat) (hv : 0 < v) : (vwriteF f v).head? ≠ some 0 := by
  cases f with
  | zero => simp [vwriteF]; omega
  | succ n =>
    simp only [vwriteF]
    split
    · simp
    · simp; omega

/-- every byte but the last carries the continuation bit, the last does not: `vlen` finds the end -/
theorem vlen_vwriteF (n : Nat) : ∀ (v : Nat) (rest : List Nat), v < 128 ^ (n + 1) →
    vlen (vwriteF n v ++ rest) = some (vwriteF n v).length := by
  induction n with
  | zero =>
    intro v rest hv
    have : v < 128 := by simpa using hv
    simp [vwriteF, vlen, this]
  | succ n ih =>
    intro v rest hv
    simp only [vwriteF]
    split
    · simp only [List.cons_append, vlen, List.length_cons]
      have h1 : ¬ (v % 128 + 128 < 128) := by omega
      simp only [h1, if_false]
      have hdiv : v / 128 < 128 ^ (n + 1) := by
        apply Nat.div_lt_of_lt_mul
        have : 128 ^ (n + 1 + 1) = 128 * 128 ^ (n + 1) := by rw [Nat.pow_succ]; omega
        omega
      rw [ih (v / 128) rest hdiv]
      simp
    · have : v < 128 := by omega
      simp [vlen, this]

/-- a proper prefix of a written varint has no terminating byte -/
theorem vlen_vwriteF_prefix (n : Nat) : ∀ (v : Nat) (p : List Nat), v < 128 ^ (n + 1) →
    p <+: vwriteF n v → p.length < (vwriteF n v).length → vlen p = none := by
  induction n with
  | zero =>
    intro v p hv hp hl
    simp [vwriteF] at hl hp
    have : p = [] := by
      cases p with
      | nil => rfl
      | cons a t => simp at hl
    subst this; simp [vlen]
  | succ n ih =>
    intro v p hv hp hl
    simp only [vwriteF] at hp hl
    split at hp
    · rename_i hgt
      simp only [hgt, if_true, List.length_cons] at hl
      cases p with
      | nil => simp [vlen]
      | cons a t =>
        rw [List.cons_prefix_cons] at hp
        obtain ⟨rfl, ht⟩ := hp
        simp only [vlen]
        have h1 : ¬ (v % 128 + 128 < 128) := by omega
        simp only [h1, if_false]
        have hdiv : v / 128 < 128 ^ (n + 1) := by
          apply Nat.div_lt_of_lt_mul
          have : 128 ^ (n + 1 + 1) = 128 * 128 ^ (n + 1) := by rw [Nat.pow_succ]; omega
          omega
        rw [ih (v / 128) t hdiv ht (by simp at hl; omega)]
        simp
    · rename_i hle
      simp only [hle, if_false] at hl
      have : p = [] := by
        cases p with
        | nil => rfl
        | cons a t => simp at hl
      subst this; simp [vlen]

end RNacos.Varint

namespace RNacos.Varint

theorem vsizeof_unfold (v : Nat) : vsizeof v =
    if v < 0x80 then 1 else if v < 0x4000 then 2 else if v < 0x200000 then 3 else
    if v < 0x10000000 then 4 else if v < 0x800000000 then 5 else if v < 0x40000000000 then 6 else
    if v < 0x2000000000000 then 7 else if v < 0x100000000000000 then 8 else
    if v < 0x8000000000000000 then 9 else 10 := by
  simp only [vsizeof, sizeofBounds, sizeofGo]

/-- `write_varint64(v).len() == inner_sizeof_varint(v)` for every u64 -/
theorem vwrite_length_eq_vsizeof (v : Nat) (hv : v < 2 ^ 64) : (vwrite v).length = vsizeof v := by
  rw [vsizeof_unfold]
  unfold vwrite
  by_cases h1 : v < 128 ^ 1
  · rw [vwriteF_length 9 v 0 (by omega) (Or.inl rfl) (by omega)]; split <;> omega
  by_cases h2 : v < 128 ^ 2
  · rw [vwriteF_length 9 v 1 (by omega) (Or.inr (by omega)) (by omega)]; repeat' split <;> try omega
  by_cases h3 : v < 128 ^ 3
  · rw [vwriteF_length 9 v 2 (by omega) (Or.inr (by omega)) (by omega)]; repeat' split <;> try omega
  by_cases h4 : v < 128 ^ 4
  · rw [vwriteF_length 9 v 3 (by omega) (Or.inr (by omega)) (by omega)]; repeat' split <;> try omega
  by_cases h5 : v < 128 ^ 5
  · rw [vwriteF_length 9 v 4 (by omega) (Or.inr (by omega)) (by omega)]; repeat' split <;> try omega
  by_cases h6 : v < 128 ^ 6
  · rw [vwriteF_length 9 v 5 (by omega) (Or.inr (by omega)) (by omega)]; repeat' split <;> try omega
  by_cases h7 : v < 128 ^ 7
  · rw [vwriteF_length 9 v 6 (by omega) (Or.inr (by omega)) (by omega)]; repeat' split <;> try omega
  by_cases h8 : v < 128 ^ 8
  · rw [vwriteF_length 9 v 7 (by omega) (Or.inr (by omega)) (by omega)]; repeat' split <;> try omega
  by_cases h9 : v < 128 ^ 9
  · rw [vwriteF_length 9 v 8 (by omega) (Or.inr (by omega)) (by omega)]; repeat' split <;> try omega
  · rw [vwriteF_length 9 v 9 (by omega) (Or.inr (by omega)) (by omega)]; repeat' split <;> try omega

theorem vwrite_length_le (v : Nat) : (vwrite v).length ≤ 10 := vwriteF_length_le 9 v

theorem vwrite_length_pos (v : Nat) : 0 < (vwrite v).length := by
  have := vwriteF_ne_nil 9 v
  unfold vwrite
  cases h : vwriteF 9 v with
  | nil => exact absurd h this
  | cons a t => simp

end RNacos.Varint
