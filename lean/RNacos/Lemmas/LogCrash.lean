import RNacos.Lemmas.LogHistory
/-
Crash between the record that completes an index step and its index entry (C04): the recovery (`init` with its
repair of missing index entries) yields the file the complete append would have produced.
-/
namespace RNacos.LogFile
open RNacos.Varint RNacos.Spec.Stream RNacos.FileReader RNacos.BufReader
open RNacos.IndexFile (writeAt)

/-- the append that completes an index step, spelled out -/
theorem write_step_eq (f : LogFile) (r : Rec) (hfull : isFull f = false) (hidx : r.index = endIndex f)
    (hstep : f.curCount + 1 = f.interval) :
    (write f r).1 =
      { f with bytes := writeAt (writeAt f.bytes (if f.needSeek then f.dataCursor else f.pos) (frame (recBody r)))
                          f.indexCursor (vwrite (f.dataCursor + (frame (recBody r)).length - (lastIdx f).fileIndex)),
               fileLen := (if f.fileLen ≤ f.dataCursor + (frame (recBody r)).length then
                             f.fileLen + max (frame (recBody r)).length allocStep else f.fileLen),
               pos := (if f.needSeek then f.dataCursor else f.pos) + (frame (recBody r)).length, needSeek := false,
               dataCursor := f.dataCursor + (frame (recBody r)).length, curCount := 0, lastTerm := r.term,
               msgCount := f.msgCount + 1,
               indexCursor := f.indexCursor + (vwrite (f.dataCursor + (frame (recBody r)).length - (lastIdx f).fileIndex)).length,
               indexs := f.indexs ++ [⟨f.msgCount + 1 + f.firstIndex, f.dataCursor + (frame (recBody r)).length⟩] } := by
  unfold write
  have hne : ¬ (endIndex f ≠ r.index) := by simp [hidx]
  simp [hfull, hne, hstep]

/-- **the torn index step**: the record that completes an index step has been written, its index entry has not (the
process was killed in between).  Opening that file gives a well-formed file holding the old entries and the new
record: nothing is lost and the next index entry will be placed correctly. -/
theorem torn_index_step_recovers (f : LogFile) (es : List Rec) (r : Rec) (h : WF f es) (hfull : isFull f = false)
    (hidx : r.index = endIndex f) (hr : RecOK r) (hsz : f.dataCursor + (frame (recBody r)).length < 2 ^ 64)
    (hstep : f.curCount + 1 = f.interval) (fl pre sp : Nat) :
    WF (load (writeAt f.bytes (if f.needSeek then f.dataCursor else f.pos) (frame (recBody r))) fl f.startIndex pre sp)
      (es ++ [r]) := by
  -- the complete append and what is known about it
  obtain ⟨hg, _, _⟩ := write_wf f es r h hfull hidx hr hsz
  have hgeq := write_step_eq f r hfull hidx hstep
  obtain ⟨z1, z2, hb, hz1, hz2, hsum⟩ := h.bytes
  have hH := header_length f.hdrTerm f.firstIndex f.interval f.areaEnd
  have hI := h.ivl
  have hmod : es.length % f.interval + 1 = f.interval := by rw [← h.cur]; exact hstep
  obtain ⟨hdiv, hmod', hlen⟩ := succ_div_mod_eq es.length f.interval hI hmod
  have hqle : es.length / f.interval * f.interval ≤ es.length := Nat.div_mul_le_self _ _
  have hp : (if f.needSeek = true then f.dataCursor else f.pos) = dataStart + (dataBytes es).length := by
    have hdc : f.dataCursor = dataStart + (dataBytes es).length := by
      rw [h.dc]; unfold offsetOf; rw [List.take_length]
    rcases h.posOK with hs | hs
    · simp [hs, hdc]
    · split
      · exact hdc
      · rw [hs, hdc]
  -- the bytes after the record has been written
  have hbytes1 := data_write _ (idxBytes f.interval es) z1 (dataBytes es) z2 (frame (recBody r)) _ hH hsum hp
  rw [← hb] at hbytes1
  have hdb : dataBytes es ++ frame (recBody r) = dataBytes (es ++ [r]) := by rw [dataBytes_append, dataBytes_single]
  rw [hdb] at hbytes1
  have hoff := offsetOf_snoc_end es r
  -- what `init` reads
  have hhead : (writeAt f.bytes (if f.needSeek = true then f.dataCursor else f.pos) (frame (recBody r)) ++
      List.replicate (dataStart - (writeAt f.bytes (if f.needSeek = true then f.dataCursor else f.pos) (frame (recBody r))).length) 0).take dataStart =
      header f.hdrTerm f.firstIndex f.interval f.areaEnd ++ (idxBytes f.interval es ++ z1) := by
    have hl : (header f.hdrTerm f.firstIndex f.interval f.areaEnd ++ (idxBytes f.interval es ++ z1)).length = dataStart := by
      simp only [List.length_append, hH]; omega
    rw [hbytes1]
    have hge : dataStart - (header f.hdrTerm f.firstIndex f.interval f.areaEnd ++ (idxBytes f.interval es ++ z1) ++
        (dataBytes (es ++ [r]) ++ List.drop (frame (recBody r)).length z2)).length = 0 := by
      simp only [List.length_append] at hl ⊢; omega
    rw [hge, List.replicate_zero, List.append_nil, ← hl, List.take_left]
  obtain ⟨hf1, hf2, hf3, hf4⟩ := header_fields f.hdrTerm f.firstIndex f.interval f.areaEnd (idxBytes f.interval es ++ z1)
    h.hdrOK.1 h.hdrOK.2 h.ivl16 (by have := h.area; unfold dataStart at this; omega)
  have hdrop : (header f.hdrTerm f.firstIndex f.interval f.areaEnd ++ (idxBytes f.interval es ++ z1)).drop 32 =
      idxBytes f.interval es ++ z1 := by rw [← hH, List.drop_left]
  have hz1pos : 0 < z1.length := by
    have := h.ic; have := h.icEnd; have := h.area; omega
  have hri := readIndexs_layout f.startIndex f.interval es z1 h.ivl h.bound hz1 hz1pos (by
    intro j hj
    have := h.room j hj; have := h.area
    simp only [List.length_append]; omega)
  have hlast : (idxList f.startIndex f.interval es).getLast?.getD ⟨f.startIndex, dataStart⟩ =
      entry f.startIndex f.interval es (es.length / f.interval) := by
    rw [idxList_eq, List.range_succ, List.map_append]; simp
  -- the data from the last index entry on: exactly one step of records
  have hrecs' : ∀ x ∈ es ++ [r], RecOK x := hg.recs
  have hsplit : writeAt f.bytes (if f.needSeek = true then f.dataCursor else f.pos) (frame (recBody r)) =
      (header f.hdrTerm f.firstIndex f.interval f.areaEnd ++ (idxBytes f.interval es ++ z1) ++
        dataBytes ((es ++ [r]).take (es.length / f.interval * f.interval))) ++
      (dataBytes ((es ++ [r]).drop (es.length / f.interval * f.interval)) ++ List.drop (frame (recBody r)).length z2) := by
    rw [hbytes1, dataBytes_take_drop (es ++ [r]) (es.length / f.interval * f.interval)]; simp
  have hprelen : (header f.hdrTerm f.firstIndex f.interval f.areaEnd ++ (idxBytes f.interval es ++ z1) ++
      dataBytes ((es ++ [r]).take (es.length / f.interval * f.interval))).length =
      (entry f.startIndex f.interval es (es.length / f.interval)).fileIndex := by
    unfold entry offsetOf
    simp only [List.length_append, hH]
    rw [List.take_append_of_le_length hqle]
    omega
  have hdroplen : ((es ++ [r]).drop (es.length / f.interval * f.interval)).length = f.interval := by
    rw [List.length_drop, List.length_append, List.length_singleton, hlen, Nat.succ_mul]; omega
  have hmvgen : ∀ count, f.interval ≤ count →
      moveByCount (writeAt f.bytes (if f.needSeek = true then f.dataCursor else f.pos) (frame (recBody r)))
        (entry f.startIndex f.interval es (es.length / f.interval)) f.startIndex count =
      (offsetOf (es ++ [r]) (es ++ [r]).length, es.length + 1) := by
    intro count hc
    have hfi : (entry f.startIndex f.interval es (es.length / f.interval)) =
        ⟨f.startIndex + es.length / f.interval * f.interval,
         (header f.hdrTerm f.firstIndex f.interval f.areaEnd ++ (idxBytes f.interval es ++ z1) ++
          dataBytes ((es ++ [r]).take (es.length / f.interval * f.interval))).length⟩ := by rw [hprelen]; rfl
    rw [hfi, hsplit, moveByCount_layout _ _ _ _ _ _ (fun x hx => hrecs' x (List.mem_of_mem_drop hx)) (hz2.drop _)]
    have htk : ((es ++ [r]).drop (es.length / f.interval * f.interval)).take count =
        (es ++ [r]).drop (es.length / f.interval * f.interval) := List.take_of_length_le (by omega)
    rw [htk, hprelen]
    congr 1
    · unfold entry offsetOf
      simp only
      rw [List.take_length, dataBytes_take_drop (es ++ [r]) (es.length / f.interval * f.interval),
        List.length_append, List.take_append_of_le_length hqle]
      omega
    · have hlen2 : es.length + 1 = es.length / f.interval * f.interval + f.interval := by
        rw [hlen, Nat.succ_mul]
      rw [hdroplen]; omega
  have hne : ¬ (f.interval = 0) := by omega
  have h16 : f.interval ≤ 0xffff := by have := h.ivl16; omega
  -- run `init`
  unfold load
  simp only [hhead, hf1, hf2, hf3, hf4, hdrop, hri, hlast, hmvgen 0xffff h16, hne, if_false]
  -- the repair: one missing entry is written, then nothing is left to do
  have hmodz : (es.length + 1) % f.interval = 0 := hmod'
  have hlen2 : es.length + 1 = es.length / f.interval * f.interval + f.interval := by rw [hlen, Nat.succ_mul]
  apply initTerm_wf
  -- first round of the repair: the step is complete, its entry is missing
  have hli0 : ∀ (b : List Nat) (fl0 ic dc mc lt cc so ps : Nat) (ns : Bool),
      lastIdx ({ bytes := b, fileLen := fl0, firstIndex := f.firstIndex, hdrTerm := f.hdrTerm, interval := f.interval,
                 areaEnd := f.areaEnd, indexs := idxList f.startIndex f.interval es, startIndex := f.startIndex,
                 indexCursor := ic, dataCursor := dc, msgCount := mc, lastTerm := lt, curCount := cc, splitOff := so,
                 pos := ps, needSeek := ns } : LogFile) =
      entry f.startIndex f.interval es (es.length / f.interval) := by
    intros; unfold lastIdx; simp only; exact hlast
  unfold repairIndex
  simp only [hli0]
  have hc1 : ¬ (f.interval = 0 ∨ es.length + 1 -
      ((entry f.startIndex f.interval es (es.length / f.interval)).logIndex - f.startIndex) < f.interval) := by
    unfold entry; simp only; omega
  simp only [hc1, if_false, hmvgen f.interval (Nat.le_refl _)]
  -- second round: nothing is missing any more
  have hli1 : ∀ (b : List Nat) (fl0 ic dc mc lt cc so ps : Nat) (ns : Bool) (e : Idx),
      lastIdx ({ bytes := b, fileLen := fl0, firstIndex := f.firstIndex, hdrTerm := f.hdrTerm, interval := f.interval,
                 areaEnd := f.areaEnd, indexs := idxList f.startIndex f.interval es ++ [e], startIndex := f.startIndex,
                 indexCursor := ic, dataCursor := dc, msgCount := mc, lastTerm := lt, curCount := cc, splitOff := so,
                 pos := ps, needSeek := ns } : LogFile) = e := by
    intros; unfold lastIdx; simp
  unfold repairIndex
  simp only [hli1]
  have hc2 : f.interval = 0 ∨ es.length + 1 -
      ((entry f.startIndex f.interval es (es.length / f.interval)).logIndex + f.interval - f.startIndex) < f.interval := by
    right; unfold entry; simp only; omega
  simp only [hc2, if_true]
  -- the result is the file the complete append produces, as `init` would describe it
  rw [hgeq] at hg
  have hdelta : offsetOf (es ++ [r]) (es ++ [r]).length - (entry f.startIndex f.interval es (es.length / f.interval)).fileIndex =
      f.dataCursor + (frame (recBody r)).length - (lastIdx f).fileIndex := by
    rw [lastIdx_wf f es h, hoff, h.dc]
  have hic : (idxBytes f.interval es).length + 32 = f.indexCursor := by rw [h.ic]; omega
  rw [hdelta, hic]
  exact
    { recs := hg.recs, idx := hg.idx, ivl := hg.ivl, ivl16 := hg.ivl16, area := hg.area, first := hg.first,
      split := by simp only; omega, bound := hg.bound, msg := by simp, cur := by simp only; rw [hmodz]; simp [hmodz],
      dc := rfl,
      indexs := by
        have := hg.indexs
        simp only at this ⊢
        rw [← this, h.indexs]
        congr 2
        unfold entry
        simp only
        rw [h.first, h.msg]
        congr 1
        · omega
        · rw [hoff, h.dc],
      ic := by have := hg.ic; simp only at this ⊢; exact this,
      icEnd := by have := hg.icEnd; simp only at this ⊢; exact this,
      room := hg.room,
      bytes := by have := hg.bytes; simp only at this ⊢; exact this,
      posOK := Or.inr rfl, hdrOK := hg.hdrOK }

end RNacos.LogFile
