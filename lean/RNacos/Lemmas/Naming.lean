import RNacos.Lemmas.NamingSvc
/-
Invariant of the whole registry (every service's counters, the namespace index, the client reverse
map) and its preservation by every actor-level operation.
-/
namespace RNacos.Naming
open RNacos

/-- the reverse-map entry `ik` of client `c` points at an existing instance that belongs to `c` -/
def Owned (n : Naming) (c : String) (ik : IKey) : Prop :=
  ∃ s i, AL.get? n.services ik.skey = some s ∧ AL.get? s.insts ik.short = some i ∧
    i.clientId = c ∧ c ≠ "" ∧ (i.fromGrpc = true ∨ i.fromCluster > 0)

structure Inv (n : Naming) : Prop where
  svcKeys : AL.NodupKeys n.services
  svcs : ∀ k s, AL.get? n.services k = some s → SvcInv s
  idxNodup : n.nsIndex.Nodup
  idx : ∀ k, k ∈ n.nsIndex ↔ (AL.get? n.services k).isSome = true
  clients : ∀ c ks, AL.get? n.clientSets c = some ks → ks.Nodup ∧ ∀ ik ∈ ks, Owned n c ik

/-- every entry point hands in instances whose client id is empty unless they come from a gRPC
connection or from another node (HTTP handlers never set a client id) -/
def OriginOK (i : Inst) : Prop := i.clientId ≠ "" → (i.fromGrpc = true ∨ i.fromCluster > 0)

theorem inv_empty : Inv {} := by
  refine ⟨by simp [AL.NodupKeys], by intro k s h; simp at h, by simp, by intro k; simp, by intro c ks h; simp at h⟩

/-! ### service map updates -/

/-- replacing the service stored under an existing key -/
theorem inv_setService (n : Naming) (k : SKey) (s' : Svc) (es : List (Int × SKey)) (cs : List (String × List IKey))
    (h : Inv n) (hex : (AL.get? n.services k).isSome = true) (hs' : SvcInv s')
    (hcs : ∀ c ks, AL.get? cs c = some ks → ks.Nodup ∧
      ∀ ik ∈ ks, Owned { n with services := AL.set n.services k s', emptySet := es, clientSets := cs } c ik) :
    Inv { n with services := AL.set n.services k s', emptySet := es, clientSets := cs } := by
  refine ⟨AL.nodupKeys_set _ _ _ h.svcKeys, ?_, h.idxNodup, ?_, hcs⟩
  · intro k2 s2 hg
    by_cases e : k = k2
    · subst e; simp at hg; subst hg; exact hs'
    · rw [AL.get?_set_other _ _ _ _ e] at hg; exact h.svcs k2 s2 hg
  · intro k2
    by_cases e : k = k2
    · subst e; simp only [AL.get?_set_same, Option.isSome_some, iff_true]; exact (h.idx k).mpr hex
    · simp only [AL.get?_set_other _ _ _ _ e]; exact h.idx k2

/-- `Owned` only looks at the one instance: it survives when that instance is untouched -/
theorem owned_of_same (n n' : Naming) (c : String) (ik : IKey)
    (h : Owned n c ik)
    (hsame : ∀ s i, AL.get? n.services ik.skey = some s → AL.get? s.insts ik.short = some i →
      ∃ s', AL.get? n'.services ik.skey = some s' ∧ AL.get? s'.insts ik.short = some i) : Owned n' c ik := by
  obtain ⟨s, i, h1, h2, h3, h4, h5⟩ := h
  obtain ⟨s', h1', h2'⟩ := hsame s i h1 h2
  exact ⟨s', i, h1', h2', h3, h4, h5⟩

theorem inv_ensureService (n : Naming) (k : SKey) (now : Int) (h : Inv n) : Inv (n.ensureService k now) := by
  unfold Naming.ensureService
  cases hg : AL.get? n.services k with
  | some s => exact h
  | none =>
    simp only
    have hnot : k ∉ n.nsIndex := by rw [h.idx, hg]; simp
    refine ⟨AL.nodupKeys_set _ _ _ h.svcKeys, ?_, nodup_setInsert _ _ h.idxNodup, ?_, ?_⟩
    · intro k2 s2 hg2
      by_cases e : k = k2
      · subst e; simp at hg2; subst hg2; exact svcInv_empty
      · rw [AL.get?_set_other _ _ _ _ e] at hg2; exact h.svcs k2 s2 hg2
    · intro k2
      rw [mem_setInsert]
      by_cases e : k = k2
      · subst e; simp
      · simp only [AL.get?_set_other _ _ _ _ e, ← h.idx k2]
        constructor
        · rintro (h1 | h1)
          · exact absurd h1.symm e
          · exact h1
        · exact Or.inr
    · intro c ks hc
      obtain ⟨hn, ho⟩ := h.clients c ks hc
      refine ⟨hn, ?_⟩
      intro ik hik
      apply owned_of_same n _ c ik (ho ik hik)
      intro s i h1 h2
      have hne : k ≠ ik.skey := by intro e; rw [← e, hg] at h1; cases h1
      exact ⟨s, by simp only [AL.get?_set_other _ _ _ _ hne]; exact h1, h2⟩

theorem ensureService_has (n : Naming) (k : SKey) (now : Int) :
    (AL.get? (n.ensureService k now).services k).isSome = true := by
  unfold Naming.ensureService
  cases hg : AL.get? n.services k with
  | some s => simp [hg]
  | none => simp

/-! ### what `Service::update_instance` does to the instance map -/

theorem updateInstance_other (s : Svc) (inst : Inst) (tag : Option Tag) (fs : Bool) (k : ShortKey)
    (h : inst.short ≠ k) : AL.get? (s.updateInstance inst tag fs).1.insts k = AL.get? s.insts k := by
  unfold Svc.updateInstance
  cases hg : AL.get? s.insts inst.short with
  | none => simp only [Svc.insertInst]; exact AL.get?_set_other _ _ _ _ h
  | some old =>
    simp only [Svc.replaceInst]
    have : (applyTag (keepOwner inst old) old tag).1.short ≠ k := by
      rw [applyTag_short, keepOwner_short]; exact h
    exact AL.get?_set_other _ _ _ _ this

/-- the instance stored after the update, and the owner to be dropped -/
theorem updateInstance_final (s : Svc) (inst : Inst) (tag : Option Tag) (fs : Bool) :
    ∃ fin, AL.get? (s.updateInstance inst tag fs).1.insts inst.short = some fin ∧
      (match AL.get? s.insts inst.short with
       | none => fin = inst ∧ (s.updateInstance inst tag fs).2.2 = none
       | some old =>
         fin.clientId = (keepOwner inst old).clientId ∧ fin.fromGrpc = (keepOwner inst old).fromGrpc ∧
         fin.fromCluster = (keepOwner inst old).fromCluster ∧
         (s.updateInstance inst tag fs).2.2 =
           (if (!old.clientId.isEmpty && (keepOwner inst old).clientId != old.clientId) = true
            then some old.clientId else none)) := by
  unfold Svc.updateInstance
  cases hg : AL.get? s.insts inst.short with
  | none => exact ⟨inst, by simp [Svc.insertInst], rfl, rfl⟩
  | some old =>
    simp only [Svc.replaceInst]
    have hk : (applyTag (keepOwner inst old) old tag).1.short = inst.short := by
      rw [applyTag_short, keepOwner_short]
    obtain ⟨o1, o2, o3⟩ := applyTag_owner (keepOwner inst old) old tag
    exact ⟨(applyTag (keepOwner inst old) old tag).1, by rw [← hk]; simp, o1, o2, o3, trivial⟩

theorem keepOwner_cases (inst old : Inst) :
    (keepOwner inst old = inst) ∨
    ((keepOwner inst old).clientId = old.clientId ∧ (keepOwner inst old).fromGrpc = old.fromGrpc ∧
     (keepOwner inst old).fromCluster = old.fromCluster) := by
  unfold keepOwner; split
  · exact Or.inr ⟨rfl, rfl, rfl⟩
  · exact Or.inl rfl

/-! ### reverse-map helpers -/

theorem clientRemoveKey_get (cs : List (String × List IKey)) (c c2 : String) (ik : IKey) :
    AL.get? (clientRemoveKey cs c ik) c2 =
      if c = c2 then (AL.get? cs c2).map (·.erase ik) else AL.get? cs c2 := by
  unfold clientRemoveKey
  by_cases e : c = c2
  · subst e
    cases hg : AL.get? cs c with
    | none => simp [hg]
    | some ks => simp [hg]
  · simp only [e, if_false]
    cases hg : AL.get? cs c with
    | none => rfl
    | some ks => exact AL.get?_set_other _ _ _ _ e

/-! ### `update_instance` -/

theorem inv_putInstance (n : Naming) (k : SKey) (svc : Svc) (inst : Inst) (tag : Option Tag) (fs : Bool)
    (h : Inv n) (hg : AL.get? n.services k = some svc) (horig : OriginOK inst) :
    Inv (n.putInstance k svc inst tag fs) := by
  unfold Naming.putInstance
  have hsvc := h.svcs k svc hg
  obtain ⟨fin, hfin, hfinal⟩ := updateInstance_final svc inst tag fs
  -- the general shape: `inv_setService` with the new client sets
  have key : ∀ cs' : List (String × List IKey),
      (∀ c ks, AL.get? cs' c = some ks → ks.Nodup ∧ ∀ ik ∈ ks,
        Owned { n with services := AL.set n.services k (svc.updateInstance inst tag fs).1, clientSets := cs' } c ik) →
      Inv { n with services := AL.set n.services k (svc.updateInstance inst tag fs).1, clientSets := cs' } := by
    intro cs' hcs
    have := inv_setService n k (svc.updateInstance inst tag fs).1 n.emptySet cs' h (by simp [hg])
      (svcInv_updateInstance svc inst tag fs hsvc) hcs
    exact this
  apply key
  -- `Owned` for entries other than the updated instance carries over
  have carry : ∀ cs' c ik, ik ≠ (⟨k, inst.short⟩ : IKey) → Owned n c ik →
      Owned { n with services := AL.set n.services k (svc.updateInstance inst tag fs).1, clientSets := cs' } c ik := by
    intro cs' c ik hne ho
    apply owned_of_same n _ c ik ho
    intro s i h1 h2
    by_cases e : k = ik.skey
    · subst e
      rw [hg] at h1; cases h1
      refine ⟨(svc.updateInstance inst tag fs).1, by simp, ?_⟩
      have hsk : inst.short ≠ ik.short := by
        intro e2; apply hne; cases ik; simp_all
      rw [updateInstance_other _ _ _ _ _ hsk]; exact h2
    · exact ⟨s, by simp only [AL.get?_set_other _ _ _ _ e]; exact h1, h2⟩
  -- the updated instance itself is owned by `fin.clientId` when it is recordable
  have ownFin : ∀ cs', fin.clientId ≠ "" → (fin.fromGrpc = true ∨ fin.fromCluster > 0) →
      Owned { n with services := AL.set n.services k (svc.updateInstance inst tag fs).1, clientSets := cs' }
        fin.clientId ⟨k, inst.short⟩ := by
    intro cs' h1 h2
    exact ⟨(svc.updateInstance inst tag fs).1, fin, by simp, hfin, rfl, h1, h2⟩
  -- if the old instance was recorded for `c` and `c` is not dropped, the final instance belongs to `c`
  have keep : ∀ c, Owned n c ⟨k, inst.short⟩ → (svc.updateInstance inst tag fs).2.2 ≠ some c →
      fin.clientId = c ∧ (fin.fromGrpc = true ∨ fin.fromCluster > 0) := by
    intro c ho hnr
    obtain ⟨s, old, h1, h2, h3, h4, h5⟩ := ho
    simp only at h1 h2
    rw [hg] at h1; cases h1
    rw [h2] at hfinal
    obtain ⟨f1, f2, f3, f4⟩ := hfinal
    rw [f4] at hnr
    have hcid : (keepOwner inst old).clientId = old.clientId := by
      by_cases hc : (!old.clientId.isEmpty && (keepOwner inst old).clientId != old.clientId) = true
      · rw [if_pos hc, h3] at hnr; exact absurd rfl hnr
      · by_cases hx : (keepOwner inst old).clientId = old.clientId
        · exact hx
        · exfalso; apply hc
          have hne : old.clientId.isEmpty = false := by
            cases hce : old.clientId.isEmpty with
            | false => rfl
            | true => exfalso; apply h4; rw [← h3]; simpa using hce
          simp [hne, hx]
    refine ⟨by rw [f1, hcid, h3], ?_⟩
    rcases keepOwner_cases inst old with hk | ⟨_, k2, k3⟩
    · rw [f2, f3, hk]
      apply horig
      rw [← hk, hcid, h3]; exact h4
    · rw [f2, f3, k2, k3]; exact h5
  intro c ks hc
  -- unfold the two reverse-map updates
  cases hrep : (svc.updateInstance inst tag fs).2.2 with
  | none =>
    rw [hrep] at hc
    simp only [dropReplaced] at hc
    rw [hfin] at hc
    simp only [recordClient] at hc
    by_cases hrec : ((fin.fromGrpc || decide (fin.fromCluster > 0)) && !fin.clientId.isEmpty) = true
    · rw [if_pos hrec] at hc
      have hne : fin.clientId ≠ "" := by
        simp only [Bool.and_eq_true, Bool.not_eq_true'] at hrec
        intro e; rw [e] at hrec; simp at hrec
      have hor : fin.fromGrpc = true ∨ fin.fromCluster > 0 := by
        simp only [Bool.and_eq_true, Bool.or_eq_true, decide_eq_true_eq] at hrec; exact hrec.1
      by_cases e : fin.clientId = c
      · subst e
        simp only [AL.get?_set_same, Option.some.injEq] at hc
        subst hc
        have hold : (AL.get? n.clientSets fin.clientId).getD [] = [] ∨
            ∃ ks0, AL.get? n.clientSets fin.clientId = some ks0 := by
          cases AL.get? n.clientSets fin.clientId with
          | none => exact Or.inl rfl
          | some ks0 => exact Or.inr ⟨ks0, rfl⟩
        rcases hold with h0 | ⟨ks0, h0⟩
        · have hks : (AL.get? n.clientSets fin.clientId).getD [] = [] := h0
          rw [hks]
          refine ⟨by simp [setInsert], ?_⟩
          intro ik hik
          simp [setInsert] at hik
          subst hik
          exact ownFin _ hne hor
        · rw [h0]
          simp only [Option.getD_some]
          obtain ⟨hn0, ho0⟩ := h.clients _ ks0 h0
          refine ⟨nodup_setInsert _ _ hn0, ?_⟩
          intro ik hik
          rw [mem_setInsert] at hik
          rcases hik with rfl | hik
          · exact ownFin _ hne hor
          · by_cases e2 : ik = ⟨k, inst.short⟩
            · subst e2; exact ownFin _ hne hor
            · exact carry _ _ ik e2 (ho0 ik hik)
      · rw [AL.get?_set_other _ _ _ _ e] at hc
        obtain ⟨hn0, ho0⟩ := h.clients c ks hc
        refine ⟨hn0, ?_⟩
        intro ik hik
        by_cases e2 : ik = ⟨k, inst.short⟩
        · subst e2
          obtain ⟨k1, k2⟩ := keep c (ho0 _ hik) (by rw [hrep]; simp)
          exact absurd k1 e
        · exact carry _ _ ik e2 (ho0 ik hik)
    · rw [if_neg hrec] at hc
      obtain ⟨hn0, ho0⟩ := h.clients c ks hc
      refine ⟨hn0, ?_⟩
      intro ik hik
      by_cases e2 : ik = ⟨k, inst.short⟩
      · subst e2
        obtain ⟨k1, k2⟩ := keep c (ho0 _ hik) (by rw [hrep]; simp)
        obtain ⟨_, _, _, _, _, hcne, _⟩ := ho0 _ hik
        exfalso; apply hrec
        simp only [Bool.and_eq_true, Bool.or_eq_true, decide_eq_true_eq, Bool.not_eq_true']
        refine ⟨k2, ?_⟩
        rw [k1]
        cases hce : c.isEmpty with
        | false => rfl
        | true => exfalso; apply hcne; simpa using hce
      · exact carry _ _ ik e2 (ho0 ik hik)
  | some oldc =>
    rw [hrep] at hc
    simp only [dropReplaced] at hc
    rw [clientRemoveKey_get] at hc
    rw [hfin] at hc
    -- the set before the drop
    have before : ∀ c2 ks2, AL.get? (recordClient n.clientSets ⟨k, inst.short⟩ (some fin)) c2 = some ks2 →
        ks2.Nodup ∧ ∀ ik ∈ ks2, ik ≠ (⟨k, inst.short⟩ : IKey) ∨ c2 = fin.clientId ∨ c2 = oldc →
          (ik ≠ (⟨k, inst.short⟩ : IKey) → Owned n c2 ik) ∧
          (ik = (⟨k, inst.short⟩ : IKey) → c2 = fin.clientId →
            fin.clientId ≠ "" ∧ (fin.fromGrpc = true ∨ fin.fromCluster > 0)) := by
      intro c2 ks2 h2
      simp only [recordClient] at h2
      by_cases hrec : ((fin.fromGrpc || decide (fin.fromCluster > 0)) && !fin.clientId.isEmpty) = true
      · rw [if_pos hrec] at h2
        have hne : fin.clientId ≠ "" := by
          simp only [Bool.and_eq_true, Bool.not_eq_true'] at hrec
          intro e; rw [e] at hrec; simp at hrec
        have hor : fin.fromGrpc = true ∨ fin.fromCluster > 0 := by
          simp only [Bool.and_eq_true, Bool.or_eq_true, decide_eq_true_eq] at hrec; exact hrec.1
        by_cases e : fin.clientId = c2
        · subst e
          simp only [AL.get?_set_same, Option.some.injEq] at h2
          subst h2
          cases h0 : AL.get? n.clientSets fin.clientId with
          | none =>
            simp only [Option.getD_none]
            refine ⟨by simp [setInsert], ?_⟩
            intro ik hik _
            simp [setInsert] at hik
            subst hik
            exact ⟨fun hx => absurd rfl hx, fun _ _ => ⟨hne, hor⟩⟩
          | some ks0 =>
            simp only [Option.getD_some]
            obtain ⟨hn0, ho0⟩ := h.clients _ ks0 h0
            refine ⟨nodup_setInsert _ _ hn0, ?_⟩
            intro ik hik _
            rw [mem_setInsert] at hik
            refine ⟨?_, fun _ _ => ⟨hne, hor⟩⟩
            intro hx
            rcases hik with rfl | hik
            · exact absurd rfl hx
            · exact ho0 ik hik
        · rw [AL.get?_set_other _ _ _ _ e] at h2
          obtain ⟨hn0, ho0⟩ := h.clients c2 ks2 h2
          refine ⟨hn0, ?_⟩
          intro ik hik _
          exact ⟨fun _ => ho0 ik hik, fun _ e2 => absurd e2.symm e⟩
      · rw [if_neg hrec] at h2
        obtain ⟨hn0, ho0⟩ := h.clients c2 ks2 h2
        refine ⟨hn0, ?_⟩
        intro ik hik _
        refine ⟨fun _ => ho0 ik hik, ?_⟩
        intro e1 e2
        subst e1
        -- the old instance was recorded for fin.clientId and is not dropped (oldc ≠ fin.clientId)
        exfalso
        obtain ⟨_, old, g1, g2, g3, g4, g5⟩ := ho0 _ hik
        simp only at g1 g2
        rw [hg] at g1; cases g1
        rw [g2] at hfinal
        obtain ⟨f1, f2, f3, f4⟩ := hfinal
        rw [f4] at hrep
        by_cases hcnd : (!old.clientId.isEmpty && (keepOwner inst old).clientId != old.clientId) = true
        · simp only [Bool.and_eq_true, bne_iff_ne, ne_eq] at hcnd
          apply hcnd.2; rw [← f1, g3, e2]
        · rw [if_neg hcnd] at hrep; cases hrep
    by_cases e : oldc = c
    · subst e
      simp only [if_true] at hc
      cases hb : AL.get? (recordClient n.clientSets ⟨k, inst.short⟩ (some fin)) oldc with
      | none => rw [hb] at hc; simp at hc
      | some ks2 =>
        rw [hb] at hc
        simp only [Option.map_some, Option.some.injEq] at hc
        subst hc
        obtain ⟨hn2, ho2⟩ := before oldc ks2 hb
        refine ⟨hn2.erase _, ?_⟩
        intro ik hik
        have hne : ik ≠ ⟨k, inst.short⟩ := fun e2 => by
          subst e2; exact (List.Nodup.mem_erase_iff hn2).mp hik |>.1 rfl
        have hmem := List.mem_of_mem_erase hik
        exact carry _ _ ik hne ((ho2 ik hmem (Or.inl hne)).1 hne)
    · simp only [e, if_false] at hc
      obtain ⟨hn2, ho2⟩ := before c ks hc
      refine ⟨hn2, ?_⟩
      intro ik hik
      by_cases e2 : ik = ⟨k, inst.short⟩
      · subst e2
        by_cases e3 : c = fin.clientId
        · subst e3
          obtain ⟨q1, q2⟩ := (ho2 _ hik (Or.inr (Or.inl rfl))).2 rfl rfl
          exact ownFin _ q1 q2
        · -- recorded for a third client: impossible, the old instance had exactly one owner (oldc)
          exfalso
          have hin : (⟨k, inst.short⟩ : IKey) ∈ ks → AL.get? n.clientSets c = some ks → False := by
            intro hm hcs
            obtain ⟨_, ho0⟩ := h.clients c ks hcs
            obtain ⟨k1, _⟩ := keep c (ho0 _ hm) (by rw [hrep]; intro hx; cases hx; exact e rfl)
            exact e3 k1.symm
          simp only [recordClient] at hc
          split at hc
          · rw [AL.get?_set_other _ _ _ _ (fun hx => e3 hx.symm)] at hc
            exact hin hik hc
          · exact hin hik hc
      · exact carry _ _ ik e2 ((ho2 ik hik (Or.inl e2)).1 e2)

theorem stampLocal_origin (n : Naming) (inst : Inst) (hash : Nat) (h : OriginOK inst) :
    OriginOK (n.stampLocal inst hash) := by
  unfold Naming.stampLocal
  split
  · intro hne; exact absurd rfl hne
  · exact h

theorem stampLocal_short (n : Naming) (inst : Inst) (hash : Nat) : (n.stampLocal inst hash).short = inst.short := by
  unfold Naming.stampLocal; split <;> rfl

theorem inv_updateInstance (n : Naming) (k : SKey) (inst : Inst) (tag : Option Tag) (fs : Bool) (now : Int)
    (hash : Nat) (h : Inv n) (horig : OriginOK inst) : Inv (n.updateInstance k inst tag fs now hash) := by
  unfold Naming.updateInstance
  have h1 := inv_ensureService n k now h
  cases hg : AL.get? (n.ensureService k now).services k with
  | none => exact h1
  | some svc =>
    exact inv_putInstance _ k svc _ tag fs h1 hg (stampLocal_origin _ _ _ (by exact horig))

/-! ### removal -/

theorem removeInstance_other (s : Svc) (key k : ShortKey) (c : Option String) (now : Int) (h : key ≠ k) :
    AL.get? (s.removeInstance key c now).1.insts k = AL.get? s.insts k := by
  unfold Svc.removeInstance
  split
  · rfl
  · cases AL.get? s.insts key with
    | none => rfl
    | some old => simp only [Svc.dropInst]; exact AL.get?_erase_other _ _ _ h

theorem inv_removeInstance (n : Naming) (k : SKey) (short : ShortKey) (c : Option String) (now : Int)
    (h : Inv n) : Inv (n.removeInstance k short c now).1 := by
  unfold Naming.removeInstance
  cases hg : AL.get? n.services k with
  | none => exact h
  | some svc =>
    simp only
    have hsvc := h.svcs k svc hg
    obtain ⟨hsome, hnone⟩ := removeInstance_spec svc short c now
    apply inv_setService n k _ _ _ h (by simp [hg]) (svcInv_removeInstance svc short c now hsvc)
    -- entries other than the removed instance keep their owner
    have carry : ∀ es cs' c2 ik, ik ≠ (⟨k, short⟩ : IKey) → Owned n c2 ik →
        Owned { n with services := AL.set n.services k (svc.removeInstance short c now).1, emptySet := es,
                       clientSets := cs' } c2 ik := by
      intro es cs' c2 ik hne ho
      apply owned_of_same n _ c2 ik ho
      intro s i h1 h2
      by_cases e : k = ik.skey
      · subst e
        rw [hg] at h1; cases h1
        refine ⟨(svc.removeInstance short c now).1, by simp, ?_⟩
        have hsk : short ≠ ik.short := by intro e2; apply hne; cases ik; simp_all
        rw [removeInstance_other _ _ _ _ _ hsk]; exact h2
      · exact ⟨s, by simp only [AL.get?_set_other _ _ _ _ e]; exact h1, h2⟩
    intro c2 ks hc
    cases hrem : (svc.removeInstance short c now).2 with
    | none =>
      rw [hrem] at hc
      simp only at hc
      obtain ⟨hn0, ho0⟩ := h.clients c2 ks hc
      refine ⟨hn0, ?_⟩
      intro ik hik
      have hs := hnone hrem
      apply owned_of_same n _ c2 ik (ho0 ik hik)
      intro s i h1 h2
      by_cases e : k = ik.skey
      · subst e
        rw [hg] at h1; cases h1
        exact ⟨(svc.removeInstance short c now).1, by simp, by rw [hs]; exact h2⟩
      · exact ⟨s, by simp only [AL.get?_set_other _ _ _ _ e]; exact h1, h2⟩
    | some old =>
      rw [hrem] at hc
      simp only at hc
      obtain ⟨hold, _⟩ := hsome old hrem
      -- the removed instance was recorded (at most) for its own client id
      have only : ∀ c3 ks3, AL.get? n.clientSets c3 = some ks3 → (⟨k, short⟩ : IKey) ∈ ks3 → c3 = old.clientId := by
        intro c3 ks3 h3 hm
        obtain ⟨_, ho3⟩ := h.clients c3 ks3 h3
        obtain ⟨s, i, g1, g2, g3, _, _⟩ := ho3 _ hm
        simp only at g1 g2
        rw [hg] at g1; cases g1
        rw [hold] at g2; cases g2
        exact g3.symm
      by_cases hemp : (!old.clientId.isEmpty) = true
      · rw [if_pos hemp, clientRemoveKey_get] at hc
        by_cases e : old.clientId = c2
        · subst e
          simp only [if_true] at hc
          cases h0 : AL.get? n.clientSets old.clientId with
          | none => rw [h0] at hc; simp at hc
          | some ks0 =>
            rw [h0] at hc
            simp only [Option.map_some, Option.some.injEq] at hc
            subst hc
            obtain ⟨hn0, ho0⟩ := h.clients _ ks0 h0
            refine ⟨hn0.erase _, ?_⟩
            intro ik hik
            have hne : ik ≠ ⟨k, short⟩ := fun e2 => by
              subst e2; exact (List.Nodup.mem_erase_iff hn0).mp hik |>.1 rfl
            exact carry _ _ _ ik hne (ho0 ik (List.mem_of_mem_erase hik))
        · simp only [e, if_false] at hc
          obtain ⟨hn0, ho0⟩ := h.clients c2 ks hc
          refine ⟨hn0, ?_⟩
          intro ik hik
          by_cases e2 : ik = ⟨k, short⟩
          · subst e2; exact absurd (only c2 ks hc hik).symm e
          · exact carry _ _ _ ik e2 (ho0 ik hik)
      · rw [if_neg hemp] at hc
        obtain ⟨hn0, ho0⟩ := h.clients c2 ks hc
        refine ⟨hn0, ?_⟩
        intro ik hik
        by_cases e2 : ik = ⟨k, short⟩
        · subst e2
          exfalso
          obtain ⟨_, _, _, _, _, hne, _⟩ := ho0 _ hik
          have := only c2 ks hc hik
          apply hemp
          rw [← this]
          cases hce : c2.isEmpty with
          | false => rfl
          | true => exfalso; apply hne; simpa using hce
        · exact carry _ _ _ ik e2 (ho0 ik hik)

theorem inv_removeClient (n : Naming) (c : String) (now : Int) (h : Inv n) : Inv (n.removeClient c now) := by
  unfold Naming.removeClient
  cases hg : AL.get? n.clientSets c with
  | none => exact h
  | some keys =>
    simp only
    have h0 : Inv { n with clientSets := AL.erase n.clientSets c } := by
      refine ⟨h.svcKeys, h.svcs, h.idxNodup, h.idx, ?_⟩
      intro c2 ks hc
      by_cases e : c = c2
      · subst e; rw [AL.get?_erase_same] at hc; cases hc
      · rw [AL.get?_erase_other _ _ _ e] at hc
        obtain ⟨a, b⟩ := h.clients c2 ks hc
        exact ⟨a, fun ik hik => by
          obtain ⟨s, i, g1, g2, g3, g4, g5⟩ := b ik hik
          exact ⟨s, i, g1, g2, g3, g4, g5⟩⟩
    have fold : ∀ (ks : List IKey) (acc : Naming), Inv acc → Inv (ks.foldl (Naming.removeClientStep c now) acc) := by
      intro ks
      induction ks with
      | nil => intro acc ha; exact ha
      | cons ik rest ih =>
        intro acc ha
        simp only [List.foldl_cons]
        apply ih
        unfold Naming.removeClientStep
        split
        · exact ha
        · exact inv_removeInstance acc _ _ _ _ ha
    exact fold keys _ h0

/-! ### time check -/

theorem skip_of_not_timeout (s : Svc) (key : ShortKey) (i : Inst) (limit : Int)
    (hg : AL.get? s.insts key = some i) (hn : i.enableTimeout = false) : s.skipTimeout key limit = true := by
  unfold Svc.skipTimeout; rw [hg]; simp [hn]

/-- instances that are not subject to the heartbeat clock come through a time check untouched -/
theorem expireFold_keeps (now limit : Int) (key : ShortKey) (i : Inst) (hn : i.enableTimeout = false) :
    ∀ (keys : List ShortKey) (acc : Svc × List ShortKey), AL.get? acc.1.insts key = some i →
      AL.get? (keys.foldl (Svc.expireStep now limit) acc).1.insts key = some i := by
  intro keys
  induction keys with
  | nil => intro acc h; exact h
  | cons k rest ih =>
    intro acc h
    simp only [List.foldl_cons]
    apply ih
    unfold Svc.expireStep
    by_cases hs : acc.1.skipTimeout k limit = true
    · simp only [hs, if_true]; exact h
    · simp only [hs, Bool.false_eq_true, if_false]
      have hne : k ≠ key := by
        intro e; subst e; exact hs (skip_of_not_timeout _ _ _ _ h hn)
      rw [removeInstance_other _ _ _ _ _ hne]; exact h

theorem unhealthyFold_keeps (limit : Int) (key : ShortKey) (i : Inst) (hn : i.enableTimeout = false) :
    ∀ (keys : List ShortKey) (acc : Svc × List ShortKey), AL.get? acc.1.insts key = some i →
      AL.get? (keys.foldl (Svc.unhealthyStep limit) acc).1.insts key = some i := by
  intro keys
  induction keys with
  | nil => intro acc h; exact h
  | cons k rest ih =>
    intro acc h
    simp only [List.foldl_cons]
    apply ih
    unfold Svc.unhealthyStep
    by_cases hs : acc.1.skipTimeout k limit = true
    · simp only [hs, if_true]; exact h
    · simp only [hs, Bool.false_eq_true, if_false]
      have hne : k ≠ key := by
        intro e; subst e; exact hs (skip_of_not_timeout _ _ _ _ h hn)
      rw [markUnhealthy_other _ _ _ hne]; exact h

theorem timeCheck_keeps (s : Svc) (ht ot now : Int) (key : ShortKey) (i : Inst)
    (hg : AL.get? s.insts key = some i) (hn : i.enableTimeout = false) :
    AL.get? (s.timeCheck ht ot now).1.insts key = some i := by
  unfold Svc.timeCheck Svc.unhealthyPass
  simp only
  apply unhealthyFold_keeps ht key i hn
  simp only
  unfold Svc.expirePass
  exact expireFold_keeps now ot key i hn _ _ hg

theorem owned_not_timeout (i : Inst) (h : i.fromGrpc = true ∨ i.fromCluster > 0) : i.enableTimeout = false := by
  unfold Inst.enableTimeout
  rcases h with h | h
  · simp [h]
  · simp [h]

theorem inv_timeCheckStep (now : Int) (acc : Naming) (e : SKey × Svc) (h : Inv acc) :
    Inv (Naming.timeCheckStep now acc e) := by
  unfold Naming.timeCheckStep
  cases hg : AL.get? acc.services e.1 with
  | none => exact h
  | some svc =>
    simp only
    apply inv_setService acc e.1 _ _ _ h (by simp [hg]) (svcInv_timeCheck svc _ _ _ (h.svcs _ _ hg))
    intro c ks hc
    obtain ⟨hn0, ho0⟩ := h.clients c ks hc
    refine ⟨hn0, ?_⟩
    intro ik hik
    obtain ⟨s, i, g1, g2, g3, g4, g5⟩ := ho0 ik hik
    by_cases e2 : e.1 = ik.skey
    · rw [← e2, hg] at g1; cases g1
      refine ⟨(svc.timeCheck (now - acc.cfg.healthTimeout) (now - acc.cfg.instTimeout) now).1, i, by rw [← e2]; simp, ?_, g3, g4, g5⟩
      exact timeCheck_keeps _ _ _ _ _ _ g2 (owned_not_timeout i g5)
    · exact ⟨s, i, by simp only [AL.get?_set_other _ _ _ _ e2]; exact g1, g2, g3, g4, g5⟩

theorem inv_timeCheck (n : Naming) (now : Int) (h : Inv n) : Inv (n.timeCheck now) := by
  unfold Naming.timeCheck
  have fold : ∀ (l : List (SKey × Svc)) (acc : Naming), Inv acc → Inv (l.foldl (Naming.timeCheckStep now) acc) := by
    intro l
    induction l with
    | nil => intro acc ha; exact ha
    | cons e rest ih => intro acc ha; simp only [List.foldl_cons]; exact ih _ (inv_timeCheckStep now acc e ha)
  exact fold _ _ h

/-! ### dropping empty services -/

theorem inv_clearOneEmpty (n : Naming) (k : SKey) (now : Int) (h : Inv n) : Inv (n.clearOneEmpty k now) := by
  unfold Naming.clearOneEmpty
  cases hg : AL.get? n.services k with
  | none => exact h
  | some svc =>
    simp only
    split
    · rename_i hcond
      have hsz : svc.instSize ≤ 0 := by
        simp only [Bool.and_eq_true, decide_eq_true_eq] at hcond; exact hcond.1
      have hempty : svc.insts = [] := by
        have := (h.svcs k svc hg).size
        cases hl : svc.insts with
        | nil => rfl
        | cons a t => rw [hl] at this; simp at this; omega
      refine ⟨AL.nodupKeys_erase _ _ h.svcKeys, ?_, h.idxNodup.erase _, ?_, ?_⟩
      · intro k2 s2 h2
        by_cases e : k = k2
        · subst e; rw [AL.get?_erase_same] at h2; cases h2
        · rw [AL.get?_erase_other _ _ _ e] at h2; exact h.svcs k2 s2 h2
      · intro k2
        rw [List.Nodup.mem_erase_iff h.idxNodup]
        by_cases e : k = k2
        · subst e; simp [AL.get?_erase_same]
        · simp only [AL.get?_erase_other _ _ _ e, ← h.idx k2]
          exact ⟨fun hh => hh.2, fun hh => ⟨fun e' => e e'.symm, hh⟩⟩
      · intro c ks hc
        obtain ⟨hn0, ho0⟩ := h.clients c ks hc
        refine ⟨hn0, ?_⟩
        intro ik hik
        obtain ⟨s, i, g1, g2, g3, g4, g5⟩ := ho0 ik hik
        have hne : k ≠ ik.skey := by
          intro e; rw [← e, hg] at g1; cases g1; rw [hempty] at g2; simp at g2
        exact ⟨s, i, by simp only [AL.get?_erase_other _ _ _ hne]; exact g1, g2, g3, g4, g5⟩
    · exact h

theorem inv_removeService (n : Naming) (k : SKey) (h : Inv n) : Inv (n.removeService k).1 := by
  unfold Naming.removeService
  cases hg : AL.get? n.services k with
  | none => exact h
  | some svc =>
    simp only
    split
    · exact inv_clearOneEmpty n k _ h
    · exact h

end RNacos.Naming

namespace RNacos.Naming

/-! ### the result of a host probe (`PerpetualHostSniffing`) -/

theorem svcInv_probeValid (s : Svc) (key : ShortKey) (hs : SvcInv s) : SvcInv (s.probeValid key) := by
  unfold Svc.probeValid
  cases hg : AL.get? s.insts key with
  | none => exact hs
  | some i =>
    simp only
    by_cases hh : (!i.healthy && !i.ephemeral) = true
    · simp only [hh, if_true]
      have hh1 : i.healthy = false := by cases h : i.healthy <;> simp_all
      have hk : ({ i with healthy := true } : Inst).short = key := hs.keyed key i hg
      have e := svcInv_replaceInst s i { i with healthy := true } true hs (by rw [hk]; exact hg)
      unfold Svc.replaceInst at e
      simp only [hh1, hk] at e
      refine ⟨e.nodup, e.keyed, e.size, ?_, ?_, ?_⟩
      · have := e.healthy; simpa using this
      · have := e.perp; simpa using this
      · have := e.perpNodup; simpa using this
    · simp only [hh, Bool.false_eq_true, if_false]; exact hs

/-- a probe changes at most the health flag of the instance at the host: who owns it stays -/
theorem probe_keeps_owner (s : Svc) (key k : ShortKey) (ok : Bool) (i : Inst) (hg : AL.get? s.insts k = some i) :
    ∃ i', AL.get? (if ok then s.probeValid key else s.markUnhealthy key).insts k = some i' ∧
      i'.clientId = i.clientId ∧ i'.fromGrpc = i.fromGrpc ∧ i'.fromCluster = i.fromCluster := by
  by_cases hk : key = k
  · subst hk
    cases ok with
    | true =>
      simp only [if_true]
      unfold Svc.probeValid
      simp only [hg]
      split
      · exact ⟨{ i with healthy := true }, by simp, rfl, rfl, rfl⟩
      · exact ⟨i, hg, rfl, rfl, rfl⟩
    | false =>
      simp only [Bool.false_eq_true, if_false]
      unfold Svc.markUnhealthy
      simp only [hg]
      split
      · exact ⟨{ i with healthy := false }, by simp, rfl, rfl, rfl⟩
      · exact ⟨i, hg, rfl, rfl, rfl⟩
  · refine ⟨i, ?_, rfl, rfl, rfl⟩
    cases ok with
    | true =>
      simp only [if_true]
      unfold Svc.probeValid
      cases hgk : AL.get? s.insts key with
      | none => exact hg
      | some j =>
        simp only
        split
        · simp only; rw [AL.get?_set_other _ _ _ _ hk]; exact hg
        · exact hg
    | false =>
      simp only [Bool.false_eq_true, if_false]
      rw [markUnhealthy_other _ _ _ hk]; exact hg

theorem inv_probe (n : Naming) (k : SKey) (short : ShortKey) (ok : Bool) (h : Inv n) : Inv (n.probe k short ok) := by
  unfold Naming.probe
  cases hg : AL.get? n.services k with
  | none => exact h
  | some svc =>
    simp only
    have hsvc : SvcInv (if ok then svc.probeValid short else svc.markUnhealthy short) := by
      cases ok
      · simpa using svcInv_markUnhealthy svc short (h.svcs _ _ hg)
      · simpa using svcInv_probeValid svc short (h.svcs _ _ hg)
    have := inv_setService n k (if ok then svc.probeValid short else svc.markUnhealthy short) n.emptySet n.clientSets h
      (by simp [hg]) hsvc ?_
    · simpa using this
    · intro c ks hc
      obtain ⟨hn0, ho0⟩ := h.clients c ks hc
      refine ⟨hn0, ?_⟩
      intro ik hik
      obtain ⟨s, i, g1, g2, g3, g4, g5⟩ := ho0 ik hik
      by_cases e2 : k = ik.skey
      · rw [← e2, hg] at g1; cases g1
        obtain ⟨i', hi', c1, c2, c3⟩ := probe_keeps_owner svc short ik.short ok i g2
        exact ⟨_, i', by rw [← e2]; simp, hi', by rw [c1]; exact g3, g4, by rw [c2, c3]; exact g5⟩
      · exact ⟨s, i, by simp only [AL.get?_set_other _ _ _ _ e2]; exact g1, g2, g3, g4, g5⟩

end RNacos.Naming

namespace RNacos.Naming

/-! ### a change of the process range (`ClusterRefreshProcessRange`) -/

theorem get?_mapVals {κ ν : Type} [DecidableEq κ] (l : List (κ × ν)) (f : κ × ν → ν) (k : κ) :
    AL.get? (l.map fun e => (e.1, f e)) k = (AL.get? l k).map fun v => f (k, v) := by
  induction l with
  | nil => rfl
  | cons e l ih =>
    simp only [List.map_cons, AL.get?]
    by_cases h : e.1 = k
    · subst h; simp
    · simp [h, ih]

theorem refreshRange_insts (s : Svc) : s.refreshRange.insts = s.insts := by
  unfold Svc.refreshRange; rfl

theorem inv_refreshRange (n : Naming) (r : Nat × Nat) (hashOf : SKey → Nat) (h : Inv n) :
    Inv (n.refreshRange r hashOf) := by
  unfold Naming.refreshRange
  have hmap : (n.services.map fun e => if isRange r (hashOf e.1) then (e.1, e.2.refreshRange) else e) =
      n.services.map fun e => (e.1, if isRange r (hashOf e.1) then e.2.refreshRange else e.2) := by
    apply List.map_congr_left
    intro e _
    split <;> rfl
  rw [hmap]
  have hget : ∀ k, AL.get? (n.services.map fun e => (e.1, if isRange r (hashOf e.1) then e.2.refreshRange else e.2)) k =
      (AL.get? n.services k).map fun v => if isRange r (hashOf k) then v.refreshRange else v := by
    intro k
    exact get?_mapVals n.services (fun e => if isRange r (hashOf e.1) then e.2.refreshRange else e.2) k
  refine ⟨?_, ?_, h.idxNodup, ?_, ?_⟩
  · unfold AL.NodupKeys
    simp only [List.map_map, Function.comp_def]
    exact h.svcKeys
  · intro k s hs
    simp only at hs
    rw [hget k] at hs
    cases hg : AL.get? n.services k with
    | none => rw [hg] at hs; cases hs
    | some v =>
      rw [hg] at hs
      simp only [Option.map_some, Option.some.injEq] at hs
      subst hs
      split
      · exact svcInv_refreshRange v (h.svcs k v hg)
      · exact h.svcs k v hg
  · intro k
    simp only
    rw [hget k, h.idx k]
    cases AL.get? n.services k <;> simp
  · intro c ks hc
    obtain ⟨hn0, ho0⟩ := h.clients c ks hc
    refine ⟨hn0, ?_⟩
    intro ik hik
    obtain ⟨s, i, g1, g2, g3, g4, g5⟩ := ho0 ik hik
    refine ⟨if isRange r (hashOf ik.skey) then s.refreshRange else s, i, ?_, ?_, g3, g4, g5⟩
    · simp only; rw [hget ik.skey, g1]; rfl
    · split
      · rw [refreshRange_insts]; exact g2
      · exact g2

end RNacos.Naming
