import RNacos.Lemmas.LogRead
/-
Reopening: `LogInnerManager::init` on the bytes of a well-formed file reconstructs the same entries.
-/
namespace RNacos.LogFile
open RNacos.Varint RNacos.Spec.Stream RNacos.FileReader RNacos.BufReader
open RNacos.IndexFile (writeAt)

theorem unbeN_beN8 (n : Nat) (h : n < 2 ^ 64) : unbeN (beN 8 n) = n := by
  unfold unbeN beN
  simp only [List.range, List.range.loop, List.reverse_cons, List.reverse_nil, List.nil_append,
    List.cons_append, List.map_cons, List.map_nil, List.foldl]
  omega

theorem unbeN_beN2 (n : Nat) (h : n < 65536) : unbeN (beN 2 n) = n := by
  unfold unbeN beN
  simp only [List.range, List.range.loop, List.reverse_cons, List.reverse_nil, List.nil_append,
    List.cons_append, List.map_cons, List.map_nil, List.foldl]
  omega

theorem drop_take_mid (A B C : List Nat) (n m : Nat) (hA : A.length = n) (hB : B.length = m) :
    ((A ++ B ++ C).drop n).take m = B := by
  subst hA hB
  rw [List.append_assoc, List.drop_left, List.take_left]

/-- the header fields that `init` reads back -/
theorem header_fields (t fi iv ae : Nat) (rest : List Nat) (ht : t < 2 ^ 64) (hf : fi < 2 ^ 64) (hi : iv < 65536)
    (ha : ae < 65536) :
    unbeN (((header t fi iv ae ++ rest).drop 6).take 8) = t ∧
    unbeN (((header t fi iv ae ++ rest).drop 14).take 8) = fi ∧
    unbeN (((header t fi iv ae ++ rest).drop 22).take 2) = ae ∧
    unbeN (((header t fi iv ae ++ rest).drop 24).take 2) = iv := by
  unfold header
  refine ⟨?_, ?_, ?_, ?_⟩
  · have e : beN 4 0x42313644 ++ beN 2 0 ++ beN 8 t ++ beN 8 fi ++ beN 2 ae ++ beN 2 iv ++ beN 2 0 ++ [0, 0, 0, 0] ++ rest =
        (beN 4 0x42313644 ++ beN 2 0) ++ beN 8 t ++ (beN 8 fi ++ beN 2 ae ++ beN 2 iv ++ beN 2 0 ++ [0, 0, 0, 0] ++ rest) := by
      simp
    rw [e, drop_take_mid _ _ _ 6 8 (by simp [beN_length]) (beN_length _ _), unbeN_beN8 t ht]
  · have e : beN 4 0x42313644 ++ beN 2 0 ++ beN 8 t ++ beN 8 fi ++ beN 2 ae ++ beN 2 iv ++ beN 2 0 ++ [0, 0, 0, 0] ++ rest =
        (beN 4 0x42313644 ++ beN 2 0 ++ beN 8 t) ++ beN 8 fi ++ (beN 2 ae ++ beN 2 iv ++ beN 2 0 ++ [0, 0, 0, 0] ++ rest) := by
      simp
    rw [e, drop_take_mid _ _ _ 14 8 (by simp [beN_length]) (beN_length _ _), unbeN_beN8 fi hf]
  · have e : beN 4 0x42313644 ++ beN 2 0 ++ beN 8 t ++ beN 8 fi ++ beN 2 ae ++ beN 2 iv ++ beN 2 0 ++ [0, 0, 0, 0] ++ rest =
        (beN 4 0x42313644 ++ beN 2 0 ++ beN 8 t ++ beN 8 fi) ++ beN 2 ae ++ (beN 2 iv ++ beN 2 0 ++ [0, 0, 0, 0] ++ rest) := by
      simp
    rw [e, drop_take_mid _ _ _ 22 2 (by simp [beN_length]) (beN_length _ _), unbeN_beN2 ae ha]
  · have e : beN 4 0x42313644 ++ beN 2 0 ++ beN 8 t ++ beN 8 fi ++ beN 2 ae ++ beN 2 iv ++ beN 2 0 ++ [0, 0, 0, 0] ++ rest =
        (beN 4 0x42313644 ++ beN 2 0 ++ beN 8 t ++ beN 8 fi ++ beN 2 ae) ++ beN 2 iv ++ (beN 2 0 ++ [0, 0, 0, 0] ++ rest) := by
      simp
    rw [e, drop_take_mid _ _ _ 24 2 (by simp [beN_length]) (beN_length _ _), unbeN_beN2 iv hi]

end RNacos.LogFile

namespace RNacos.LogFile
open RNacos.Varint RNacos.Spec.Stream RNacos.FileReader RNacos.BufReader
open RNacos.IndexFile (writeAt)

/-- the state `init` computes from the bytes of a file holding `es`, before the last term is looked up -/
def reloaded (f : LogFile) (es : List Rec) (fl pre sp : Nat) : LogFile :=
  { f with fileLen := fl, indexs := idxList f.startIndex f.interval es,
           indexCursor := (idxBytes f.interval es).length + 32, dataCursor := offsetOf es es.length,
           msgCount := es.length, lastTerm := pre, curCount := es.length % f.interval,
           splitOff := max sp f.startIndex, pos := offsetOf es es.length, needSeek := false }

/-- on a file whose index entries are complete the repair has nothing to do -/
theorem repairIndex_noop (fuel : Nat) (f : LogFile) (es : List Rec) (h : WF f es) : repairIndex fuel f = f := by
  cases fuel with
  | zero => rfl
  | succ n =>
    unfold repairIndex
    have hlt : f.msgCount - ((lastIdx f).logIndex - f.startIndex) < f.interval := by
      rw [lastIdx_wf f es h, h.msg]
      unfold entry; simp only
      have := Nat.mod_lt es.length h.ivl
      have := Nat.div_add_mod es.length f.interval
      have e : es.length / f.interval * f.interval = f.interval * (es.length / f.interval) := Nat.mul_comm _ _
      omega
    simp [hlt]

theorem initTerm_wf (f : LogFile) (es : List Rec) (t : Nat) (h : WF f es) : WF (initTerm f t) es := by
  unfold initTerm
  split
  · split
    · exact h
    · split
      · exact h.setTerm _
      · exact h
  · exact h

/-- **reopen**: `init` on the bytes of a well-formed file yields a well-formed file with the same entries,
whatever cursors the previous process had and whatever split-off the catalogue passes -/
theorem load_eq (f : LogFile) (es : List Rec) (h : WF f es) (fl pre sp : Nat) :
    load f.bytes fl f.startIndex pre sp = initTerm (reloaded f es fl pre sp) pre ∧ WF (reloaded f es fl pre sp) es := by
  -- (the repair of missing index entries is a no-op on a well-formed file: `repairIndex_noop`)
  obtain ⟨z1, z2, hb, hz1, hz2, hsum⟩ := h.bytes
  have hH := header_length f.hdrTerm f.firstIndex f.interval f.areaEnd
  have hhead : (f.bytes ++ List.replicate (dataStart - f.bytes.length) 0).take dataStart =
      header f.hdrTerm f.firstIndex f.interval f.areaEnd ++ (idxBytes f.interval es ++ z1) := by
    have hl : (header f.hdrTerm f.firstIndex f.interval f.areaEnd ++ (idxBytes f.interval es ++ z1)).length = dataStart := by
      simp only [List.length_append, hH]; omega
    have hge : dataStart - f.bytes.length = 0 := by
      rw [hb]; simp only [List.length_append] at hl ⊢; omega
    rw [hge, List.replicate_zero, List.append_nil, hb, ← hl, List.take_left]
  obtain ⟨hf1, hf2, hf3, hf4⟩ := header_fields f.hdrTerm f.firstIndex f.interval f.areaEnd (idxBytes f.interval es ++ z1)
    h.hdrOK.1 h.hdrOK.2 h.ivl16 (by have := h.area; unfold dataStart at this; omega)
  have hdrop : (header f.hdrTerm f.firstIndex f.interval f.areaEnd ++ (idxBytes f.interval es ++ z1)).drop 32 =
      idxBytes f.interval es ++ z1 := by rw [← hH, List.drop_left]
  have hz1pos : 0 < z1.length := by
    have := h.ic; have := h.icEnd; have := h.area; omega
  have hri := readIndexs_layout f.startIndex f.interval es z1 h.ivl h.bound hz1 hz1pos (by
    intro j hj
    have := h.room j hj; have := h.area
    simp only [List.length_append]; omega)
  have hqle : es.length / f.interval * f.interval ≤ es.length := Nat.div_mul_le_self _ _
  have hlast : (idxList f.startIndex f.interval es).getLast?.getD ⟨f.startIndex, dataStart⟩ =
      entry f.startIndex f.interval es (es.length / f.interval) := by
    rw [idxList_eq, List.range_succ, List.map_append]; simp
  obtain ⟨pre2, z3, hb2, hpl2, hz3⟩ := bytes_at f es (es.length / f.interval * f.interval) h
  have hrem : (es.drop (es.length / f.interval * f.interval)).length < 65535 := by
    rw [List.length_drop]
    have := Nat.mod_lt es.length h.ivl
    have := Nat.div_add_mod es.length f.interval
    have := h.ivl16
    rw [Nat.mul_comm] at hqle
    have e : es.length / f.interval * f.interval = f.interval * (es.length / f.interval) := Nat.mul_comm _ _
    omega
  have hmv : moveByCount f.bytes (entry f.startIndex f.interval es (es.length / f.interval)) f.startIndex 0xffff =
      (offsetOf es es.length, es.length) := by
    have hfi : (entry f.startIndex f.interval es (es.length / f.interval)) =
        ⟨f.startIndex + es.length / f.interval * f.interval, pre2.length⟩ := by rw [hpl2]; rfl
    rw [hfi, hb2, moveByCount_layout pre2 z3 _ _ _ _ (fun r hr => h.recs r (List.mem_of_mem_drop hr)) hz3]
    have htk : (es.drop (es.length / f.interval * f.interval)).take 0xffff = es.drop (es.length / f.interval * f.interval) :=
      List.take_of_length_le (by omega)
    rw [htk, hpl2]
    congr 1
    · unfold offsetOf
      rw [List.take_length, dataBytes_take_drop es (es.length / f.interval * f.interval), List.length_append]; omega
    · rw [List.length_drop] at hrem ⊢; omega
  -- the file before the term of the last record is looked up
  have hf0 : WF (reloaded f es fl pre sp) es := by
    unfold reloaded
    exact { recs := h.recs, idx := h.idx, ivl := h.ivl, ivl16 := h.ivl16, area := h.area, first := h.first,
            split := by simp only; omega, bound := h.bound, msg := rfl, cur := rfl,
            dc := rfl, indexs := rfl, ic := by simp only; omega,
            icEnd := by simp only; have := h.ic; have := h.icEnd; omega,
            room := h.room, bytes := ⟨z1, z2, hb, hz1, hz2, hsum⟩, posOK := Or.inr rfl, hdrOK := h.hdrOK }
  have hne : ¬ (f.interval = 0) := by have := h.ivl; omega
  refine ⟨?_, hf0⟩
  unfold load
  simp only [hhead, hf1, hf2, hf3, hf4, hdrop, hri, hlast, hmv, hne, if_false]
  have hrep := repairIndex_noop (es.length + 1) (reloaded f es fl pre sp) es hf0
  unfold reloaded at hrep
  rw [hrep]
  rfl

theorem load_wf (f : LogFile) (es : List Rec) (h : WF f es) (fl pre sp : Nat) :
    WF (load f.bytes fl f.startIndex pre sp) es := by
  obtain ⟨he, hw⟩ := load_eq f es h fl pre sp
  rw [he]; exact initTerm_wf _ _ _ hw

end RNacos.LogFile
