import RNacos.Lemmas.MgrBasic
/-
`RaftLogManager::write` / `write_batch` refine the list specification's `append`, for every fullness oracle:
where the files roll over is invisible.
-/
namespace RNacos.LogManager
open RNacos.LogStore (Ent Kind)

def fresh (id n : Nat) : File := { id := id, start := n, splitOff := n, closed := false, count := 0, recs := [] }

theorem switchNew_nil (n : Nat) : switchNew [] n = [fresh 1 n] := rfl

theorem switchNew_snoc (ys : List File) (l : File) (n : Nat) :
    switchNew (ys ++ [l]) n = ys ++ [{ l with closed := true, count := n - l.start }, fresh (l.id + 1) n] := by
  simp [switchNew, fresh]

theorem pushRec_snoc (ys : List File) (l : File) (e : Ent) :
    pushRec (ys ++ [l]) e = ys ++ [{ l with recs := l.recs ++ [e] }] := by
  simp [pushRec]

theorem absEnts_snoc (ys : List File) (l : File) : absEnts (ys ++ [l]) = absEnts ys ++ visible l := by
  simp [absEnts, List.flatMap_append]

theorem absNext_snoc (ys : List File) (l : File) : absNext (ys ++ [l]) = some (endIdx l) := by
  simp [absNext]

theorem fileInv_fresh (id n : Nat) : FileInv (fresh id n) :=
  ⟨by intro j h; simp [fresh] at h, by simp [fresh], by simp [fresh, endIdx]⟩

theorem fileInv_push (l : File) (e : Ent) (h : FileInv l) (he : e.index = endIdx l) :
    FileInv { l with recs := l.recs ++ [e] } := by
  refine ⟨?_, h.lo, ?_⟩
  · intro j hj
    simp only [List.length_append, List.length_cons, List.length_nil] at hj
    by_cases hlt : j < l.recs.length
    · simp only [List.getElem_append_left hlt]; exact h.ok j hlt
    · have : j = l.recs.length := by omega
      subst this
      simp [he, endIdx]
  · have := h.hi; simp only [endIdx, List.length_append, List.length_cons, List.length_nil] at *; omega

theorem visible_push (l : File) (e : Ent) (h : l.splitOff ≤ e.index) :
    visible { l with recs := l.recs ++ [e] } = visible l ++ [e] := by
  simp [visible, List.filter_append, h]

theorem fileInv_close (l : File) (h : FileInv l) (n : Nat) :
    FileInv { l with closed := true, count := n } := ⟨h.ok, h.lo, h.hi⟩

/-- closing the last file and opening a new one at its end index keeps the chain and shows nothing new -/
theorem chain_switch (ys : List File) (l : File) (hc : Chain (ys ++ [l])) :
    Chain (switchNew (ys ++ [l]) (endIdx l)) ∧ absEnts (switchNew (ys ++ [l]) (endIdx l)) = absEnts (ys ++ [l])
      ∧ absNext (switchNew (ys ++ [l]) (endIdx l)) = some (endIdx l) := by
  rw [switchNew_snoc]
  obtain ⟨hp, hl, _⟩ := (chain_snoc_iff ys l).1 hc
  refine ⟨?_, ?_, ?_⟩
  · have : ys ++ [{ l with closed := true, count := endIdx l - l.start }, fresh (l.id + 1) (endIdx l)]
        = (ys ++ [{ l with closed := true, count := endIdx l - l.start }]) ++ [fresh (l.id + 1) (endIdx l)] := by simp
    rw [this, chain_snoc_iff, pre_snoc_iff]
    refine ⟨⟨hp, ⟨rfl, by simp [endIdx]⟩, fileInv_close l hl _, by simp [fresh, endIdx]⟩, fileInv_fresh _ _, rfl⟩
  · have : ys ++ [{ l with closed := true, count := endIdx l - l.start }, fresh (l.id + 1) (endIdx l)]
        = (ys ++ [{ l with closed := true, count := endIdx l - l.start }]) ++ [fresh (l.id + 1) (endIdx l)] := by simp
    rw [this, absEnts_snoc, absEnts_snoc, absEnts_snoc]
    simp [visible, fresh]
  · have : ys ++ [{ l with closed := true, count := endIdx l - l.start }, fresh (l.id + 1) (endIdx l)]
        = (ys ++ [{ l with closed := true, count := endIdx l - l.start }]) ++ [fresh (l.id + 1) (endIdx l)] := by simp
    rw [this, absNext_snoc]; simp [fresh, endIdx]

theorem writeCur_spec (full : File → Bool) (zs : List File) (m : File) (hc : Chain (zs ++ [m])) (e : Ent) :
    Chain (writeCur full (zs ++ [m]) e).1 ∧
    (if endIdx m = e.index then
       (writeCur full (zs ++ [m]) e).2 = .ok ∧ absEnts (writeCur full (zs ++ [m]) e).1 = absEnts (zs ++ [m]) ++ [e]
         ∧ absNext (writeCur full (zs ++ [m]) e).1 = some (e.index + 1)
     else (writeCur full (zs ++ [m]) e).2 = .indexError ∧ (writeCur full (zs ++ [m]) e).1 = zs ++ [m]) := by
  obtain ⟨hp, hm, hopen⟩ := (chain_snoc_iff zs m).1 hc
  by_cases he : endIdx m = e.index
  · simp only [he, if_true]
    have hpush : Chain (zs ++ [{ m with recs := m.recs ++ [e] }]) := by
      rw [chain_snoc_iff]; exact ⟨hp, fileInv_push m e hm he.symm, hopen⟩
    have hvis : absEnts (zs ++ [{ m with recs := m.recs ++ [e] }]) = absEnts (zs ++ [m]) ++ [e] := by
      rw [absEnts_snoc, absEnts_snoc, visible_push m e (by have := hm.hi; omega)]; simp
    have hend : endIdx { m with recs := m.recs ++ [e] } = e.index + 1 := by
      simp only [endIdx, List.length_append, List.length_cons, List.length_nil] at *; omega
    unfold writeCur
    simp only [List.getLast?_concat, he, ne_eq, not_true_eq_false, if_false, pushRec_snoc]
    by_cases hf : full { m with recs := m.recs ++ [e] } = true
    · simp only [hf, if_true]
      have := chain_switch zs _ hpush
      exact ⟨this.1, trivial, by rw [this.2.1, hvis], by rw [this.2.2, hend]⟩
    · simp only [hf, Bool.false_eq_true, if_false]
      exact ⟨hpush, trivial, hvis, by rw [absNext_snoc, hend]⟩
  · simp only [he, if_false]
    unfold writeCur
    simp only [List.getLast?_concat, ne_eq, he, not_false_eq_true, if_true]
    exact ⟨hc, by simp⟩

/-- **`write` refines `append` of one entry**, for every fullness oracle that lets an empty file take a record -/
theorem writeOne_spec (full : File → Bool) (hfresh : ∀ f : File, f.recs = [] → full f = false)
    (fs : List File) (hc : Chain fs) (e : Ent) :
    Chain (writeOne full fs e 2).1 ∧
    (if absNext fs = none ∨ absNext fs = some e.index then
       (writeOne full fs e 2).2 = .ok ∧ absEnts (writeOne full fs e 2).1 = absEnts fs ++ [e]
         ∧ absNext (writeOne full fs e 2).1 = some (e.index + 1)
     else (writeOne full fs e 2).2 = .indexError ∧ absEnts (writeOne full fs e 2).1 = absEnts fs
         ∧ absNext (writeOne full fs e 2).1 = absNext fs) := by
  rcases snoc_cases fs with rfl | ⟨ys, l, rfl⟩
  · -- no log file yet: the record defines the start
    have hc1 : Chain ([] ++ [fresh 1 e.index]) := by rw [chain_snoc_iff]; exact ⟨trivial, fileInv_fresh _ _, rfl⟩
    have h := writeCur_spec full [] (fresh 1 e.index) hc1 e
    have hend : endIdx (fresh 1 e.index) = e.index := by simp [fresh, endIdx]
    simp only [hend, if_true, List.nil_append] at h
    have hw : writeOne full [] e 2 = writeCur full [fresh 1 e.index] e := by
      simp [writeOne, switchNew_nil, hfresh (fresh 1 e.index) rfl]
    rw [hw]
    simp only [absNext, List.getLast?_nil, Option.map_none, true_or, if_true]
    refine ⟨h.1, h.2.1, ?_, h.2.2.2⟩
    rw [h.2.2.1]; simp [absEnts, visible, fresh]
  · rw [absNext_snoc]
    simp only [reduceCtorEq, false_or, Option.some.injEq]
    by_cases hf : full l = true
    · -- Failure: a new file at the end index, the record is written again
      have hsw := chain_switch ys l hc
      have hw : writeOne full (ys ++ [l]) e 2 =
          writeCur full (ys ++ [{ l with closed := true, count := endIdx l - l.start }] ++ [fresh (l.id + 1) (endIdx l)]) e := by
        simp [writeOne, hf, switchNew_snoc, hfresh (fresh (l.id + 1) (endIdx l)) rfl]
      have hc2 : Chain (ys ++ [{ l with closed := true, count := endIdx l - l.start }] ++ [fresh (l.id + 1) (endIdx l)]) := by
        have := hsw.1; rw [switchNew_snoc] at this; simpa using this
      have h := writeCur_spec full _ _ hc2 e
      have hend : endIdx (fresh (l.id + 1) (endIdx l)) = endIdx l := by simp [fresh, endIdx]
      have habs : absEnts (ys ++ [{ l with closed := true, count := endIdx l - l.start }] ++ [fresh (l.id + 1) (endIdx l)])
          = absEnts (ys ++ [l]) := by
        have := hsw.2.1; rw [switchNew_snoc] at this; simpa using this
      rw [hw]
      rw [hend] at h
      by_cases he : endIdx l = e.index
      · rw [if_pos he] at h; rw [if_pos he]
        exact ⟨h.1, h.2.1, by rw [h.2.2.1, habs], h.2.2.2⟩
      · rw [if_neg he] at h; rw [if_neg he]
        refine ⟨h.1, h.2.1, by rw [h.2.2, habs], ?_⟩
        rw [h.2.2, absNext_snoc, hend]
    · have hw : writeOne full (ys ++ [l]) e 2 = writeCur full (ys ++ [l]) e := by
        simp [writeOne, hf]
      rw [hw]
      have h := writeCur_spec full ys l hc e
      by_cases he : endIdx l = e.index
      · rw [if_pos he] at h; rw [if_pos he]; exact h
      · rw [if_neg he] at h; rw [if_neg he]
        exact ⟨h.1, h.2.1, by rw [h.2.2], by rw [h.2.2, absNext_snoc]⟩

end RNacos.LogManager

namespace RNacos.LogManager
open RNacos.LogStore (Ent Kind)

/-- the entries of a replicated batch carry consecutive indexes -/
def Contig : List Ent → Prop
  | [] => True
  | [_] => True
  | a :: b :: r => b.index = a.index + 1 ∧ Contig (b :: r)

/-- **`write_batch` refines `append`**: a contiguous batch is taken as a whole iff its first index is the expected
one; a refused batch changes nothing that can be seen -/
theorem writeBatchFs_spec (full : File → Bool) (hfresh : ∀ f : File, f.recs = [] → full f = false) :
    ∀ (es : List Ent) (fs : List File), Chain fs → Contig es →
    Chain (writeBatchFs full fs es).1 ∧
    (match es with
     | [] => writeBatchFs full fs es = (fs, .ok)
     | e :: _ =>
       if absNext fs = none ∨ absNext fs = some e.index then
         (writeBatchFs full fs es).2 = .ok ∧ absEnts (writeBatchFs full fs es).1 = absEnts fs ++ es
           ∧ absNext (writeBatchFs full fs es).1 = some (e.index + es.length)
       else (writeBatchFs full fs es).2 = .indexError ∧ absEnts (writeBatchFs full fs es).1 = absEnts fs
           ∧ absNext (writeBatchFs full fs es).1 = absNext fs) := by
  intro es
  induction es with
  | nil => intro fs hc _; exact ⟨hc, rfl⟩
  | cons e es ih =>
    intro fs hc hcont
    have h1 := writeOne_spec full hfresh fs hc e
    by_cases hacc : absNext fs = none ∨ absNext fs = some e.index
    · rw [if_pos hacc] at h1
      obtain ⟨hc1, hok, habs, hnext⟩ := h1
      have hw : writeBatchFs full fs (e :: es) = writeBatchFs full (writeOne full fs e 2).1 es := by
        have : writeOne full fs e 2 = ((writeOne full fs e 2).1, WriteRes.ok) := by rw [← hok]
        simp only [writeBatchFs]; rw [this]
      rw [hw]
      simp only [hacc, if_true]
      cases es with
      | nil =>
        have := ih (writeOne full fs e 2).1 hc1 trivial
        simp only [writeBatchFs] at this ⊢
        exact ⟨hc1, trivial, by simpa using habs, by simpa using hnext⟩
      | cons e2 es2 =>
        have hcont2 : Contig (e2 :: es2) := by
          cases es2 <;> simp_all [Contig]
        have he2 : e2.index = e.index + 1 := by simp [Contig] at hcont; exact hcont.1
        have := ih (writeOne full fs e 2).1 hc1 hcont2
        have hacc2 : absNext (writeOne full fs e 2).1 = none ∨ absNext (writeOne full fs e 2).1 = some e2.index := by
          right; rw [hnext, he2]
        simp only [hacc2, if_true] at this
        refine ⟨this.1, this.2.1, ?_, ?_⟩
        · rw [this.2.2.1, habs]; simp
        · rw [this.2.2.2, he2]; simp only [List.length_cons]; congr 1; omega
    · rw [if_neg hacc] at h1
      obtain ⟨hc1, herr, habs, hnext⟩ := h1
      have hw : writeBatchFs full fs (e :: es) = writeOne full fs e 2 := by
        have : writeOne full fs e 2 = ((writeOne full fs e 2).1, WriteRes.indexError) := by rw [← herr]
        simp only [writeBatchFs]; rw [this]
      rw [hw]
      simp only [hacc, if_false]
      exact ⟨hc1, herr, habs, hnext⟩

end RNacos.LogManager
