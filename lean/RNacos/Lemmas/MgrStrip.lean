import RNacos.Lemmas.MgrWrite
/-
`RaftLogManager::strip_log_to_index` (delete_logs_from) refines the list specification's `deleteFrom`:
exactly the entries from the cut on disappear, whichever files they live in; the file that holds the cut is the
open log afterwards.
-/
namespace RNacos.LogManager
open RNacos.LogStore (Ent Kind)

/-- records of a well-formed file: index = start + position -/
theorem take_eq_filter (recs : List Ent) (s k : Nat)
    (h : ∀ j (hj : j < recs.length), (recs[j]).index = s + j) :
    recs.take (k - s) = recs.filter (fun e => decide (e.index < k)) := by
  induction recs generalizing s with
  | nil => simp
  | cons a r ih =>
    have ha : a.index = s := by have := h 0 (by simp); simpa using this
    have hr : ∀ j (hj : j < r.length), (r[j]).index = (s + 1) + j := by
      intro j hj
      have := h (j + 1) (by simp; omega)
      simp only [List.getElem_cons_succ] at this
      omega
    by_cases hk : s < k
    · have : k - s = (k - (s + 1)) + 1 := by omega
      rw [this, List.take_succ_cons, ih (s + 1) hr]
      simp [ha, hk]
    · have hz : k - s = 0 := by omega
      rw [hz, List.take_zero]
      symm
      rw [List.filter_eq_nil_iff]
      intro e he
      rcases List.mem_cons.1 he with rfl | he
      · simp [ha]; omega
      · obtain ⟨j, hj, rfl⟩ := List.getElem_of_mem he
        have := hr j hj
        simp; omega

theorem mem_recs_bounds (f : File) (hf : FileInv f) (e : Ent) (he : e ∈ f.recs) :
    f.start ≤ e.index ∧ e.index < endIdx f := by
  obtain ⟨j, hj, rfl⟩ := List.getElem_of_mem he
  have := hf.ok j hj
  simp only [endIdx]; omega

theorem mem_visible_bounds (f : File) (hf : FileInv f) (e : Ent) (he : e ∈ visible f) :
    f.splitOff ≤ e.index ∧ e.index < endIdx f := by
  simp only [visible, List.mem_filter, decide_eq_true_eq] at he
  exact ⟨he.2, (mem_recs_bounds f hf e he.1).2⟩

theorem fileInv_strip (k : Nat) (c : File) (hc : FileInv c) (hs : c.splitOff ≤ k) :
    FileInv (stripFile k c) := by
  refine ⟨?_, hc.lo, ?_⟩
  · intro j hj
    simp only [stripFile, List.length_take] at hj
    simp only [stripFile, List.getElem_take]
    exact hc.ok j (by omega)
  · have := hc.hi; have := hc.lo
    simp only [stripFile, endIdx, List.length_take] at *
    omega

theorem visible_strip (k : Nat) (c : File) (hc : FileInv c) :
    visible (stripFile k c) = (visible c).filter (fun e => decide (e.index < k)) := by
  simp only [visible, stripFile]
  rw [take_eq_filter c.recs c.start k hc.ok, List.filter_filter, List.filter_filter]
  congr 1; funext e; exact Bool.and_comm _ _

theorem endIdx_strip (k : Nat) (c : File) (hs : c.start ≤ k) : endIdx (stripFile k c) = min (endIdx c) k := by
  simp only [stripFile, endIdx, List.length_take]; omega

/-- files that lie wholly above the cut are only counted -/
theorem stripLoop_above (k : Nat) (gs : List File) (h : ∀ g ∈ gs, k < g.start) :
    stripLoop k gs = (gs.length, gs) := by
  induction gs with
  | nil => rfl
  | cons g gs ih =>
    have hg := h g (by simp)
    have hb : belowRangeEnd k g = true := by
      simp only [belowRangeEnd, rangeEnd]; split <;> simp_all <;> omega
    simp [stripLoop, ih (fun x hx => h x (by simp [hx])), hb, hg]

theorem stripLoop_cons (k : Nat) (f : File) (fs : List File) :
    stripLoop k (f :: fs) =
      (if belowRangeEnd k f then
         if k < f.start then ((stripLoop k fs).1 + 1, f :: (stripLoop k fs).2)
         else ((stripLoop k fs).1, stripFile k f :: (stripLoop k fs).2)
       else ((stripLoop k fs).1, f :: (stripLoop k fs).2)) := rfl

/-- split points do not decrease along the catalogue -/
theorem chain_split_mono (g : File) (r : List File) (hc : Chain (g :: r)) :
    ∀ h ∈ g :: r, g.splitOff ≤ h.splitOff := by
  induction r generalizing g with
  | nil => intro h hh; simp at hh; subst hh; exact Nat.le_refl _
  | cons g2 r ih =>
    simp only [Chain] at hc
    intro h hh
    rcases List.mem_cons.1 hh with rfl | hh
    · exact Nat.le_refl _
    · have := ih g2 hc.2.2.2 h hh
      have := hc.2.1.hi
      omega

theorem chain_mem_inv (fs : List File) (hc : Chain fs) : ∀ f ∈ fs, FileInv f := by
  induction fs with
  | nil => simp
  | cons a r ih =>
    cases r with
    | nil => simp only [Chain] at hc; intro f hf; simp at hf; subst hf; exact hc.1
    | cons b r =>
      simp only [Chain] at hc
      intro f hf
      rcases List.mem_cons.1 hf with rfl | hf
      · exact hc.2.1
      · exact ih hc.2.2.2 f hf

theorem chain_tail (f g : File) (r : List File) (hc : Chain (f :: g :: r)) : Chain (g :: r) := by
  simp only [Chain] at hc; exact hc.2.2.2

/-- shape of the loop's result: files below the cut untouched, the file that holds the cut cut, the files above it
counted for removal -/
theorem stripLoop_shape (k : Nat) (fs : List File) (hc : Chain fs) (hne : fs ≠ [])
    (hk : ∀ f ∈ fs, f.start < f.splitOff → f.splitOff ≤ k)
    (hk0 : ∀ f0, fs.head? = some f0 → f0.start ≤ k) :
    ∃ pre c post, fs = pre ++ c :: post ∧ stripLoop k fs = (post.length, pre ++ stripFile k c :: post) ∧
      (∀ p ∈ pre, endIdx p ≤ k) ∧ c.start ≤ k ∧ (post ≠ [] → k < endIdx c) ∧ (∀ h ∈ post, k < h.start) := by
  induction fs with
  | nil => exact absurd rfl hne
  | cons f r ih =>
    have hf0 : f.start ≤ k := hk0 f rfl
    cases r with
    | nil =>
      simp only [Chain] at hc
      refine ⟨[], f, [], rfl, ?_, by simp, hf0, by simp, by simp⟩
      have hb : belowRangeEnd k f = true := by simp [belowRangeEnd, rangeEnd, hc.2]
      simp [stripLoop, hb, Nat.not_lt.2 hf0]
    | cons g r =>
      have hcc := hc
      simp only [Chain] at hc
      obtain ⟨hcl, hfi, hadj, hrest⟩ := hc
      have hre : rangeEnd f = some (endIdx f) := by simp [rangeEnd, hcl.1, hcl.2, endIdx]
      by_cases hcut : k < endIdx f
      · -- the cut is in f: everything after f lies above it
        have habove : ∀ h ∈ g :: r, k < h.start := by
          intro h hh
          have hm := chain_split_mono g r hrest h hh
          by_cases hp : h.start < h.splitOff
          · have := hk h (by simp [List.mem_cons] at hh ⊢; rcases hh with rfl | hh <;> simp [*]) hp
            omega
          · have hinv : FileInv h := chain_mem_inv (g :: r) hrest h hh
            have := hinv.lo
            omega
        refine ⟨[], f, g :: r, rfl, ?_, by simp, hf0, fun _ => hcut, habove⟩
        have hb : belowRangeEnd k f = true := by simp [belowRangeEnd, hre, hcut]
        rw [stripLoop_cons, stripLoop_above k (g :: r) habove]
        simp [hb, Nat.not_lt.2 hf0]
      · -- f ends at or below the cut: untouched
        have hle : endIdx f ≤ k := Nat.not_lt.1 hcut
        have hb : belowRangeEnd k f = false := by simp [belowRangeEnd, hre]; omega
        have hg0 : ∀ f0, (g :: r).head? = some f0 → f0.start ≤ k := by
          intro f0 h0; simp at h0; subst h0
          have := (by
            cases r with
            | nil => simp only [Chain] at hrest; exact hrest.1.lo
            | cons g2 r => simp only [Chain] at hrest; exact hrest.2.1.lo : g.start ≤ g.splitOff)
          omega
        obtain ⟨pre, c, post, hfs, hloop, hpre, hc0, hpost, habove⟩ :=
          ih hrest (by simp) (fun x hx => hk x (by simp [hx])) hg0
        refine ⟨f :: pre, c, post, by simp [hfs], ?_, ?_, hc0, hpost, habove⟩
        · rw [stripLoop_cons, hloop]; simp [hb]
        · intro p hp
          rcases List.mem_cons.1 hp with rfl | hp
          · exact hle
          · exact hpre p hp

end RNacos.LogManager

namespace RNacos.LogManager
open RNacos.LogStore (Ent Kind)

theorem chain_split (pre : List File) (c : File) (post : List File) (h : Chain (pre ++ c :: post)) :
    Pre pre c.splitOff ∧ FileInv c ∧ (post = [] → c.closed = false) := by
  induction pre with
  | nil =>
    cases post with
    | nil => simp only [List.nil_append, Chain] at h; exact ⟨trivial, h.1, fun _ => h.2⟩
    | cons g r => simp only [List.nil_append, Chain] at h; exact ⟨trivial, h.2.1, by simp⟩
  | cons y ys ih =>
    cases ys with
    | nil =>
      simp only [List.cons_append, List.nil_append, Chain] at h
      have := ih (by simpa using h.2.2.2)
      exact ⟨by simp only [Pre]; exact ⟨h.1, h.2.1, h.2.2.1⟩, this.2.1, this.2.2⟩
    | cons z zs =>
      simp only [List.cons_append, Chain] at h
      have := ih (by simpa using h.2.2.2)
      exact ⟨by simp only [Pre]; exact ⟨h.1, h.2.1, h.2.2.1, this.1⟩, this.2.1, this.2.2⟩

theorem reopenLast_snoc (ys : List File) (l : File) :
    reopenLast (ys ++ [l]) = ys ++ [{ l with closed := false, count := 0 }] := by
  simp [reopenLast]

theorem filter_visible_below (p : File) (hp : FileInv p) (k : Nat) (hle : endIdx p ≤ k) :
    (visible p).filter (fun e => decide (e.index < k)) = visible p := by
  rw [List.filter_eq_self]
  intro e he
  have := (mem_visible_bounds p hp e he).2
  simp; omega

theorem filter_visible_above (h : File) (hh : FileInv h) (k : Nat) (hlt : k < h.start) :
    (visible h).filter (fun e => decide (e.index < k)) = [] := by
  rw [List.filter_eq_nil_iff]
  intro e he
  simp only [visible, List.mem_filter] at he
  have := (mem_recs_bounds h hh e he.1).1
  simp; omega

theorem filter_absEnts_below (ps : List File) (k : Nat) (h : ∀ p ∈ ps, FileInv p ∧ endIdx p ≤ k) :
    (absEnts ps).filter (fun e => decide (e.index < k)) = absEnts ps := by
  induction ps with
  | nil => rfl
  | cons p ps ih =>
    have hp := h p (by simp)
    simp only [absEnts, List.flatMap_cons, List.filter_append] at ih ⊢
    rw [filter_visible_below p hp.1 k hp.2, ih (fun q hq => h q (by simp [hq]))]

theorem filter_absEnts_above (hs : List File) (k : Nat) (h : ∀ g ∈ hs, FileInv g ∧ k < g.start) :
    (absEnts hs).filter (fun e => decide (e.index < k)) = [] := by
  induction hs with
  | nil => rfl
  | cons g gs ih =>
    have hg := h g (by simp)
    simp only [absEnts, List.flatMap_cons, List.filter_append] at ih ⊢
    rw [filter_visible_above g hg.1 k hg.2, ih (fun q hq => h q (by simp [hq]))]; rfl

/-- **`strip_log_to_index` refines `deleteFrom`** (for a cut that is not below a hidden prefix - Raft never cuts below
the snapshot pointer): exactly the entries from `k` on disappear, the next expected index is `k` (or stays, when the
cut is beyond the end), and the catalogue is well formed again with the file that holds the cut as the open log -/
theorem strip_spec (fs : List File) (p : Option (Nat × Nat)) (hc : Chain fs) (hne : fs ≠ []) (k : Nat)
    (hk : ∀ f ∈ fs, f.start < f.splitOff → f.splitOff ≤ k)
    (hk0 : ∀ f0, fs.head? = some f0 → f0.start ≤ k) :
    Chain (strip ⟨fs, p⟩ k).files ∧
    absEnts (strip ⟨fs, p⟩ k).files = (absEnts fs).filter (fun e => decide (e.index < k)) ∧
    absNext (strip ⟨fs, p⟩ k).files = (absNext fs).map (fun n => min n k) := by
  obtain ⟨pre, c, post, hfs, hloop, hpre, hc0, hpost, habove⟩ := stripLoop_shape k fs hc hne hk hk0
  subst hfs
  obtain ⟨hPre, hci, hlast⟩ := chain_split pre c post hc
  have hinv := chain_mem_inv _ hc
  -- the cut file's split point is at or below the cut
  have hsk : c.splitOff ≤ k := by
    by_cases hh : c.start < c.splitOff
    · exact hk c (by simp) hh
    · have := hci.lo; omega
  -- the new catalogue
  have hfiles : (strip ⟨pre ++ c :: post, p⟩ k).files =
      pre ++ [{ stripFile k c with closed := false, count := (if post = [] then c.count else 0) }] ∨
      (strip ⟨pre ++ c :: post, p⟩ k).files = pre ++ [{ stripFile k c with closed := false, count := 0 }] := by
    by_cases hp : post = []
    · subst hp
      left
      have hcl := hlast rfl
      simp only [strip, hloop, List.length_nil, Nat.lt_irrefl, gt_iff_lt, if_false, if_true]
      congr 2
      simp [stripFile, hcl]
    · right
      have hpos : post.length > 0 := List.length_pos_iff.2 hp
      simp only [strip, hloop, hpos, if_true]
      have : (pre ++ stripFile k c :: post).take ((pre ++ stripFile k c :: post).length - post.length) = pre ++ [stripFile k c] := by
        have hl : (pre ++ stripFile k c :: post).length - post.length = (pre ++ [stripFile k c]).length := by simp; omega
        rw [hl]
        have : pre ++ stripFile k c :: post = (pre ++ [stripFile k c]) ++ post := by simp
        rw [this, List.take_left']; rfl
      rw [this, reopenLast_snoc]
  -- both shapes are `pre ++ [c']` with the same records, split point and open flag
  have key : ∀ c' : File, c'.recs = (stripFile k c).recs → c'.start = c.start → c'.splitOff = c.splitOff → c'.closed = false →
      Chain (pre ++ [c']) ∧ absEnts (pre ++ [c']) = (absEnts (pre ++ c :: post)).filter (fun e => decide (e.index < k)) ∧
      absNext (pre ++ [c']) = (absNext (pre ++ c :: post)).map (fun n => min n k) := by
    intro c' hr hst hso hcl
    have hr' : c'.recs = c.recs.take (k - c.start) := hr
    have hfi : FileInv c' := by
      refine ⟨?_, by rw [hst, hso]; exact hci.lo, ?_⟩
      · intro j hj
        simp only [hr', List.length_take] at hj
        simp only [hr', List.getElem_take, hst]
        exact hci.ok j (by omega)
      · have h1 := hci.hi; have h2 := hci.lo
        simp only [endIdx, hr', hst, hso, List.length_take] at h1 ⊢
        omega
    have hvis : visible c' = visible (stripFile k c) := by
      unfold visible; rw [hso, hr']; rfl
    have hend : endIdx c' = endIdx (stripFile k c) := by
      unfold endIdx; rw [hst, hr']; rfl
    refine ⟨?_, ?_, ?_⟩
    · rw [chain_snoc_iff]; exact ⟨by rw [hso]; exact hPre, hfi, hcl⟩
    · have : pre ++ c :: post = pre ++ [c] ++ post := by simp
      rw [absEnts_snoc, this]
      simp only [absEnts, List.flatMap_append, List.filter_append, List.flatMap_cons, List.flatMap_nil, List.append_nil]
      have h1 := filter_absEnts_below pre k (fun q hq => ⟨(pre_mem pre _ hPre q hq).2.1, hpre q hq⟩)
      have h3 := filter_absEnts_above post k (fun g hg => ⟨hinv g (by simp [hg]), habove g hg⟩)
      simp only [absEnts] at h1 h3
      rw [h1, h3, hvis, visible_strip k c hci]; simp
    · rw [absNext_snoc, hend, endIdx_strip k c hc0]
      rcases snoc_cases post with hp | ⟨ys, l, hp⟩
      · subst hp; simp [absNext]
      · subst hp
        have : pre ++ c :: (ys ++ [l]) = (pre ++ c :: ys) ++ [l] := by simp
        rw [this, absNext_snoc]
        have hl := habove l (by simp)
        have hce := hpost (by simp)
        have e1 : min (endIdx c) k = k := by omega
        have e2 : min (endIdx l) k = k := by
          have : l.start ≤ endIdx l := by simp [endIdx]
          omega
        simp only [Option.map_some, e1, e2]
  rcases hfiles with h | h
  · rw [h]; exact key _ rfl rfl rfl rfl
  · rw [h]; exact key _ rfl rfl rfl rfl

end RNacos.LogManager
