import RNacos.Model.FileReader
import RNacos.Lemmas.Drain
/-
`specDecode` (the oracle) and `FileMessageReader` positions on well-formed streams.
-/
namespace RNacos.FileReader
open RNacos.Varint RNacos.Spec.Stream RNacos.BufReader

theorem frame_head_ne_zero (b : List Nat) (hb : 0 < b.length) (rest : List Nat) :
    ∃ a t, frame b ++ rest = a :: t ∧ a ≠ 0 := by
  unfold frame vwrite
  have hh := vwriteF_head_ne_zero 9 b.length hb
  cases hvw : vwriteF 9 b.length with
  | nil => exact absurd hvw (vwriteF_ne_nil _ _)
  | cons x xs =>
    rw [hvw] at hh
    refine ⟨x, xs ++ b ++ rest, by simp, ?_⟩
    simpa using hh

theorem frame_length (b : List Nat) : (frame b).length = (vwrite b.length).length + b.length := by
  unfold frame; simp

/-- the oracle used by the check is the specification: the whole-stream parse of a well-formed
stream returns exactly its frames -/
theorem specDecode_stream : ∀ (bs : List (List Nat)) (tail : List Nat) (f : Nat),
    BodiesOK bs → TailOK tail → bs.length ≤ f → specDecode f (stream bs tail) = bs.map frame := by
  intro bs
  induction bs with
  | nil =>
    intro tail f _ ht _
    cases f with
    | zero => simp [specDecode]
    | succ f =>
      simp only [stream, List.map_nil, List.flatten_nil, List.nil_append, specDecode]
      rcases ht with ht | ht
      · subst ht; rfl
      · cases tail with
        | nil => rfl
        | cons a t => simp at ht; subst ht; simp
  | cons b bs ih =>
    intro tail f hb ht hf
    obtain ⟨f', rfl⟩ : ∃ f', f = f' + 1 := ⟨f - 1, by simp at hf; omega⟩
    have hbb := hb b (by simp)
    rw [stream_eq, frames_cons, List.append_assoc]
    obtain ⟨a, t, hat, ha⟩ := frame_head_ne_zero b hbb.1 (frames bs ++ tail)
    have hv128 : b.length < 128 ^ (9 + 1) := by have := pow64_lt; omega
    have hvl : vlen (frame b ++ (frames bs ++ tail)) = some (vwrite b.length).length := by
      unfold frame; rw [List.append_assoc]; exact vlen_vwriteF 9 b.length _ hv128
    have hrd : vreadGo 10 (frame b ++ (frames bs ++ tail)) = .ok b.length := by
      unfold frame; rw [List.append_assoc]; exact vreadGo_vwrite b.length _ hbb.2
    have hmod : b.length % 2 ^ 64 = b.length := Nat.mod_eq_of_lt hbb.2
    unfold specDecode
    rw [hat] at hvl hrd ⊢
    simp only [ha, if_false, hvl, hrd, hmod]
    rw [← hat, ← frame_length]
    have hle : (frame b).length ≤ (frame b ++ (frames bs ++ tail)).length := by simp
    simp only [hle, if_true, List.map_cons]
    congr 1
    · simp
    · rw [List.drop_left]
      exact ih tail f' (fun x hx => hb x (by simp [hx])) ht (by simp at hf; omega)

/-- `read_len` on a frame start returns the frame's byte length -/
theorem readLen_frame (pre b rest : List Nat) (hb : 0 < b.length ∧ b.length < 2 ^ 64) :
    readLen ⟨pre ++ (frame b ++ rest), pre.length⟩ = some (frame b).length := by
  unfold readLen
  simp only [List.drop_left]
  have hvw10 : (vwrite b.length).length ≤ 10 := vwrite_length_le _
  have hpre : vwrite b.length <+: List.take 10 (frame b ++ rest) := by
    unfold frame
    rw [List.append_assoc]
    rw [List.prefix_take_iff]
    exact ⟨List.prefix_append _ _, hvw10⟩
  obtain ⟨q, hq⟩ := hpre
  have hne : (List.take 10 (frame b ++ rest)).isEmpty = false := by
    rw [← hq]
    have := vwrite_length_pos b.length
    cases h : vwrite b.length with
    | nil => rw [h] at this; simp at this
    | cons x xs => simp
  simp only [hne, Bool.false_eq_true, if_false]
  rw [← hq, List.append_assoc]
  rw [vread_vwrite b.length _ hb.2]
  have : b.length ≠ 0 := by omega
  simp only [this, if_false]
  rw [frame_length, vwrite_length_eq_vsizeof _ hb.2]
  congr 1; omega

/-- `read_len` at the end of the records (end of file, or the zero length byte) fails -/
theorem readLen_end (pre tail : List Nat) (ht : TailOK tail) :
    readLen ⟨pre ++ tail, pre.length⟩ = none := by
  unfold readLen
  simp only [List.drop_left]
  rcases ht with ht | ht
  · subst ht; simp
  · cases tail with
    | nil => simp
    | cons a t =>
      simp at ht; subst ht
      have : (List.take 10 (0 :: t)).isEmpty = false := by simp
      simp only [this, Bool.false_eq_true, if_false]
      have : vread (List.take 10 (0 :: t) ++ List.replicate (10 - (List.take 10 (0 :: t)).length) 0) 0 = .ok 0 := by
        simp [vread, vreadGo]
      rw [this]; simp

/-- **`read_index_position(i)`** returns the offset and length of record `i`, or fails past the end -/
theorem readIndexPosition_stream : ∀ (bs : List (List Nat)) (i : Nat) (pre tail : List Nat),
    BodiesOK bs → TailOK tail →
    (readIndexPosition i ⟨pre ++ stream bs tail, pre.length⟩).map (·.1) =
      if h : i < bs.length then
        some (pre.length + (frames (bs.take i)).length, (frame bs[i]).length)
      else none := by
  intro bs
  induction bs with
  | nil =>
    intro i pre tail _ ht
    have hr := readLen_end pre tail ht
    simp only [stream, List.map_nil, List.flatten_nil, List.nil_append, List.length_nil, Nat.not_lt_zero,
      dite_false]
    cases i <;> simp [readIndexPosition, readNextPosition, hr]
  | cons b bs ih =>
    intro i pre tail hb ht
    have hbb := hb b (by simp)
    rw [stream_eq, frames_cons, List.append_assoc]
    have hr := readLen_frame pre b (frames bs ++ tail) hbb
    cases i with
    | zero =>
      simp only [readIndexPosition, readNextPosition, hr]
      simp [frames]
    | succ i =>
      simp only [readIndexPosition, readNextPosition, hr]
      have hpre : pre ++ (frame b ++ (frames bs ++ tail)) = (pre ++ frame b) ++ stream bs tail := by
        rw [stream_eq]; simp
      have hlen : pre.length + (frame b).length = (pre ++ frame b).length := by simp
      rw [hpre, hlen, ih i (pre ++ frame b) tail (fun x hx => hb x (by simp [hx])) ht]
      simp only [List.length_cons, Nat.add_lt_add_iff_right, List.take_succ_cons, frames_cons,
        List.length_append, List.getElem_cons_succ]
      split
      · simp only [Option.some.injEq, Prod.mk.injEq, and_true]; omega
      · rfl

/-- **`read_next`** on the first record of a stream returns its frame and moves behind it -/
theorem readNext_frame (pre b rest : List Nat) (hb : 0 < b.length ∧ b.length < 2 ^ 64) :
    readNext ⟨pre ++ (frame b ++ rest), pre.length⟩ =
      some (frame b, ⟨pre ++ (frame b ++ rest), pre.length + (frame b).length⟩) := by
  unfold readNext
  rw [readLen_frame pre b rest hb]
  simp only [List.drop_left, List.take_left]
  simp

/-- **reading a file record by record with `read_next`** returns exactly the frames of the stream, in order, and stops
at the end mark (or the end of the file), wherever the stream starts in the file and however short its last record is -/
theorem readAll_stream : ∀ (bs : List (List Nat)) (pre tail : List Nat) (f : Nat),
    BodiesOK bs → TailOK tail → bs.length ≤ f →
    readAll f ⟨pre ++ stream bs tail, pre.length⟩ = bs.map frame := by
  intro bs
  induction bs with
  | nil =>
    intro pre tail f _ ht _
    have hr := readLen_end pre tail ht
    simp only [stream, List.map_nil, List.flatten_nil, List.nil_append]
    cases f with
    | zero => rfl
    | succ f => simp [readAll, readNext, hr]
  | cons b bs ih =>
    intro pre tail f hb ht hf
    obtain ⟨f, rfl⟩ : ∃ g, f = g + 1 := ⟨f - 1, by simp only [List.length_cons] at hf; omega⟩
    have hbb := hb b (by simp)
    rw [stream_eq, frames_cons, List.append_assoc]
    simp only [readAll, readNext_frame pre b (frames bs ++ tail) hbb, List.map_cons]
    have hpre : pre ++ (frame b ++ (frames bs ++ tail)) = (pre ++ frame b) ++ stream bs tail := by
      rw [stream_eq]; simp
    have hlen : pre.length + (frame b).length = (pre ++ frame b).length := by simp
    rw [hpre, hlen, ih (pre ++ frame b) tail f (fun x hx => hb x (by simp [hx])) ht
      (by simp only [List.length_cons] at hf; omega)]

end RNacos.FileReader
