import RNacos.Lemmas.MgrSplit
/-
The part of the invariant `Chain` that can be read off the persisted catalogue (`RaftIndexDto.logs`), as a
decidable check: the correspondence run applies it to the catalogue the real `RaftLogManager` has written after every
operation.  `chain_rowsOK` says the check is implied by the invariant the refinement theorems rest on.
-/
namespace RNacos.LogManager
open RNacos.LogStore (Ent Kind)

def rowsOK : List CatRow → Bool
  | [] => true
  | [l] => !l.closed && decide (l.start ≤ l.splitOff)
  | f :: g :: r =>
    f.closed && decide (f.start ≤ f.splitOff) && decide (f.splitOff ≤ f.start + f.count) &&
      decide (f.start + f.count = g.splitOff) && rowsOK (g :: r)

theorem chain_rowsOK (fs : List File) (hc : Chain fs) : rowsOK (catalogue fs) = true := by
  induction fs with
  | nil => rfl
  | cons f r ih =>
    cases r with
    | nil =>
      simp only [Chain] at hc
      simp [catalogue, rowsOK, hc.2, hc.1.lo]
    | cons g r =>
      simp only [Chain] at hc
      obtain ⟨hcl, hfi, hadj, hrest⟩ := hc
      have := ih hrest
      simp only [catalogue, List.map_cons, rowsOK] at this ⊢
      have h1 := hfi.lo
      have h2 := hfi.hi
      simp only [endIdx] at h2 hadj
      have h3 : f.splitOff ≤ g.splitOff := by omega
      simp [hcl.1, hcl.2, h1, h3, hadj, this]

/-- the open file's split point and start are at or below the next expected index; no file ⇔ no expected index -/
def lastOK (rows : List CatRow) (next : Option Nat) : Bool :=
  match rows.getLast?, next with
  | none, none => true
  | some l, some n => decide (l.splitOff ≤ n) && decide (l.start ≤ n)
  | _, _ => false

theorem chain_lastOK (fs : List File) (hc : Chain fs) : lastOK (catalogue fs) (absNext fs) = true := by
  rcases snoc_cases fs with h | ⟨ys, l, h⟩
  · subst h; rfl
  · subst h
    obtain ⟨_, hl, _⟩ := (chain_snoc_iff ys l).1 hc
    have h1 := hl.lo; have h2 := hl.hi
    simp only [lastOK, catalogue, List.map_append, List.map_cons, List.map_nil, List.getLast?_concat, absNext_snoc]
    simp; omega

end RNacos.LogManager
