import RNacos.Model.LogManager
/-
Invariant of the manager-level model and basic facts: the visible ranges of the files are adjacent
(`endIdx f = g.splitOff` for consecutive files), every file but the last is closed with the right record count,
the last one is open, every file holds the records `start, start+1, …`.
-/
namespace RNacos.LogManager
open RNacos.LogStore (Ent Kind)

structure FileInv (f : File) : Prop where
  ok : ∀ j (h : j < f.recs.length), (f.recs[j]).index = f.start + j
  lo : f.start ≤ f.splitOff
  hi : f.splitOff ≤ endIdx f

def Closed (f : File) : Prop := f.closed = true ∧ f.count = f.recs.length

/-- the whole catalogue, first file first -/
def Chain : List File → Prop
  | [] => True
  | [l] => FileInv l ∧ l.closed = false
  | f :: g :: r => Closed f ∧ FileInv f ∧ endIdx f = g.splitOff ∧ Chain (g :: r)

/-- closed files with adjacent visible ranges, the last one ending at `e` -/
def Pre : List File → Nat → Prop
  | [], _ => True
  | [f], e => Closed f ∧ FileInv f ∧ endIdx f = e
  | f :: g :: r, e => Closed f ∧ FileInv f ∧ endIdx f = g.splitOff ∧ Pre (g :: r) e

theorem pre_snoc_iff (ys : List File) (f : File) (e : Nat) :
    Pre (ys ++ [f]) e ↔ Pre ys f.splitOff ∧ Closed f ∧ FileInv f ∧ endIdx f = e := by
  induction ys with
  | nil => simp [Pre]
  | cons y ys ih =>
    cases ys with
    | nil =>
      simp only [List.cons_append, List.nil_append, Pre]
      constructor
      · rintro ⟨a, b, c, d, e', g⟩; exact ⟨⟨a, b, c⟩, d, e', g⟩
      · rintro ⟨⟨a, b, c⟩, d, e', g⟩; exact ⟨a, b, c, d, e', g⟩
    | cons z zs =>
      simp only [List.cons_append] at ih ⊢
      simp only [Pre, ih]
      constructor
      · rintro ⟨a, b, c, d, e', g, h⟩; exact ⟨⟨a, b, c, d⟩, e', g, h⟩
      · rintro ⟨⟨a, b, c, d⟩, e', g, h⟩; exact ⟨a, b, c, d, e', g, h⟩

theorem chain_snoc_iff (ys : List File) (l : File) :
    Chain (ys ++ [l]) ↔ Pre ys l.splitOff ∧ FileInv l ∧ l.closed = false := by
  induction ys with
  | nil => simp [Chain, Pre]
  | cons y ys ih =>
    cases ys with
    | nil =>
      simp only [List.cons_append, List.nil_append, Chain, Pre]
      constructor
      · rintro ⟨a, b, c, d, e'⟩; exact ⟨⟨a, b, c⟩, d, e'⟩
      · rintro ⟨⟨a, b, c⟩, d, e'⟩; exact ⟨a, b, c, d, e'⟩
    | cons z zs =>
      simp only [List.cons_append] at ih ⊢
      simp only [Chain, Pre, ih]
      constructor
      · rintro ⟨a, b, c, d, e', g⟩; exact ⟨⟨a, b, c, d⟩, e', g⟩
      · rintro ⟨⟨a, b, c, d⟩, e', g⟩; exact ⟨a, b, c, d, e', g⟩

/-- every non-empty list is `ys ++ [l]` -/
theorem snoc_cases (fs : List File) : fs = [] ∨ ∃ ys l, fs = ys ++ [l] := by
  rcases List.eq_nil_or_concat fs with h | ⟨ys, l, h⟩
  · exact Or.inl h
  · exact Or.inr ⟨ys, l, by simpa using h⟩

/-- in a `Pre` prefix every file ends at or below the end point, and is closed and well formed -/
theorem pre_mem (ys : List File) (e : Nat) (h : Pre ys e) :
    ∀ f ∈ ys, Closed f ∧ FileInv f ∧ endIdx f ≤ e := by
  induction ys with
  | nil => simp
  | cons y ys ih =>
    cases ys with
    | nil =>
      simp only [Pre] at h
      intro f hf; simp at hf; subst hf; exact ⟨h.1, h.2.1, by omega⟩
    | cons z zs =>
      simp only [Pre] at h
      have ih' := ih h.2.2.2
      intro f hf
      rcases List.mem_cons.1 hf with rfl | hf
      · have hz := ih' z (by simp)
        have := hz.2.1.hi
        exact ⟨h.1, h.2.1, by omega⟩
      · exact ih' f hf

/-- the first file of a `Pre` prefix starts the visible range: its split point is below the end point -/
theorem pre_head_le (y : File) (ys : List File) (e : Nat) (h : Pre (y :: ys) e) : y.splitOff ≤ e := by
  have := pre_mem _ _ h y (by simp)
  have := this.2.1.hi
  omega

end RNacos.LogManager
