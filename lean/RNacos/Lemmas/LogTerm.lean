import RNacos.Lemmas.LogLoad
/-
The cached term of the last entry after reopen and after truncation; the history theorem.
-/
namespace RNacos.LogFile
open RNacos.Varint RNacos.Spec.Stream RNacos.FileReader RNacos.BufReader

/-- reading the last entry of a non-empty log whose last entry is not split off -/
theorem read_last (f : LogFile) (es : List Rec) (h : WF f es) (hne : es ≠ []) (hsp : f.splitOff < endIndex f) :
    readRecords f (endIndex f - 1) (endIndex f) = some [es.getLast hne] := by
  have hend := endIndex_wf f es h
  have hlen : 0 < es.length := List.length_pos_iff.mpr hne
  rw [read_wf f es _ _ h]
  have h1 : max (endIndex f - 1) f.splitOff = endIndex f - 1 := by omega
  have h2 : min (endIndex f) (endIndex f) = endIndex f := by omega
  rw [h1, h2, hend]
  have h3 : f.startIndex + es.length - 1 - f.startIndex = es.length - 1 := by omega
  have h4 : f.startIndex + es.length - (f.startIndex + es.length - 1) = 1 := by omega
  rw [h3, h4, List.drop_eq_getElem_cons (by omega : es.length - 1 < es.length)]
  have h5 : es.length - 1 + 1 = es.length := by omega
  rw [h5, List.drop_length, List.getLast_eq_getElem hne]
  rfl

/-- **reopen reports the last entry**: after `init` the last index and term are those of the last stored entry -/
theorem initTerm_lastTerm (f : LogFile) (es : List Rec) (t : Nat) (h : WF f es) (hne : es ≠ [])
    (hsp : f.splitOff < endIndex f) : (initTerm f t).lastTerm = (es.getLast hne).term := by
  have hlen : 0 < es.length := List.length_pos_iff.mpr hne
  unfold initTerm
  have h1 : f.msgCount > 0 := by rw [h.msg]; exact hlen
  have h2 : ¬ (max (endIndex f - 1) f.splitOff ≥ endIndex f) := by
    have := endIndex_wf f es h; omega
  simp only [h1, if_true, h2, if_false, read_last f es h hne hsp]
  simp

theorem endIndex_initTerm (f : LogFile) (t : Nat) : endIndex (initTerm f t) = endIndex f := by
  unfold initTerm
  split
  · split
    · rfl
    · split <;> rfl
  · rfl

theorem endIndex_refreshTerm (f : LogFile) (k : Nat) : endIndex (refreshTerm f k) = endIndex f := by
  unfold refreshTerm
  split
  · split <;> rfl
  · rfl

theorem splitOff_refreshTerm (f : LogFile) (k : Nat) : (refreshTerm f k).splitOff = f.splitOff := by
  unfold refreshTerm
  split
  · split <;> rfl
  · rfl

/-- **truncation reports the last remaining entry** -/
theorem refreshTerm_lastTerm (f : LogFile) (es : List Rec) (k : Nat) (h : WF f es) (hne : es ≠ [])
    (hk : k = endIndex f) (hsp : f.splitOff < endIndex f) :
    (refreshTerm f k).lastTerm = (es.getLast hne).term := by
  have hlen : 0 < es.length := List.length_pos_iff.mpr hne
  have hend := endIndex_wf f es h
  unfold refreshTerm
  have h1 : f.msgCount > 0 ∧ max (k - 1) f.splitOff < min k (endIndex f) := by
    refine ⟨by rw [h.msg]; exact hlen, by omega⟩
  simp only [h1, and_self, if_true]
  rw [hk, read_last f es h hne hsp]
  simp

end RNacos.LogFile
