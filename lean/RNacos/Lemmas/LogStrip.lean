import RNacos.Lemmas.LogWF
/-
Truncation (`strip_log_to`) preserves the representation invariant with the entry list cut at `k`.
-/
namespace RNacos.LogFile
open RNacos.Varint RNacos.Spec.Stream RNacos.FileReader RNacos.BufReader
open RNacos.IndexFile (writeAt)

theorem writeAt_nil (l : List Nat) (off : Nat) (h : off ≤ l.length) : writeAt l off [] = l := by
  unfold writeAt
  have : off - l.length = 0 := by omega
  simp [this]

theorem offsetOf_take_end (es : List Rec) (n : Nat) (hn : n ≤ es.length) :
    offsetOf (es.take n) (es.take n).length = offsetOf es n := by
  rw [List.length_take, Nat.min_eq_left hn, offsetOf_take es n n (Nat.le_refl _)]

theorem idxBytesUpTo_take (I : Nat) (es : List Rec) (n j : Nat) (hj : j * I ≤ n) :
    idxBytesUpTo I (es.take n) j = idxBytesUpTo I es j := by
  apply idxBytesUpTo_congr
  intro i hi
  have : i * I ≤ j * I := Nat.mul_le_mul_right I hi
  exact offsetOf_take es n (i * I) (by omega)

theorem entry_take (start I : Nat) (es : List Rec) (n j : Nat) (hj : j * I ≤ n) :
    entry start I (es.take n) j = entry start I es j := by
  unfold entry; rw [offsetOf_take es n (j * I) hj]

/-- the invariant does not mention the cached term nor forbid a pending seek -/
theorem WF.setTerm {f : LogFile} {es : List Rec} (h : WF f es) (t : Nat) :
    WF { f with needSeek := true, lastTerm := t } es :=
  { recs := h.recs, idx := h.idx, ivl := h.ivl, ivl16 := h.ivl16, area := h.area, first := h.first,
    split := h.split, bound := h.bound, msg := h.msg, cur := h.cur, dc := h.dc, indexs := h.indexs, ic := h.ic,
    icEnd := h.icEnd, room := h.room, bytes := h.bytes, posOK := Or.inl rfl, hdrOK := h.hdrOK }

theorem refreshTerm_wf (f : LogFile) (es : List Rec) (k : Nat) (h : WF f es) : WF (refreshTerm f k) es := by
  unfold refreshTerm
  split
  · split
    · exact h.setTerm _
    · exact h
  · exact h

/-- **the cut**: after `strip_log_to(k)` the file holds exactly the entries below `k`
(`n` entries are kept, `js` is the index entry of the block that holds the cut, `q` the last index entry) -/
theorem stripCore_wf' (f : LogFile) (es : List Rec) (k n js q : Nat) (h : WF f es)
    (hn : n = k - f.startIndex) (hjs : js = n / f.interval) (hq : q = es.length / f.interval)
    (hs : f.startIndex ≤ k) (hlt : k < f.startIndex + es.length) :
    WF (stripCore f k (entry f.startIndex f.interval es js) (tailLen f.interval es q js) (q - js)) (es.take n) := by
  obtain ⟨z1, z2, hb, hz1, hz2, hsum⟩ := h.bytes
  have hH := header_length f.hdrTerm f.firstIndex f.interval f.areaEnd
  have hI := h.ivl
  have hnlt : n < es.length := by omega
  have hjq : js ≤ q := by rw [hjs, hq]; exact Nat.div_le_div_right (by omega)
  have hjn : js * f.interval ≤ n := by rw [hjs]; exact Nat.div_mul_le_self _ _
  obtain ⟨X, hX, _⟩ := idxBytesUpTo_split f.interval es js q hjq
  have hXl : X.length = tailLen f.interval es q js := by
    unfold tailLen; rw [hX]; simp
  have hib : idxBytes f.interval es = idxBytesUpTo f.interval es js ++ X := by unfold idxBytes; rw [← hq]; exact hX
  -- the index part of the cut, uniformly for "entries dropped" and "no entry dropped"
  have hf1 : (if q - js > 0 then
        { f with indexs := f.indexs.take (f.indexs.length - (q - js)),
                 indexCursor := f.indexCursor - tailLen f.interval es q js,
                 bytes := writeAt f.bytes (f.indexCursor - tailLen f.interval es q js)
                   (List.replicate (tailLen f.interval es q js) 0) }
      else f) =
      { f with indexs := (List.range (js + 1)).map (entry f.startIndex f.interval es),
               indexCursor := 32 + (idxBytesUpTo f.interval es js).length,
               bytes := header f.hdrTerm f.firstIndex f.interval f.areaEnd ++
                 (idxBytesUpTo f.interval es js ++ (List.replicate X.length 0 ++ z1)) ++ (dataBytes es ++ z2) } := by
    have hicsub : f.indexCursor - tailLen f.interval es q js = 32 + (idxBytesUpTo f.interval es js).length := by
      rw [h.ic, hib, ← hXl]; simp; omega
    have htake : f.indexs.take (f.indexs.length - (q - js)) =
        (List.range (js + 1)).map (entry f.startIndex f.interval es) := by
      rw [h.indexs, idxList_eq, ← hq, List.length_map, List.length_range, ← List.map_take, List.take_range]
      have : min (q + 1 - (q - js)) (q + 1) = js + 1 := by omega
      rw [this]
    split
    · rw [hicsub, htake, ← hXl, hb, hib]
      have e : header f.hdrTerm f.firstIndex f.interval f.areaEnd ++
          (idxBytesUpTo f.interval es js ++ X ++ z1) ++ (dataBytes es ++ z2) =
          (header f.hdrTerm f.firstIndex f.interval f.areaEnd ++ idxBytesUpTo f.interval es js) ++
          (X ++ (z1 ++ (dataBytes es ++ z2))) := by simp
      rw [e, writeAt_append' _ _ _ _ (by simp [hH])]
      simp
    · rename_i hpop
      have hjeq : js = q := by omega
      have hX0 : X = [] := by
        apply List.eq_nil_of_length_eq_zero
        rw [hXl, hjeq]; simp [tailLen]
      cases f with
      | mk bytes fileLen firstIndex hdrTerm interval areaEnd indexs startIndex indexCursor dataCursor msgCount lastTerm curCount splitOff pos needSeek =>
      simp only at hb h hq hib ⊢
      have hic := h.ic; have hix := h.indexs
      simp only at hic hix
      subst hX0
      simp only [LogFile.mk.injEq, true_and, and_true]
      refine ⟨?_, ?_, ?_⟩
      · rw [hb, hib]; simp
      · rw [hix, idxList_eq, ← hq, hjeq]
      · rw [hic, hib]; simp
  unfold stripCore
  simp only
  rw [hf1]
  simp only
  -- the data part: re-scan from the index entry
  have hsplit := dataBytes_take_drop es (js * f.interval)
  have hpre : (header f.hdrTerm f.firstIndex f.interval f.areaEnd ++
      (idxBytesUpTo f.interval es js ++ (List.replicate X.length 0 ++ z1)) ++
      dataBytes (es.take (js * f.interval))).length = (entry f.startIndex f.interval es js).fileIndex := by
    unfold entry offsetOf
    simp only [List.length_append, List.length_replicate, hH]
    rw [hib] at hsum; simp only [List.length_append] at hsum
    omega
  have hbytes1 : header f.hdrTerm f.firstIndex f.interval f.areaEnd ++
      (idxBytesUpTo f.interval es js ++ (List.replicate X.length 0 ++ z1)) ++ (dataBytes es ++ z2) =
      (header f.hdrTerm f.firstIndex f.interval f.areaEnd ++
      (idxBytesUpTo f.interval es js ++ (List.replicate X.length 0 ++ z1)) ++
      dataBytes (es.take (js * f.interval))) ++ (dataBytes (es.drop (js * f.interval)) ++ z2) := by
    rw [hsplit]; simp
  have hmv := moveByCount_layout
    (header f.hdrTerm f.firstIndex f.interval f.areaEnd ++
      (idxBytesUpTo f.interval es js ++ (List.replicate X.length 0 ++ z1)) ++
      dataBytes (es.take (js * f.interval))) z2 (es.drop (js * f.interval))
    (entry f.startIndex f.interval es js).logIndex f.startIndex
    (k - (entry f.startIndex f.interval es js).logIndex)
    (fun r hr => h.recs r (List.mem_of_mem_drop hr)) hz2
  rw [hpre] at hmv
  rw [hbytes1, hmv]
  simp only
  have hlog : (entry f.startIndex f.interval es js).logIndex = f.startIndex + js * f.interval := rfl
  have hfi : (entry f.startIndex f.interval es js).fileIndex = offsetOf es (js * f.interval) := rfl
  have hc : k - (entry f.startIndex f.interval es js).logIndex = n - js * f.interval := by rw [hlog]; omega
  have htake : es.take n = es.take (js * f.interval) ++ (es.drop (js * f.interval)).take (n - js * f.interval) := by
    have : n = js * f.interval + (n - js * f.interval) := by omega
    rw [this, List.take_add]
    have : js * f.interval + (n - js * f.interval) - js * f.interval = n - js * f.interval := by omega
    rw [this]
  have hdcnew : (entry f.startIndex f.interval es js).fileIndex +
      (dataBytes ((es.drop (js * f.interval)).take (n - js * f.interval))).length = offsetOf es n := by
    rw [hfi]; unfold offsetOf; rw [htake, dataBytes_append, List.length_append]
    have : (es.take (js * f.interval) ++ (es.drop (js * f.interval)).take (n - js * f.interval)).take (js * f.interval) =
        es.take (js * f.interval) := by
      rw [← htake, List.take_take, Nat.min_eq_left hjn]
    first | omega | (rw [this]; omega)
  have hmsg : (entry f.startIndex f.interval es js).logIndex - f.startIndex +
      min (n - js * f.interval) (es.drop (js * f.interval)).length = n := by
    rw [hlog, List.length_drop]; omega
  rw [hc, hdcnew, hmsg]
  -- the zero fill of the removed records
  have hdrop : dataBytes (es.drop (js * f.interval)) =
      dataBytes ((es.drop (js * f.interval)).take (n - js * f.interval)) ++ dataBytes (es.drop n) := by
    rw [dataBytes_take_drop (es.drop (js * f.interval)) (n - js * f.interval), List.drop_drop]
    have : js * f.interval + (n - js * f.interval) = n := by omega
    rw [this]
  have hrem : (dataBytes (es.drop n)).length = f.dataCursor - offsetOf es n := by
    rw [h.dc]; unfold offsetOf
    rw [List.take_length, dataBytes_take_drop es n, List.length_append]; omega
  have hpre2 : (header f.hdrTerm f.firstIndex f.interval f.areaEnd ++
      (idxBytesUpTo f.interval es js ++ (List.replicate X.length 0 ++ z1)) ++
      dataBytes (es.take (js * f.interval)) ++
      dataBytes ((es.drop (js * f.interval)).take (n - js * f.interval))).length = offsetOf es n := by
    rw [List.length_append, hpre, hdcnew]
  have hbytes2 : writeAt (header f.hdrTerm f.firstIndex f.interval f.areaEnd ++
      (idxBytesUpTo f.interval es js ++ (List.replicate X.length 0 ++ z1)) ++
      dataBytes (es.take (js * f.interval)) ++ (dataBytes (es.drop (js * f.interval)) ++ z2))
      (offsetOf es n) (List.replicate (f.dataCursor - offsetOf es n) 0) =
      header f.hdrTerm f.firstIndex f.interval f.areaEnd ++
      (idxBytesUpTo f.interval es js ++ (List.replicate X.length 0 ++ z1)) ++
      (dataBytes (es.take n) ++ (List.replicate (f.dataCursor - offsetOf es n) 0 ++ z2)) := by
    rw [hdrop]
    have e : header f.hdrTerm f.firstIndex f.interval f.areaEnd ++
        (idxBytesUpTo f.interval es js ++ (List.replicate X.length 0 ++ z1)) ++
        dataBytes (es.take (js * f.interval)) ++
        (dataBytes ((es.drop (js * f.interval)).take (n - js * f.interval)) ++ dataBytes (es.drop n) ++ z2) =
        (header f.hdrTerm f.firstIndex f.interval f.areaEnd ++
        (idxBytesUpTo f.interval es js ++ (List.replicate X.length 0 ++ z1)) ++
        dataBytes (es.take (js * f.interval)) ++
        dataBytes ((es.drop (js * f.interval)).take (n - js * f.interval))) ++ (dataBytes (es.drop n) ++ z2) := by simp
    rw [e, writeAt_append' _ _ _ _ hpre2.symm, List.length_replicate, ← hrem, List.drop_left]
    rw [htake, dataBytes_append]
    simp
  rw [hbytes2]
  have hnle : n ≤ es.length := by omega
  have hdivn : (es.take n).length / f.interval = js := by rw [List.length_take, Nat.min_eq_left hnle, hjs]
  refine { recs := fun r hr => h.recs r (List.mem_of_mem_take hr),
           idx := ?_, ivl := h.ivl, ivl16 := h.ivl16, area := h.area, first := h.first, split := h.split,
           bound := ?_, msg := by simp [Nat.min_eq_left hnle], cur := ?_, dc := by simp only; rw [offsetOf_take_end es n hnle],
           indexs := ?_, ic := ?_, icEnd := ?_, room := ?_, bytes := ?_, posOK := Or.inr rfl, hdrOK := h.hdrOK }
  · intro i hi
    have hi' : i < es.length := by simp at hi; omega
    rw [List.getElem_take]; exact h.idx i hi'
  · rw [offsetOf_take_end es n hnle]
    have := offsetOf_mono es n es.length hnle
    have := h.bound; omega
  · simp only [List.length_take, Nat.min_eq_left hnle]
    rw [Nat.mod_def, ← hjs, Nat.mul_comm]
  · simp only
    rw [idxList_eq, hdivn]
    apply List.map_congr_left
    intro j hj
    have hj' : j < js + 1 := List.mem_range.mp hj
    have : j * f.interval ≤ js * f.interval := Nat.mul_le_mul_right _ (by omega)
    exact (entry_take f.startIndex f.interval es n j (by omega)).symm
  · simp only
    unfold idxBytes; rw [hdivn, idxBytesUpTo_take f.interval es n js hjn]
  · simp only
    have h1 := h.ic; have h2 := h.icEnd
    rw [hib] at h1; simp only [List.length_append] at h1; omega
  · intro j hj
    simp only at hj ⊢
    rw [hdivn] at hj
    have : j * f.interval ≤ js * f.interval := Nat.mul_le_mul_right _ (by omega)
    rw [idxBytesUpTo_take f.interval es n j (by omega)]
    exact h.room j (by rw [← hq]; omega)
  · refine ⟨List.replicate X.length 0 ++ z1, List.replicate (f.dataCursor - offsetOf es n) 0 ++ z2, ?_,
      (allZero_replicate _).append hz1, (allZero_replicate _).append hz2, ?_⟩
    · simp only
      unfold idxBytes; rw [hdivn, idxBytesUpTo_take f.interval es n js hjn]
    · unfold idxBytes; rw [hdivn, idxBytesUpTo_take f.interval es n js hjn]
      rw [hib] at hsum; simp only [List.length_append, List.length_replicate] at hsum ⊢; omega

end RNacos.LogFile
