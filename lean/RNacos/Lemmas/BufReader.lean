import RNacos.Model.BufReader
import RNacos.Spec.Stream
import RNacos.Lemmas.Varint
/-
Helper lemmas: the byte-exact `MessageBufReader` model refines "a window of unread bytes".
-/
namespace RNacos.BufReader
open RNacos.Varint RNacos.Spec.Stream

/-- representation invariant of the reader -/
def WF (r : BufReader) : Prop := r.start ≤ r.end_ ∧ r.end_ ≤ r.buf.length

theorem wf_new (cap : Nat) : WF (new cap) := by simp [WF, new]

theorem window_new (cap : Nat) : window (new cap) = [] := by simp [window, new]

theorem window_length {r : BufReader} (h : WF r) : (window r).length = r.end_ - r.start := by
  unfold window; simp only [List.length_take, List.length_drop]; unfold WF at h; omega

theorem isEmpty_eq {r : BufReader} (h : WF r) :
    isEmpty r = (match window r with | [] => false | b :: _ => b == 0) := by
  unfold isEmpty
  by_cases hs : r.start ≥ r.end_
  · have : window r = [] := by
      apply List.eq_nil_of_length_eq_zero; rw [window_length h]; omega
    simp [hs, this]
  · simp only [hs, if_false]
    have hlt : r.start < r.buf.length := by unfold WF at h; omega
    have hw : window r = r.buf[r.start] :: ((r.buf.drop (r.start + 1)).take (r.end_ - r.start - 1)) := by
      unfold window
      rw [List.drop_eq_getElem_cons hlt]
      have : r.end_ - r.start = (r.end_ - r.start - 1) + 1 := by omega
      rw [this, List.take_succ_cons]
      simp
    rw [hw]
    simp [List.getD_eq_getElem?_getD, List.getElem?_eq_getElem hlt]

/-! ### `expand` keeps the prefix and only grows -/

theorem expand_prefix (f : Nat) : ∀ (buf : List Nat) (e n : Nat), buf <+: expand f buf e n := by
  induction f with
  | zero => intro buf e n; simp [expand]
  | succ f ih =>
    intro buf e n
    simp only [expand]
    split
    · exact List.IsPrefix.trans (List.prefix_append _ _) (ih _ e n)
    · exact List.prefix_refl _

theorem append_window {r : BufReader} (h : WF r) (ch : List Nat) :
    WF (appendNextBuf r ch) ∧ window (appendNextBuf r ch) = window r ++ ch ∧
    (appendNextBuf r ch).nextLen = r.nextLen := by
  obtain ⟨h1, h2⟩ := h
  let moved := r.buf.drop r.start ++ r.buf.drop (r.buf.length - r.start)
  let e := r.end_ - r.start
  let grown := expand (e + ch.length) moved e ch.length
  have hpre : moved <+: grown := expand_prefix _ _ _ _
  obtain ⟨ext, hext⟩ := hpre
  have hmoved_len : moved.length = r.buf.length := by
    simp only [moved, List.length_append, List.length_drop]; omega
  have hgl : e ≤ grown.length := by
    rw [← hext]; simp only [List.length_append]; omega
  have htake : grown.take e = window r := by
    rw [← hext]
    have he1 : e ≤ (r.buf.drop r.start).length := by simp only [List.length_drop]; omega
    unfold window
    simp only [moved]
    rw [List.append_assoc, List.take_append_of_le_length he1]
  have hbuf : (appendNextBuf r ch).buf = grown.take e ++ ch ++ grown.drop (e + ch.length) := rfl
  have hstart : (appendNextBuf r ch).start = 0 := rfl
  have hend : (appendNextBuf r ch).end_ = e + ch.length := rfl
  refine ⟨?_, ?_, rfl⟩
  · unfold WF
    rw [hstart, hend, hbuf]
    simp only [List.length_append, List.length_take, List.length_drop]
    omega
  · unfold window
    rw [hstart, hend, hbuf, List.drop_zero, Nat.sub_zero, htake]
    have : (window r ++ ch).length = e + ch.length := by
      rw [List.length_append, window_length ⟨h1, h2⟩]
    rw [List.take_append_of_le_length (by omega)]
    rw [List.take_of_length_le (by omega)]
    rfl

/-! ### one call of `next_message_vec` seen through the window -/

theorem next_window_drop {r : BufReader} (h : WF r) (nl : Nat) (hnl : nl ≤ (window r).length) :
    WF { r with start := r.start + nl, nextLen := 0 } ∧
    window { r with start := r.start + nl, nextLen := 0 } = (window r).drop nl := by
  have hl := window_length h
  obtain ⟨h1, h2⟩ := h
  constructor
  · unfold WF; simp only; omega
  · unfold window; simp only
    rw [List.drop_take, List.drop_drop]
    congr 1
    omega

/-- a complete frame at the head of the window is returned and consumed -/
theorem next_frame {r : BufReader} (h : WF r) (b rest : List Nat) (hb : 0 < b.length ∧ b.length < 2 ^ 64)
    (hw : window r = frame b ++ rest) :
    ∃ r', nextMessageVec r = (some (frame b), r') ∧ WF r' ∧ window r' = rest := by
  have hv128 : b.length < 128 ^ (9 + 1) := by have := pow64_lt; omega
  have hne : isEmpty r = false := by
    rw [isEmpty_eq h, hw]
    unfold frame vwrite
    have hh := vwriteF_head_ne_zero 9 b.length hb.1
    cases hvw : vwriteF 9 b.length with
    | nil => exact absurd hvw (vwriteF_ne_nil _ _)
    | cons a t =>
      rw [hvw] at hh
      simp at hh ⊢
      exact hh
  have hvlen : vlen (window r) = some (vwrite b.length).length := by
    rw [hw]; unfold frame; rw [List.append_assoc]
    exact vlen_vwriteF 9 b.length _ hv128
  have hread : vreadGo 10 (window r) = .ok b.length := by
    rw [hw]; unfold frame; rw [List.append_assoc]
    exact vreadGo_vwrite b.length _ hb.2
  have hflen : (frame b).length = (vwrite b.length).length + b.length := by
    unfold frame; simp
  have hmod : b.length % 2 ^ 64 = b.length := Nat.mod_eq_of_lt hb.2
  have hge : (window r).length ≥ (vwrite b.length).length + b.length := by
    rw [hw, List.length_append, hflen]; omega
  unfold nextMessageVec
  simp only [hne, Bool.false_eq_true, if_false, hvlen, hread, hmod, hge, if_true]
  obtain ⟨hwf, hwin⟩ := next_window_drop h ((vwrite b.length).length + b.length) hge
  refine ⟨{ r with start := r.start + ((vwrite b.length).length + b.length), nextLen := 0 }, ?_, hwf, ?_⟩
  · have : List.take ((vwrite b.length).length + b.length) (window r) = frame b := by
      rw [hw, ← hflen]; simp
    rw [this]
  · rw [hwin, hw, ← hflen]; simp

/-- the window cannot yield a message yet: it is empty, starts with the zero length byte, or is a
proper prefix of one well-formed frame -/
def Stuck (p : List Nat) : Prop :=
  p = [] ∨ p.head? = some 0 ∨
  ∃ b : List Nat, (0 < b.length ∧ b.length < 2 ^ 64) ∧ p <+: frame b ∧ p.length < (frame b).length

theorem next_stuck {r : BufReader} (h : WF r) (hs : Stuck (window r)) :
    ∃ r', nextMessageVec r = (none, r') ∧ WF r' ∧ window r' = window r := by
  rcases hs with hnil | hzero | ⟨b, hb, hpre, hlen⟩
  · -- empty window
    have he : isEmpty r = false := by rw [isEmpty_eq h, hnil]
    refine ⟨r, ?_, h, rfl⟩
    unfold nextMessageVec
    simp [he, hnil, vlen]
  · have he : isEmpty r = true := by
      rw [isEmpty_eq h]
      cases hw : window r with
      | nil => rw [hw] at hzero; simp at hzero
      | cons a t => rw [hw] at hzero; simp at hzero; simp [hzero]
    exact ⟨r, by unfold nextMessageVec; simp [he], h, rfl⟩
  · by_cases he : isEmpty r = true
    · exact ⟨r, by unfold nextMessageVec; simp [he], h, rfl⟩
    · have he' : isEmpty r = false := by simpa using he
      have hv128 : b.length < 128 ^ (9 + 1) := by have := pow64_lt; omega
      by_cases hshort : (window r).length < (vwrite b.length).length
      · -- inside the varint: no terminator byte yet
        have hp : window r <+: vwrite b.length := by
          unfold frame at hpre
          exact List.prefix_of_prefix_length_le hpre (List.prefix_append _ _) (by omega)
        have hvl : vlen (window r) = none := vlen_vwriteF_prefix 9 b.length _ hv128 hp hshort
        exact ⟨r, by unfold nextMessageVec; simp [he', hvl], h, rfl⟩
      · -- the whole varint is there, the body is not
        have hp : vwrite b.length <+: window r := by
          unfold frame at hpre
          exact List.prefix_of_prefix_length_le (List.prefix_append _ _) hpre (by omega)
        obtain ⟨q, hq⟩ := hp
        have hvl : vlen (window r) = some (vwrite b.length).length := by
          rw [← hq]; exact vlen_vwriteF 9 b.length _ hv128
        have hrd : vreadGo 10 (window r) = .ok b.length := by
          rw [← hq]; exact vreadGo_vwrite b.length _ hb.2
        have hmod : b.length % 2 ^ 64 = b.length := Nat.mod_eq_of_lt hb.2
        have hflen : (frame b).length = (vwrite b.length).length + b.length := by
          unfold frame; simp
        have hlt : ¬ ((window r).length ≥ (vwrite b.length).length + b.length) := by omega
        refine ⟨{ r with nextLen := (vwrite b.length).length + b.length }, ?_, h, rfl⟩
        unfold nextMessageVec
        simp only [he', Bool.false_eq_true, if_false, hvl, hrd, hmod, hlt]

end RNacos.BufReader
