import RNacos.Lemmas.Naming
import RNacos.Model.NamingSnap
/-
Lemmas about the registry's snapshot (`Model/NamingSnap.lean`), used by Props/C01.
-/
namespace RNacos.Naming
open RNacos

theorem toDo_keepOwner (a b : Inst) : (keepOwner a b).toDo = a.toDo := by
  unfold keepOwner; split <;> rfl

theorem short_keepOwner (a b : Inst) : (keepOwner a b).short = a.short := by
  unfold keepOwner; split <;> rfl

theorem toDo_stampLocal (n : Naming) (i : Inst) (h : Nat) : (n.stampLocal i h).toDo = i.toDo := by
  unfold Naming.stampLocal; split <;> rfl

theorem short_stampLocal (n : Naming) (i : Inst) (h : Nat) : (n.stampLocal i h).short = i.short := by
  unfold Naming.stampLocal; split <;> rfl

/-- the instance map of a service after an update without a tag: the address now holds the given instance (ownership
possibly inherited), every other address is untouched -/
theorem insts_updateInstance_none (s : Svc) (i : Inst) (fs : Bool) (key : ShortKey) :
    (AL.get? (s.updateInstance i none fs).1.insts key).map Inst.toDo =
      if key = i.short then some i.toDo else (AL.get? s.insts key).map Inst.toDo := by
  unfold Svc.updateInstance
  cases hold : AL.get? s.insts i.short with
  | none =>
    simp only [Svc.insertInst]
    by_cases hk : key = i.short
    · subst hk; simp
    · simp only [hk, if_false]; rw [AL.get?_set_other _ _ _ _ (fun e => hk e.symm)]
  | some old =>
    simp only [applyTag, Svc.replaceInst, short_keepOwner]
    by_cases hk : key = i.short
    · subst hk; simp [toDo_keepOwner]
    · simp only [hk, if_false]; rw [AL.get?_set_other _ _ _ _ (fun e => hk e.symm)]

theorem lookDo_ensureService (n : Naming) (k : SKey) (now : Int) (k' : SKey) (key : ShortKey) :
    lookDo (n.ensureService k now) k' key = lookDo n k' key := by
  unfold Naming.ensureService lookDo
  cases h : AL.get? n.services k with
  | some _ => rfl
  | none =>
    by_cases hk : k' = k
    · subst hk; simp [h, AL.get?]
    · simp only; rw [AL.get?_set_other _ _ _ _ (fun e => hk e.symm)]

/-- **one record loaded**: the address of the record holds the record, everything else is as before -/
theorem lookDo_loadRec (now : Int) (hashOf : SKey → Nat) (n : Naming) (r : SKey × Do) (k' : SKey) (key' : ShortKey) :
    lookDo (loadRec now hashOf n r) k' key' = if (k', key') = keyOf r then some r.2 else lookDo n k' key' := by
  unfold loadRec Naming.updateInstance
  have hens : ∃ svc, AL.get? (n.ensureService r.1 now).services r.1 = some svc := by
    unfold Naming.ensureService
    cases h : AL.get? n.services r.1 with
    | some s => exact ⟨s, by simp [h]⟩
    | none => exact ⟨{}, by simp⟩
  obtain ⟨svc, hsvc⟩ := hens
  rw [hsvc]
  simp only
  rw [← lookDo_ensureService n r.1 now k' key']
  generalize n.ensureService r.1 now = m at hsvc ⊢
  unfold Naming.putInstance lookDo keyOf
  by_cases hk : k' = r.1
  · subst hk
    simp only [AL.get?_set_same, Option.bind_some, hsvc]
    rw [insts_updateInstance_none]
    have hs : (m.stampLocal { r.2.toInst with lastModified := now } (hashOf r.1)).short = ⟨r.2.ip, r.2.port⟩ := by
      rw [short_stampLocal]; rfl
    have hd : (m.stampLocal { r.2.toInst with lastModified := now } (hashOf r.1)).toDo = r.2 := by
      rw [toDo_stampLocal]; rfl
    rw [hs, hd]
    by_cases hkey : key' = ⟨r.2.ip, r.2.port⟩
    · simp [hkey]
    · have : ¬ ((r.1, key') = (r.1, (⟨r.2.ip, r.2.port⟩ : ShortKey))) := by
        intro h; exact hkey (Prod.mk.inj h).2
      simp [hkey, this]
  · have : ¬ ((k', key') = (r.1, (⟨r.2.ip, r.2.port⟩ : ShortKey))) := by
      intro h; exact hk (Prod.mk.inj h).1
    simp only [this, if_false]
    rw [AL.get?_set_other _ _ _ _ (fun e => hk e.symm)]

/-- loading a list of records in which all records of one address agree -/
theorem lookDo_loadSnapshot_absent (now : Int) (hashOf : SKey → Nat) (rs : List (SKey × Do)) (n : Naming)
    (k : SKey) (key : ShortKey) (h : ∀ r ∈ rs, keyOf r ≠ (k, key)) :
    lookDo (loadSnapshot now hashOf n rs) k key = lookDo n k key := by
  induction rs generalizing n with
  | nil => rfl
  | cons r rs ih =>
    simp only [loadSnapshot, List.foldl_cons]
    have := ih (loadRec now hashOf n r) (fun r' hr' => h r' (List.mem_cons_of_mem _ hr'))
    simp only [loadSnapshot] at this
    rw [this, lookDo_loadRec]
    have hne : ¬ ((k, key) = keyOf r) := fun e => h r (List.mem_cons_self ..) e.symm
    simp [hne]

theorem lookDo_loadSnapshot_present (now : Int) (hashOf : SKey → Nat) (rs : List (SKey × Do)) (n : Naming)
    (k : SKey) (key : ShortKey) (d : Do) (hex : ∃ r ∈ rs, keyOf r = (k, key))
    (hfun : ∀ r ∈ rs, keyOf r = (k, key) → r.2 = d) :
    lookDo (loadSnapshot now hashOf n rs) k key = some d := by
  induction rs generalizing n with
  | nil => obtain ⟨r, hr, _⟩ := hex; cases hr
  | cons r rs ih =>
    simp only [loadSnapshot, List.foldl_cons]
    by_cases hlater : ∃ r' ∈ rs, keyOf r' = (k, key)
    · have := ih (loadRec now hashOf n r) hlater (fun r' hr' => hfun r' (List.mem_cons_of_mem _ hr'))
      simpa [loadSnapshot] using this
    · have hnone : ∀ r' ∈ rs, keyOf r' ≠ (k, key) := fun r' hr' e => hlater ⟨r', hr', e⟩
      have := lookDo_loadSnapshot_absent now hashOf rs (loadRec now hashOf n r) k key hnone
      simp only [loadSnapshot] at this
      rw [this, lookDo_loadRec]
      obtain ⟨r0, hr0, hk0⟩ := hex
      rcases List.mem_cons.1 hr0 with rfl | hin
      · simp [hk0, hfun r0 (List.mem_cons_self ..) hk0]
      · exact absurd hk0 (hnone r0 hin)

/-- **what a snapshot contains**: exactly the non-ephemeral instances, each under its service and address -/
theorem mem_buildSnapshot (n : Naming) (hinv : Inv n) (k : SKey) (key : ShortKey) (d : Do) :
    (∃ r ∈ buildSnapshot n, keyOf r = (k, key) ∧ r.2 = d) ↔ (lookDo n k key = some d ∧ d.ephemeral = false) := by
  constructor
  · rintro ⟨r, hr, hkey, rfl⟩
    simp only [buildSnapshot, List.mem_flatMap] at hr
    obtain ⟨ks, hks, hr⟩ := hr
    simp only [svcRecs, List.mem_filterMap] at hr
    obtain ⟨key0, _, hr⟩ := hr
    have hget : AL.get? n.services ks.1 = some ks.2 := AL.mem_get?_some _ _ _ hinv.svcKeys (by cases ks; exact hks)
    cases hi : AL.get? ks.2.insts key0 with
    | none => simp [hi] at hr
    | some i =>
      simp only [hi] at hr
      by_cases he : i.ephemeral = true
      · simp [he] at hr
      · simp only [he, Bool.false_eq_true, if_false, Option.some.injEq] at hr
        subst hr
        have hshort := (hinv.svcs ks.1 ks.2 hget).keyed key0 i hi
        simp only [keyOf, Inst.toDo, Prod.mk.injEq] at hkey
        obtain ⟨hk1, hk2⟩ := hkey
        subst hk1
        have : key = key0 := by rw [← hk2, ← hshort]; rfl
        subst this
        refine ⟨?_, by simpa [Inst.toDo] using he⟩
        simp [lookDo, hget, hi]
  · rintro ⟨hl, he⟩
    unfold lookDo at hl
    cases hs : AL.get? n.services k with
    | none => simp [hs] at hl
    | some s =>
      simp only [hs, Option.bind_some, Option.map_eq_some_iff] at hl
      obtain ⟨i, hi, rfl⟩ := hl
      have hinv' := hinv.svcs k s hs
      have hperp : key ∈ s.perpetual := (hinv'.perp key).2 ⟨i, hi, by simpa [Inst.toDo] using he⟩
      have hshort := hinv'.keyed key i hi
      refine ⟨(k, i.toDo), ?_, ?_, rfl⟩
      · simp only [buildSnapshot, List.mem_flatMap]
        refine ⟨(k, s), AL.get?_some_mem _ _ _ hs, ?_⟩
        simp only [svcRecs, List.mem_filterMap]
        refine ⟨key, hperp, ?_⟩
        have : i.ephemeral = false := by simpa [Inst.toDo] using he
        simp [hi, this]
      · simp only [keyOf, Inst.toDo, Prod.mk.injEq, true_and]
        rw [← hshort]; rfl

end RNacos.Naming
