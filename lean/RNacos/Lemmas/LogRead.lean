import RNacos.Lemmas.LogStrip
/-
Truncation at the API level, reading records back, and reopening a file.
-/
namespace RNacos.LogFile
open RNacos.Varint RNacos.Spec.Stream RNacos.FileReader RNacos.BufReader
open RNacos.IndexFile (writeAt)

/-- **truncation**: `strip_log_to(k)` inside the log leaves exactly the entries below `k` -/
theorem strip_wf (f : LogFile) (es : List Rec) (k : Nat) (h : WF f es)
    (hs : f.startIndex ≤ k) (hlt : k < endIndex f) :
    ∃ f', strip f k = some f' ∧ WF f' (es.take (k - f.startIndex)) := by
  have hend := endIndex_wf f es h
  unfold strip
  have : ¬ (k ≥ endIndex f) := by omega
  simp only [this, if_false]
  rw [findIdx_layout f es k h.ivl h.indexs h.bound hs (by omega)]
  exact ⟨_, rfl, refreshTerm_wf _ _ _ (stripCore_wf' f es k _ _ _ h rfl rfl rfl hs (by omega))⟩

/-- a cut at or past the end changes nothing -/
theorem strip_noop (f : LogFile) (k : Nat) (hk : endIndex f ≤ k) : strip f k = some f := by
  unfold strip; simp [hk]

/-- the file split at entry `m` -/
theorem bytes_at (f : LogFile) (es : List Rec) (m : Nat) (h : WF f es) :
    ∃ pre z2, f.bytes = pre ++ (dataBytes (es.drop m) ++ z2) ∧ pre.length = offsetOf es m ∧ AllZero z2 := by
  obtain ⟨z1, z2, hb, _, hz2, hsum⟩ := h.bytes
  have hH := header_length f.hdrTerm f.firstIndex f.interval f.areaEnd
  refine ⟨header f.hdrTerm f.firstIndex f.interval f.areaEnd ++ (idxBytes f.interval es ++ z1) ++ dataBytes (es.take m),
    z2, ?_, ?_, hz2⟩
  · rw [hb, dataBytes_take_drop es m]; simp
  · unfold offsetOf; simp only [List.length_append, hH]; omega

/-- **reading back**: `read_records(a, b)` returns exactly the stored entries with
`max a split_off ≤ index < min b end`, in order -/
theorem read_wf (f : LogFile) (es : List Rec) (a b : Nat) (h : WF f es) :
    readRecords f a b = some ((es.drop (max a f.splitOff - f.startIndex)).take
      (min b (endIndex f) - max a f.splitOff)) := by
  have hend := endIndex_wf f es h
  unfold readRecords
  simp only
  by_cases hse : max a f.splitOff ≥ min b (endIndex f)
  · simp only [hse, if_true]
    have : min b (endIndex f) - max a f.splitOff = 0 := by omega
    rw [this]; simp
  · simp only [hse, if_false]
    have hsplit := h.split
    have hs1 : f.startIndex ≤ max a f.splitOff := by omega
    have hs2 : max a f.splitOff < f.startIndex + es.length := by omega
    rw [startIdx_layout f es (max a f.splitOff) h.ivl h.indexs hs1 hs2]
    -- positions
    have hjn : (max a f.splitOff - f.startIndex) / f.interval * f.interval ≤ max a f.splitOff - f.startIndex :=
      Nat.div_mul_le_self _ _
    obtain ⟨pre, z2, hb, hpl, hz2⟩ := bytes_at f es ((max a f.splitOff - f.startIndex) / f.interval * f.interval) h
    have hfi : (entry f.startIndex f.interval es ((max a f.splitOff - f.startIndex) / f.interval)).fileIndex = pre.length := by
      rw [hpl]; rfl
    have hli : (entry f.startIndex f.interval es ((max a f.splitOff - f.startIndex) / f.interval)).logIndex =
        f.startIndex + (max a f.splitOff - f.startIndex) / f.interval * f.interval := rfl
    have hskip : max a f.splitOff - (f.startIndex + (max a f.splitOff - f.startIndex) / f.interval * f.interval) <
        (es.drop ((max a f.splitOff - f.startIndex) / f.interval * f.interval)).length := by
      rw [List.length_drop]; omega
    have hrp := readIndexPosition_layout pre z2 (es.drop ((max a f.splitOff - f.startIndex) / f.interval * f.interval))
      (max a f.splitOff - (f.startIndex + (max a f.splitOff - f.startIndex) / f.interval * f.interval)) hskip
      (fun r hr => h.recs r (List.mem_of_mem_drop hr)) hz2
    rw [hfi, hli, hb]
    cases hr : readIndexPosition (max a f.splitOff - (f.startIndex + (max a f.splitOff - f.startIndex) / f.interval * f.interval))
        ⟨pre ++ (dataBytes (es.drop ((max a f.splitOff - f.startIndex) / f.interval * f.interval)) ++ z2), pre.length⟩ with
    | none => rw [hr] at hrp; simp at hrp
    | some v =>
      rw [hr] at hrp
      simp only [Option.map_some, Option.some.injEq] at hrp
      obtain ⟨⟨p, l⟩, rd⟩ := v
      simp only at hrp ⊢
      subst hrp
      -- the position is that of entry `s - start`
      have hpos : pre.length + (dataBytes ((es.drop ((max a f.splitOff - f.startIndex) / f.interval * f.interval)).take
          (max a f.splitOff - (f.startIndex + (max a f.splitOff - f.startIndex) / f.interval * f.interval)))).length =
          offsetOf es (max a f.splitOff - f.startIndex) := by
        rw [hpl]; unfold offsetOf
        have ht : es.take (max a f.splitOff - f.startIndex) =
            es.take ((max a f.splitOff - f.startIndex) / f.interval * f.interval) ++
            (es.drop ((max a f.splitOff - f.startIndex) / f.interval * f.interval)).take
              (max a f.splitOff - (f.startIndex + (max a f.splitOff - f.startIndex) / f.interval * f.interval)) := by
          have e : max a f.splitOff - f.startIndex = (max a f.splitOff - f.startIndex) / f.interval * f.interval +
              (max a f.splitOff - (f.startIndex + (max a f.splitOff - f.startIndex) / f.interval * f.interval)) := by omega
          conv => lhs; rw [e, List.take_add]
        rw [ht, dataBytes_append, List.length_append]; omega
      rw [hpos, ← hb]
      obtain ⟨pre2, z3, hb2, hpl2, hz3⟩ := bytes_at f es (max a f.splitOff - f.startIndex) h
      rw [hb2, ← hpl2, scanFrames_layout pre2 z3 _ _ (fun r hr => h.recs r (List.mem_of_mem_drop hr)) hz3]
      rw [← List.map_take]
      exact mapM_decFrame _ (fun r hr => h.recs r (List.mem_of_mem_drop (List.mem_of_mem_take hr)))

end RNacos.LogFile
