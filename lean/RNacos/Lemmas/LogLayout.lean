import RNacos.Lemmas.LogRec
/-
The byte layout of a log file that holds the entries `es` (C02/C03 helper definitions and lemmas).
-/
namespace RNacos.LogFile
open RNacos.Varint RNacos.Spec.Stream RNacos.FileReader RNacos.BufReader
open RNacos.IndexFile (writeAt)

def AllZero (l : List Nat) : Prop := ∀ b ∈ l, b = 0

theorem AllZero.drop {l : List Nat} (h : AllZero l) (n : Nat) : AllZero (l.drop n) :=
  fun b hb => h b (List.mem_of_mem_drop hb)

theorem AllZero.append {a b : List Nat} (ha : AllZero a) (hb : AllZero b) : AllZero (a ++ b) := by
  intro x hx; rcases List.mem_append.mp hx with h | h
  · exact ha x h
  · exact hb x h

theorem allZero_replicate (n : Nat) : AllZero (List.replicate n 0) := by
  intro b hb; exact (List.mem_replicate.mp hb).2

theorem AllZero.tailOK {l : List Nat} (h : AllZero l) : TailOK l := by
  cases l with
  | nil => exact Or.inl rfl
  | cons a t => right; simp [h a (by simp)]

/-- the record stream of `es` -/
def dataBytes (es : List Rec) : List Nat := frames (es.map recBody)

theorem dataBytes_nil : dataBytes [] = [] := rfl

theorem dataBytes_append (a b : List Rec) : dataBytes (a ++ b) = dataBytes a ++ dataBytes b := by
  unfold dataBytes; rw [List.map_append, frames_append]

theorem dataBytes_single (r : Rec) : dataBytes [r] = frame (recBody r) := by
  simp [dataBytes, frames]

theorem dataBytes_take_drop (es : List Rec) (n : Nat) :
    dataBytes es = dataBytes (es.take n) ++ dataBytes (es.drop n) := by
  rw [← dataBytes_append, List.take_append_drop]

theorem dataBytes_length_ge (es : List Rec) : es.length ≤ (dataBytes es).length := by
  have := frames_length_ge (es.map recBody); simpa [dataBytes] using this

theorem bodiesOK_of_recOK (es : List Rec) (h : ∀ r ∈ es, RecOK r) : BodiesOK (es.map recBody) := by
  intro b hb
  obtain ⟨r, hr, rfl⟩ := List.mem_map.mp hb
  exact ⟨recBody_pos r (h r hr), (h r hr).2.2.2.2⟩

/-- file offset of entry number `j` (0-based) -/
def offsetOf (es : List Rec) (j : Nat) : Nat := dataStart + (dataBytes (es.take j)).length

theorem offsetOf_zero (es : List Rec) : offsetOf es 0 = dataStart := by simp [offsetOf, dataBytes, frames]

theorem offsetOf_append (es : List Rec) (r : List Rec) (j : Nat) (h : j ≤ es.length) :
    offsetOf (es ++ r) j = offsetOf es j := by
  unfold offsetOf; rw [List.take_append_of_le_length h]

theorem offsetOf_take (es : List Rec) (n j : Nat) (h : j ≤ n) : offsetOf (es.take n) j = offsetOf es j := by
  unfold offsetOf; rw [List.take_take, Nat.min_eq_left h]

theorem offsetOf_mono (es : List Rec) (i j : Nat) (h : i ≤ j) : offsetOf es i ≤ offsetOf es j := by
  unfold offsetOf
  have : es.take j = (es.take j).take i ++ (es.take j).drop i := (List.take_append_drop i _).symm
  rw [this, dataBytes_append, List.take_take, Nat.min_eq_left h]
  simp

/-- strictly growing across at least one entry -/
theorem offsetOf_lt (es : List Rec) (i j : Nat) (h : i < j) (hj : j ≤ es.length) : offsetOf es i < offsetOf es j := by
  unfold offsetOf
  have : es.take j = (es.take j).take i ++ (es.take j).drop i := (List.take_append_drop i _).symm
  rw [this, dataBytes_append, List.take_take, Nat.min_eq_left (Nat.le_of_lt h)]
  have hl : ((es.take j).drop i).length = j - i := by simp [Nat.min_eq_left hj]
  have := dataBytes_length_ge ((es.take j).drop i)
  simp only [List.length_append]
  omega

/-- the index entries the file has for `es` -/
def idxList (start I : Nat) (es : List Rec) : List Idx :=
  (List.range (es.length / I + 1)).map fun j => ⟨start + j * I, offsetOf es (j * I)⟩

/-- the bytes of the index area: one varint offset step per index entry after the first -/
def idxBytesUpTo (I : Nat) (es : List Rec) (q : Nat) : List Nat :=
  (List.range q).flatMap fun j => vwrite (offsetOf es ((j + 1) * I) - offsetOf es (j * I))

def idxBytes (I : Nat) (es : List Rec) : List Nat := idxBytesUpTo I es (es.length / I)

theorem idxBytesUpTo_succ (I : Nat) (es : List Rec) (q : Nat) :
    idxBytesUpTo I es (q + 1) = idxBytesUpTo I es q ++ vwrite (offsetOf es ((q + 1) * I) - offsetOf es (q * I)) := by
  unfold idxBytesUpTo; rw [List.range_succ, List.flatMap_append]; simp

theorem idxBytesUpTo_congr (I : Nat) (es es2 : List Rec) (q : Nat)
    (h : ∀ j, j ≤ q → offsetOf es2 (j * I) = offsetOf es (j * I)) :
    idxBytesUpTo I es2 q = idxBytesUpTo I es q := by
  induction q with
  | zero => rfl
  | succ q ih =>
    rw [idxBytesUpTo_succ, idxBytesUpTo_succ, ih (fun j hj => h j (by omega)), h (q + 1) (by omega), h q (by omega)]

/-! ### `writeAt` on concatenations -/

theorem writeAt_append (a c d : List Nat) : writeAt (a ++ c) a.length d = a ++ d ++ c.drop d.length := by
  unfold writeAt
  have h0 : a.length - (a ++ c).length = 0 := by simp
  simp only [h0, List.replicate_zero, List.append_nil]
  rw [List.take_left, List.drop_append, List.drop_of_length_le (by omega)]
  simp

theorem writeAt_append' (a c d : List Nat) (off : Nat) (h : off = a.length) :
    writeAt (a ++ c) off d = a ++ d ++ c.drop d.length := by
  subst h; exact writeAt_append a c d

end RNacos.LogFile
