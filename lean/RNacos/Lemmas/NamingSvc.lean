import RNacos.Model.Naming
/-
Invariant of one `Service` (counters and the persistent set mirror the instance map) and its
preservation by every service-level operation.
-/
namespace RNacos.Naming
open RNacos

structure SvcInv (s : Svc) : Prop where
  nodup : AL.NodupKeys s.insts
  keyed : ∀ k i, AL.get? s.insts k = some i → i.short = k
  size : s.instSize = s.insts.length
  healthy : s.healthySize = (s.insts.filter (·.2.healthy)).length
  perp : ∀ k, k ∈ s.perpetual ↔ ∃ i, AL.get? s.insts k = some i ∧ i.ephemeral = false
  perpNodup : s.perpetual.Nodup

theorem svcInv_empty : SvcInv {} := by
  refine ⟨by simp [AL.NodupKeys], by intro k i h; simp at h, rfl, rfl, ?_, by simp⟩
  intro k; simp

theorem mem_setInsert {α : Type} [DecidableEq α] (l : List α) (a b : α) : b ∈ setInsert l a ↔ b = a ∨ b ∈ l := by
  unfold setInsert
  split
  · constructor
    · exact Or.inr
    · rintro (rfl | h) <;> assumption
  · simp [or_comm]

theorem nodup_setInsert {α : Type} [DecidableEq α] (l : List α) (a : α) (h : l.Nodup) : (setInsert l a).Nodup := by
  unfold setInsert
  split
  · exact h
  · rename_i hn
    rw [List.nodup_append]
    refine ⟨h, by simp, ?_⟩
    intro x hx y hy
    simp only [List.mem_singleton] at hy
    subst hy
    intro e; subst e; exact hn hx

/-- replacing / inserting the instance stored under its own key -/
theorem svcInv_put (s : Svc) (i : Inst) (hs : SvcInv s) (sz hsz : Int) (perp : List ShortKey)
    (hto uto : List (Int × ShortKey)) (le : Int)
    (hsize : sz = (AL.set s.insts i.short i).length)
    (hhealthy : hsz = ((AL.set s.insts i.short i).filter (·.2.healthy)).length)
    (hperp : ∀ k, k ∈ perp ↔ ∃ j, AL.get? (AL.set s.insts i.short i) k = some j ∧ j.ephemeral = false)
    (hpn : perp.Nodup) :
    SvcInv { s with insts := AL.set s.insts i.short i, instSize := sz, healthySize := hsz, perpetual := perp,
                    healthyTO := hto, unhealthyTO := uto, lastEmpty := le } := by
  refine ⟨AL.nodupKeys_set _ _ _ hs.nodup, ?_, hsize, hhealthy, hperp, hpn⟩
  intro k j hj
  by_cases e : i.short = k
  · subst e; simp at hj; subst hj; rfl
  · rw [AL.get?_set_other _ _ _ _ e] at hj; exact hs.keyed k j hj

theorem length_set_some (l : List (ShortKey × Inst)) (k : ShortKey) (v old : Inst) (hn : AL.NodupKeys l)
    (hg : AL.get? l k = some old) : (AL.set l k v).length = l.length := by
  unfold AL.set
  simp only [List.length_cons]
  exact AL.length_erase_some l k old hn hg

theorem length_set_none (l : List (ShortKey × Inst)) (k : ShortKey) (v : Inst)
    (hg : AL.get? l k = none) : (AL.set l k v).length = l.length + 1 := by
  unfold AL.set
  simp [AL.erase_of_get?_none l k hg]

theorem count_set_some (p : ShortKey × Inst → Bool) (l : List (ShortKey × Inst)) (k : ShortKey) (v old : Inst)
    (hn : AL.NodupKeys l) (hg : AL.get? l k = some old) :
    ((AL.set l k v).filter p).length + (if p (k, old) then 1 else 0) =
      (l.filter p).length + (if p (k, v) then 1 else 0) := by
  unfold AL.set
  have := AL.count_erase_some p l k old hn hg
  simp only [List.filter_cons]
  split <;> simp <;> omega

theorem count_set_none (p : ShortKey × Inst → Bool) (l : List (ShortKey × Inst)) (k : ShortKey) (v : Inst)
    (hg : AL.get? l k = none) :
    ((AL.set l k v).filter p).length = (l.filter p).length + (if p (k, v) then 1 else 0) := by
  unfold AL.set
  rw [AL.erase_of_get?_none l k hg]
  simp only [List.filter_cons]
  split <;> simp

theorem keepOwner_healthy (i o : Inst) : (keepOwner i o).healthy = i.healthy := by unfold keepOwner; split <;> rfl
theorem keepOwner_short (i o : Inst) : (keepOwner i o).short = i.short := by unfold keepOwner; split <;> rfl
theorem applyTag_healthy (i o : Inst) (t : Option Tag) : (applyTag i o t).1.healthy = i.healthy := by
  cases t with
  | none => rfl
  | some t => unfold applyTag; simp only; split <;> rfl
theorem applyTag_short (i o : Inst) (t : Option Tag) : (applyTag i o t).1.short = i.short := by
  cases t with
  | none => rfl
  | some t => unfold applyTag; simp only; split <;> rfl
theorem applyTag_owner (i o : Inst) (t : Option Tag) :
    (applyTag i o t).1.clientId = i.clientId ∧ (applyTag i o t).1.fromGrpc = i.fromGrpc ∧
    (applyTag i o t).1.fromCluster = i.fromCluster := by
  cases t with
  | none => exact ⟨rfl, rfl, rfl⟩
  | some t => unfold applyTag; simp only; split <;> exact ⟨rfl, rfl, rfl⟩

/-- a new instance -/
theorem svcInv_insertInst (s : Svc) (inst : Inst) (fromSync : Bool) (hs : SvcInv s)
    (hg : AL.get? s.insts inst.short = none) : SvcInv (s.insertInst inst fromSync) := by
  unfold Svc.insertInst
  apply svcInv_put s inst hs
  · rw [length_set_none _ _ _ hg, hs.size]; simp
  · rw [count_set_none _ _ _ _ hg, hs.healthy]
    by_cases hh : inst.healthy = true <;> simp [hh]
  · intro k
    by_cases hp : inst.ephemeral = true
    · simp only [hp, Bool.not_true, Bool.false_eq_true, if_false]
      rw [hs.perp k]
      constructor
      · rintro ⟨j, hj, he⟩
        have hne : inst.short ≠ k := by intro e; subst e; rw [hg] at hj; cases hj
        exact ⟨j, by rw [AL.get?_set_other _ _ _ _ hne]; exact hj, he⟩
      · rintro ⟨j, hj, he⟩
        by_cases e : inst.short = k
        · subst e; simp at hj; subst hj; rw [hp] at he; cases he
        · rw [AL.get?_set_other _ _ _ _ e] at hj; exact ⟨j, hj, he⟩
    · have hp' : inst.ephemeral = false := by simpa using hp
      simp only [hp', Bool.not_false, if_true]
      rw [mem_setInsert, hs.perp k]
      constructor
      · rintro (rfl | ⟨j, hj, he⟩)
        · exact ⟨inst, by simp, hp'⟩
        · have hne : inst.short ≠ k := by intro e; subst e; rw [hg] at hj; cases hj
          exact ⟨j, by rw [AL.get?_set_other _ _ _ _ hne]; exact hj, he⟩
      · rintro ⟨j, hj, he⟩
        by_cases e : inst.short = k
        · exact Or.inl e.symm
        · rw [AL.get?_set_other _ _ _ _ e] at hj; exact Or.inr ⟨j, hj, he⟩
  · by_cases hp : inst.ephemeral = true
    · simp only [hp, Bool.not_true, Bool.false_eq_true, if_false]; exact hs.perpNodup
    · have hp' : inst.ephemeral = false := by simpa using hp
      simp only [hp', Bool.not_false, if_true]; exact nodup_setInsert _ _ hs.perpNodup

/-- the stored instance `old` replaced by `i2` (same address) -/
theorem svcInv_replaceInst (s : Svc) (old i2 : Inst) (fromSync : Bool) (hs : SvcInv s)
    (hg : AL.get? s.insts i2.short = some old) : SvcInv (s.replaceInst old i2 fromSync) := by
  unfold Svc.replaceInst
  apply svcInv_put s i2 hs
  · rw [length_set_some _ _ _ old hs.nodup hg, hs.size]
  · have hc := count_set_some (·.2.healthy) s.insts i2.short i2 old hs.nodup hg
    simp only at hc
    rw [hs.healthy]
    by_cases ho : old.healthy = true <;> by_cases hn : i2.healthy = true <;>
      simp [ho, hn] at hc ⊢ <;> omega
  · intro k
    have hperpOld : old.ephemeral = false ↔ i2.short ∈ s.perpetual := by
      rw [hs.perp]; constructor
      · intro h; exact ⟨old, hg, h⟩
      · rintro ⟨j, hj, he⟩; rw [hg] at hj; cases hj; exact he
    by_cases e : i2.short = k
    · subst e
      simp only [AL.get?_set_same]
      by_cases h2 : i2.ephemeral = true <;> by_cases ho : old.ephemeral = true
      · simp only [h2, ho, Bool.not_true, Bool.false_and, Bool.and_false, Bool.false_eq_true, if_false]
        constructor
        · intro hm; have := hperpOld.mpr hm; rw [ho] at this; cases this
        · rintro ⟨j, hj, he⟩; cases hj; rw [h2] at he; cases he
      · have ho' : old.ephemeral = false := by simpa using ho
        simp only [h2, ho', Bool.not_true, Bool.false_and, Bool.false_eq_true, if_false, Bool.not_false,
          Bool.and_true, if_true]
        constructor
        · intro hm
          rw [List.Nodup.mem_erase_iff hs.perpNodup] at hm
          exact absurd rfl hm.1
        · rintro ⟨j, hj, he⟩; cases hj; rw [h2] at he; cases he
      · have h2' : i2.ephemeral = false := by simpa using h2
        simp only [h2', ho, Bool.not_false, Bool.and_true, if_true]
        rw [mem_setInsert]
        exact ⟨fun _ => ⟨i2, rfl, h2'⟩, fun _ => Or.inl rfl⟩
      · have h2' : i2.ephemeral = false := by simpa using h2
        have ho' : old.ephemeral = false := by simpa using ho
        simp only [h2', ho', Bool.not_false, Bool.and_false, Bool.false_eq_true, if_false, Bool.false_and]
        exact ⟨fun _ => ⟨i2, rfl, h2'⟩, fun _ => hperpOld.mp ho'⟩
    · rw [AL.get?_set_other _ _ _ _ e, ← hs.perp k]
      by_cases hadd : (!i2.ephemeral && old.ephemeral) = true
      · simp only [hadd, if_true, mem_setInsert]
        constructor
        · rintro (h | h)
          · exact absurd h.symm e
          · exact h
        · exact Or.inr
      · simp only [hadd, Bool.false_eq_true, if_false]
        by_cases hrem : (i2.ephemeral && !old.ephemeral) = true
        · simp only [hrem, if_true]
          rw [List.Nodup.mem_erase_iff hs.perpNodup]
          exact ⟨fun h => h.2, fun h => ⟨fun e' => e e'.symm, h⟩⟩
        · simp only [hrem, Bool.false_eq_true, if_false]
  · by_cases hadd : (!i2.ephemeral && old.ephemeral) = true
    · simp only [hadd, if_true]; exact nodup_setInsert _ _ hs.perpNodup
    · simp only [hadd, Bool.false_eq_true, if_false]
      by_cases hrem : (i2.ephemeral && !old.ephemeral) = true
      · simp only [hrem, if_true]; exact hs.perpNodup.erase _
      · simp only [hrem, Bool.false_eq_true, if_false]; exact hs.perpNodup

/-- `Service::update_instance` keeps the counters and the persistent set exact -/
theorem svcInv_updateInstance (s : Svc) (inst : Inst) (tag : Option Tag) (fromSync : Bool) (hs : SvcInv s) :
    SvcInv (s.updateInstance inst tag fromSync).1 := by
  unfold Svc.updateInstance
  cases hg : AL.get? s.insts inst.short with
  | none => exact svcInv_insertInst s inst fromSync hs hg
  | some old =>
    simp only
    apply svcInv_replaceInst s old _ fromSync hs
    rw [applyTag_short, keepOwner_short]; exact hg

/-- removing the entry stored under `key` -/
theorem svcInv_dropInst (s : Svc) (key : ShortKey) (old : Inst) (now : Int) (hs : SvcInv s)
    (hg : AL.get? s.insts key = some old) : SvcInv (s.dropInst key old now) := by
  unfold Svc.dropInst
  refine ⟨AL.nodupKeys_erase _ _ hs.nodup, ?_, ?_, ?_, ?_, ?_⟩
  · intro k j hj
    by_cases e : key = k
    · subst e; rw [AL.get?_erase_same] at hj; cases hj
    · rw [AL.get?_erase_other _ _ _ e] at hj; exact hs.keyed k j hj
  · have := AL.length_erase_some s.insts key old hs.nodup hg
    simp only; rw [hs.size]; omega
  · have := AL.count_erase_some (·.2.healthy) s.insts key old hs.nodup hg
    simp only at this ⊢
    rw [hs.healthy]
    by_cases ho : old.healthy = true <;> simp [ho] at this ⊢ <;> omega
  · intro k
    simp only
    by_cases e : key = k
    · subst e
      rw [AL.get?_erase_same]
      constructor
      · intro hm
        exfalso
        by_cases ho : old.ephemeral = true
        · simp only [ho, Bool.not_true, Bool.false_eq_true, if_false] at hm
          obtain ⟨j, hj, he⟩ := (hs.perp key).mp hm
          rw [hg] at hj; cases hj; rw [ho] at he; cases he
        · simp only [ho, Bool.not_false, if_true] at hm
          rw [List.Nodup.mem_erase_iff hs.perpNodup] at hm
          exact hm.1 rfl
      · rintro ⟨j, hj, _⟩; cases hj
    · rw [AL.get?_erase_other _ _ _ e, ← hs.perp k]
      by_cases ho : old.ephemeral = true
      · simp [ho]
      · simp only [ho, Bool.not_false, if_true]
        rw [List.Nodup.mem_erase_iff hs.perpNodup]
        exact ⟨fun h => h.2, fun h => ⟨fun e' => e e'.symm, h⟩⟩
  · simp only; split
    · exact hs.perpNodup.erase _
    · exact hs.perpNodup

theorem svcInv_removeInstance (s : Svc) (key : ShortKey) (c : Option String) (now : Int) (hs : SvcInv s) :
    SvcInv (s.removeInstance key c now).1 := by
  unfold Svc.removeInstance
  by_cases hr : s.refuses key c = true
  · simp only [hr, if_true]; exact hs
  · simp only [hr, Bool.false_eq_true, if_false]
    cases hg : AL.get? s.insts key with
    | none => exact hs
    | some old => exact svcInv_dropInst s key old now hs hg

/-- what `remove_instance` returns is what was stored, and it is gone afterwards -/
theorem removeInstance_spec (s : Svc) (key : ShortKey) (c : Option String) (now : Int) :
    (∀ old, (s.removeInstance key c now).2 = some old →
        AL.get? s.insts key = some old ∧ (s.removeInstance key c now).1.insts = AL.erase s.insts key) ∧
    ((s.removeInstance key c now).2 = none → (s.removeInstance key c now).1 = s) := by
  unfold Svc.removeInstance
  by_cases hr : s.refuses key c = true
  · simp only [hr, if_true]
    exact ⟨by intro old h; simp at h, fun _ => trivial⟩
  · simp only [hr, Bool.false_eq_true, if_false]
    cases hg : AL.get? s.insts key with
    | none => exact ⟨by intro old h; simp at h, fun _ => rfl⟩
    | some old =>
      refine ⟨?_, by intro h; simp at h⟩
      intro o h
      simp only [Option.some.injEq] at h
      subst h; exact ⟨rfl, rfl⟩

theorem svcInv_markUnhealthy (s : Svc) (key : ShortKey) (hs : SvcInv s) : SvcInv (s.markUnhealthy key) := by
  unfold Svc.markUnhealthy
  cases hg : AL.get? s.insts key with
  | none => exact hs
  | some i =>
    simp only
    by_cases hh : i.healthy = true
    · simp only [hh, if_true]
      have hk : ({ i with healthy := false } : Inst).short = key := hs.keyed key i hg
      have e := svcInv_replaceInst s i { i with healthy := false } true hs (by rw [hk]; exact hg)
      unfold Svc.replaceInst at e
      simp only [hh, hk] at e
      refine ⟨e.nodup, e.keyed, e.size, ?_, ?_, ?_⟩
      · have := e.healthy; simpa using this
      · have := e.perp; simpa using this
      · have := e.perpNodup; simpa using this
    · simp only [hh, Bool.false_eq_true, if_false]
      exact ⟨hs.nodup, hs.keyed, hs.size, hs.healthy, hs.perp, hs.perpNodup⟩

theorem markUnhealthy_other (s : Svc) (key k : ShortKey) (h : key ≠ k) :
    AL.get? (s.markUnhealthy key).insts k = AL.get? s.insts k := by
  unfold Svc.markUnhealthy
  cases AL.get? s.insts key with
  | none => rfl
  | some i => simp only; split
              · exact AL.get?_set_other _ _ _ _ h
              · rfl

theorem svcInv_expireFold (now limit : Int) : ∀ (keys : List ShortKey) (acc : Svc × List ShortKey),
    SvcInv acc.1 → SvcInv (keys.foldl (Svc.expireStep now limit) acc).1 := by
  intro keys
  induction keys with
  | nil => intro acc h; exact h
  | cons k rest ih =>
    intro acc h
    simp only [List.foldl_cons]
    apply ih
    unfold Svc.expireStep
    split
    · exact h
    · exact svcInv_removeInstance _ _ _ _ h

theorem svcInv_unhealthyFold (limit : Int) : ∀ (keys : List ShortKey) (acc : Svc × List ShortKey),
    SvcInv acc.1 → SvcInv (keys.foldl (Svc.unhealthyStep limit) acc).1 := by
  intro keys
  induction keys with
  | nil => intro acc h; exact h
  | cons k rest ih =>
    intro acc h
    simp only [List.foldl_cons]
    apply ih
    unfold Svc.unhealthyStep
    split
    · exact h
    · exact svcInv_markUnhealthy _ _ h

theorem svcInv_timeCheck (s : Svc) (ht ot now : Int) (hs : SvcInv s) : SvcInv (s.timeCheck ht ot now).1 := by
  unfold Svc.timeCheck Svc.unhealthyPass
  simp only
  apply svcInv_unhealthyFold
  have h1 : SvcInv (s.expirePass ot now).1 := by
    unfold Svc.expirePass
    apply svcInv_expireFold
    exact ⟨hs.nodup, hs.keyed, hs.size, hs.healthy, hs.perp, hs.perpNodup⟩
  exact ⟨h1.nodup, h1.keyed, h1.size, h1.healthy, h1.perp, h1.perpNodup⟩

theorem svcInv_refreshRange (s : Svc) (hs : SvcInv s) : SvcInv s.refreshRange :=
  ⟨hs.nodup, hs.keyed, hs.size, hs.healthy, hs.perp, hs.perpNodup⟩

end RNacos.Naming
