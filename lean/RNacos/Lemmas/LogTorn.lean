import RNacos.Lemmas.LogCrash
import RNacos.Lemmas.LogStrip
/-
Crash inside a truncation (C04): `strip_log_to` issues two file writes, first the zeroing of the dropped index
entries, then the zeroing of the removed records.  Killed in between, the file has a *partial* index area over a
complete record area.  The recovery (`init`: read the index entries, scan the records from the last one, write the
missing entries back) yields the file as it was before the truncation, for any number of dropped entries.
-/
namespace RNacos.LogFile
open RNacos.Varint RNacos.Spec.Stream RNacos.FileReader RNacos.BufReader
open RNacos.IndexFile (writeAt)

/-- `move_to_index_by_count` from entry number `m` of a record area that starts at `dataStart` -/
theorem moveByCount_from (A z2 : List Nat) (es : List Rec) (start m c : Nat) (hA : A.length = dataStart)
    (hm : m ≤ es.length) (hok : ∀ r ∈ es, RecOK r) (hz2 : AllZero z2) :
    moveByCount (A ++ (dataBytes es ++ z2)) ⟨start + m, offsetOf es m⟩ start c =
      (offsetOf es (min (m + c) es.length), min (m + c) es.length) := by
  have hsplit : A ++ (dataBytes es ++ z2) = (A ++ dataBytes (es.take m)) ++ (dataBytes (es.drop m) ++ z2) := by
    rw [dataBytes_take_drop es m]; simp
  have hpl : (A ++ dataBytes (es.take m)).length = offsetOf es m := by
    unfold offsetOf; simp only [List.length_append, hA]
  have hfi : (⟨start + m, offsetOf es m⟩ : Idx) = ⟨start + m, (A ++ dataBytes (es.take m)).length⟩ := by rw [hpl]
  rw [hfi, hsplit, moveByCount_layout _ _ _ _ _ _ (fun r hr => hok r (List.mem_of_mem_drop hr)) hz2, hpl]
  have hdl : (es.drop m).length = es.length - m := List.length_drop
  have hmin : min (m + c) es.length = m + min c (es.length - m) := by omega
  have htk : es.take (m + min c (es.length - m)) = es.take m ++ (es.drop m).take c := by
    rw [List.take_add]
    congr 1
    by_cases hc : c ≤ es.length - m
    · rw [Nat.min_eq_left hc]
    · rw [Nat.min_eq_right (by omega), List.take_of_length_le (by omega), List.take_of_length_le (by omega)]
  congr 1
  · unfold offsetOf
    rw [hmin, htk, dataBytes_append, List.length_append]; omega
  · rw [hdl]; omega

/-- the state `init` is in after its scan of a file whose index area holds the first `j` offset steps only -/
def partialFile (f : LogFile) (es : List Rec) (j : Nat) (Z z2 : List Nat) (fl pre sp : Nat) : LogFile :=
  { bytes := header f.hdrTerm f.firstIndex f.interval f.areaEnd ++ (idxBytesUpTo f.interval es j ++ Z) ++ (dataBytes es ++ z2),
    fileLen := fl, firstIndex := f.firstIndex, hdrTerm := f.hdrTerm, interval := f.interval, areaEnd := f.areaEnd,
    indexs := (List.range (j + 1)).map (entry f.startIndex f.interval es), startIndex := f.startIndex,
    indexCursor := (idxBytesUpTo f.interval es j).length + 32, dataCursor := offsetOf es es.length,
    msgCount := es.length, lastTerm := pre, curCount := es.length % f.interval,
    splitOff := max sp f.startIndex, pos := offsetOf es es.length, needSeek := false }

theorem lastIdx_partial (f : LogFile) (es : List Rec) (j : Nat) (Z z2 : List Nat) (fl pre sp : Nat) :
    lastIdx (partialFile f es j Z z2 fl pre sp) = entry f.startIndex f.interval es j := by
  unfold lastIdx partialFile
  simp only
  rw [List.range_succ, List.map_append]; simp

/-- **the repair loop**: from a partial index area it writes back the missing entries, one per round, and stops at
the complete one -/
theorem repairIndex_partial (f : LogFile) (es : List Rec) (h : WF f es) (z2 : List Nat) (hz2 : AllZero z2)
    (fl pre sp : Nat) :
    ∀ (d j : Nat) (Z : List Nat) (fuel : Nat), j + d = es.length / f.interval → d < fuel → AllZero Z →
      32 + (idxBytesUpTo f.interval es j).length + Z.length = dataStart →
      ∃ Z', AllZero Z' ∧ 32 + (idxBytes f.interval es).length + Z'.length = dataStart ∧
        repairIndex fuel (partialFile f es j Z z2 fl pre sp) =
          partialFile f es (es.length / f.interval) Z' z2 fl pre sp := by
  have hI := h.ivl
  have hH := header_length f.hdrTerm f.firstIndex f.interval f.areaEnd
  have hqle : es.length / f.interval * f.interval ≤ es.length := Nat.div_mul_le_self _ _
  intro d
  induction d with
  | zero =>
    intro j Z fuel hj hf hZ hsum
    have hjq : j = es.length / f.interval := by omega
    subst hjq
    refine ⟨Z, hZ, hsum, ?_⟩
    obtain ⟨n, rfl⟩ : ∃ n, fuel = n + 1 := ⟨fuel - 1, by omega⟩
    unfold repairIndex
    rw [lastIdx_partial]
    have hlt : (partialFile f es (es.length / f.interval) Z z2 fl pre sp).msgCount -
        ((entry f.startIndex f.interval es (es.length / f.interval)).logIndex -
          (partialFile f es (es.length / f.interval) Z z2 fl pre sp).startIndex) <
        (partialFile f es (es.length / f.interval) Z z2 fl pre sp).interval := by
      unfold partialFile entry; simp only
      have := Nat.mod_lt es.length hI
      have := Nat.div_add_mod es.length f.interval
      have e : es.length / f.interval * f.interval = f.interval * (es.length / f.interval) := Nat.mul_comm _ _
      omega
    simp [hlt]
  | succ d ih =>
    intro j Z fuel hj hf hZ hsum
    obtain ⟨n, rfl⟩ : ∃ n, fuel = n + 1 := ⟨fuel - 1, by omega⟩
    have hjq : j + 1 ≤ es.length / f.interval := by omega
    have hj1 : (j + 1) * f.interval ≤ es.length :=
      Nat.le_trans (Nat.mul_le_mul_right _ hjq) hqle
    have hjI : j * f.interval ≤ es.length := by
      have : j * f.interval ≤ (j + 1) * f.interval := Nat.mul_le_mul_right _ (by omega)
      omega
    have hsm : (j + 1) * f.interval = j * f.interval + f.interval := Nat.succ_mul _ _
    -- the scan of one step of records from the last entry present
    have hA : (header f.hdrTerm f.firstIndex f.interval f.areaEnd ++ (idxBytesUpTo f.interval es j ++ Z)).length = dataStart := by
      simp only [List.length_append, hH]; omega
    have hmv := moveByCount_from _ z2 es f.startIndex (j * f.interval) f.interval hA hjI h.recs hz2
    have hminE : min (j * f.interval + f.interval) es.length = (j + 1) * f.interval := by omega
    rw [hminE] at hmv
    -- the entry that is written back
    have hdl : (vwrite (stepOf f.interval es j)).length ≤ Z.length := by
      have h1 := idxBytesUpTo_mono f.interval es (j + 1) (es.length / f.interval) hjq
      rw [idxBytesUpTo_succ', List.length_append] at h1
      obtain ⟨z1, _, _, _, _, hs1⟩ := h.bytes
      unfold idxBytes at hs1
      omega
    have hstep : offsetOf es ((j + 1) * f.interval) - (entry f.startIndex f.interval es j).fileIndex =
        stepOf f.interval es j := rfl
    have hw := index_write (header f.hdrTerm f.firstIndex f.interval f.areaEnd) (idxBytesUpTo f.interval es j) Z
      (dataBytes es ++ z2) (vwrite (stepOf f.interval es j)) ((idxBytesUpTo f.interval es j).length + 32) hH (by omega) hdl
    rw [← idxBytesUpTo_succ'] at hw
    -- one round
    have hround : repairIndex (n + 1) (partialFile f es j Z z2 fl pre sp) =
        repairIndex n (partialFile f es (j + 1) (Z.drop (vwrite (stepOf f.interval es j)).length) z2 fl pre sp) := by
      conv => lhs; unfold repairIndex
      rw [lastIdx_partial]
      have hc : ¬ ((partialFile f es j Z z2 fl pre sp).interval = 0 ∨
          (partialFile f es j Z z2 fl pre sp).msgCount -
            ((entry f.startIndex f.interval es j).logIndex - (partialFile f es j Z z2 fl pre sp).startIndex) <
          (partialFile f es j Z z2 fl pre sp).interval) := by
        simp only [partialFile, entry]; omega
      rw [if_neg hc]
      congr 1
      unfold partialFile
      simp only
      have hent : (entry f.startIndex f.interval es j) = ⟨f.startIndex + j * f.interval, offsetOf es (j * f.interval)⟩ := rfl
      rw [hent]
      simp only [hmv]
      have hst : offsetOf es ((j + 1) * f.interval) - offsetOf es (j * f.interval) = stepOf f.interval es j := rfl
      rw [hst, hw]
      refine congrArg (repairIndex n) ?_
      have e1 : (List.range (j + 1)).map (entry f.startIndex f.interval es) ++
          [(⟨f.startIndex + j * f.interval + f.interval, offsetOf es ((j + 1) * f.interval)⟩ : Idx)] =
          (List.range (j + 1 + 1)).map (entry f.startIndex f.interval es) := by
        conv => rhs; rw [List.range_succ, List.map_append]
        congr 1
        simp only [List.map_cons, List.map_nil, entry]
        rw [hsm, Nat.add_assoc]
      have e2 : (idxBytesUpTo f.interval es j).length + 32 + (vwrite (stepOf f.interval es j)).length =
          (idxBytesUpTo f.interval es (j + 1)).length + 32 := by
        rw [idxBytesUpTo_succ', List.length_append]; omega
      rw [e1, e2]
    rw [hround]
    have hsum' : 32 + (idxBytesUpTo f.interval es (j + 1)).length + (Z.drop (vwrite (stepOf f.interval es j)).length).length = dataStart := by
      rw [idxBytesUpTo_succ', List.length_append, List.length_drop]; omega
    exact ih (j + 1) _ n (by omega) (by omega) (hZ.drop _) hsum'

/-- the complete file, as `init` describes it, is well formed -/
theorem partialFile_full_wf (f : LogFile) (es : List Rec) (h : WF f es) (Z z2 : List Nat) (hZ : AllZero Z)
    (hz2 : AllZero z2) (hsum : 32 + (idxBytes f.interval es).length + Z.length = dataStart) (fl pre sp : Nat) :
    WF (partialFile f es (es.length / f.interval) Z z2 fl pre sp) es := by
  unfold partialFile
  exact { recs := h.recs, idx := h.idx, ivl := h.ivl, ivl16 := h.ivl16, area := h.area, first := h.first,
          split := by simp only; omega, bound := h.bound, msg := rfl, cur := rfl, dc := rfl, indexs := rfl,
          ic := by simp only; unfold idxBytes; omega,
          icEnd := by
            simp only
            have h1 := h.ic; have h2 := h.icEnd
            unfold idxBytes at h1; omega,
          room := h.room, bytes := ⟨Z, z2, rfl, hZ, hz2, hsum⟩, posOK := Or.inr rfl, hdrOK := h.hdrOK }

/-- **`init` on a partial index area**: a file that holds the records of `es`, the first `j` offset steps of its
index area and zeros behind them opens as the well-formed file holding `es`, provided the records behind the last
entry present fit the scan limit of `init` (65535 records) -/
theorem load_partial (f : LogFile) (es : List Rec) (h : WF f es) (j : Nat) (hj : j ≤ es.length / f.interval)
    (Z z2 : List Nat) (hZ : AllZero Z) (hz2 : AllZero z2)
    (hsum : 32 + (idxBytesUpTo f.interval es j).length + Z.length = dataStart)
    (hscan : es.length - j * f.interval ≤ 0xffff) (fl pre sp : Nat) :
    WF (load (header f.hdrTerm f.firstIndex f.interval f.areaEnd ++ (idxBytesUpTo f.interval es j ++ Z) ++ (dataBytes es ++ z2))
          fl f.startIndex pre sp) es := by
  have hI := h.ivl
  have hH := header_length f.hdrTerm f.firstIndex f.interval f.areaEnd
  have hqle : es.length / f.interval * f.interval ≤ es.length := Nat.div_mul_le_self _ _
  have hjI : j * f.interval ≤ es.length := Nat.le_trans (Nat.mul_le_mul_right _ hj) hqle
  have hA : (header f.hdrTerm f.firstIndex f.interval f.areaEnd ++ (idxBytesUpTo f.interval es j ++ Z)).length = dataStart := by
    simp only [List.length_append, hH]; omega
  -- what `init` reads
  have hhead : ((header f.hdrTerm f.firstIndex f.interval f.areaEnd ++ (idxBytesUpTo f.interval es j ++ Z) ++ (dataBytes es ++ z2)) ++
      List.replicate (dataStart - (header f.hdrTerm f.firstIndex f.interval f.areaEnd ++ (idxBytesUpTo f.interval es j ++ Z) ++ (dataBytes es ++ z2)).length) 0).take dataStart =
      header f.hdrTerm f.firstIndex f.interval f.areaEnd ++ (idxBytesUpTo f.interval es j ++ Z) := by
    have hge : dataStart - (header f.hdrTerm f.firstIndex f.interval f.areaEnd ++ (idxBytesUpTo f.interval es j ++ Z) ++ (dataBytes es ++ z2)).length = 0 := by
      rw [List.length_append, hA]; omega
    rw [hge, List.replicate_zero, List.append_nil, ← hA, List.take_left]
  obtain ⟨hf1, hf2, hf3, hf4⟩ := header_fields f.hdrTerm f.firstIndex f.interval f.areaEnd (idxBytesUpTo f.interval es j ++ Z)
    h.hdrOK.1 h.hdrOK.2 h.ivl16 (by have := h.area; unfold dataStart at this; omega)
  have hdrop : (header f.hdrTerm f.firstIndex f.interval f.areaEnd ++ (idxBytesUpTo f.interval es j ++ Z)).drop 32 =
      idxBytesUpTo f.interval es j ++ Z := by rw [← hH, List.drop_left]
  -- the index entries present are those of the first `j` steps
  have htl : (es.take (j * f.interval)).length = j * f.interval := by rw [List.length_take]; omega
  have htq : (es.take (j * f.interval)).length / f.interval = j := by rw [htl, Nat.mul_div_cancel _ hI]
  have hib : idxBytes f.interval (es.take (j * f.interval)) = idxBytesUpTo f.interval es j := by
    unfold idxBytes; rw [htq, idxBytesUpTo_take _ _ _ _ (Nat.le_refl _)]
  have hmono := idxBytesUpTo_mono f.interval es j (es.length / f.interval) hj
  have hZpos : 0 < Z.length := by
    have := h.ic; have := h.icEnd; have := h.area; unfold idxBytes at *; omega
  have hri := readIndexs_layout f.startIndex f.interval (es.take (j * f.interval)) Z hI
    (by rw [offsetOf_take_end es _ hjI]
        exact Nat.lt_of_le_of_lt (offsetOf_mono es _ _ hjI) h.bound)
    hZ hZpos (by
      intro i hi
      rw [htq] at hi
      have hiI : i * f.interval ≤ j * f.interval := Nat.mul_le_mul_right _ (by omega)
      rw [hib, idxBytesUpTo_take _ _ _ _ hiI]
      have := h.room i (by omega); have := h.area
      simp only [List.length_append]; omega)
  rw [hib] at hri
  have hil : idxList f.startIndex f.interval (es.take (j * f.interval)) =
      (List.range (j + 1)).map (entry f.startIndex f.interval es) := by
    rw [idxList_eq, htq]
    apply List.map_congr_left
    intro i hi
    have : i ≤ j := by have := List.mem_range.mp hi; omega
    exact entry_take _ _ _ _ _ (Nat.mul_le_mul_right _ this)
  rw [hil] at hri
  have hlast : ((List.range (j + 1)).map (entry f.startIndex f.interval es)).getLast?.getD ⟨f.startIndex, dataStart⟩ =
      entry f.startIndex f.interval es j := by
    rw [List.range_succ, List.map_append]; simp
  -- the scan of the records from the last entry present
  have hmv := moveByCount_from _ z2 es f.startIndex (j * f.interval) 0xffff hA hjI h.recs hz2
  have hminE : min (j * f.interval + 0xffff) es.length = es.length := by omega
  rw [hminE] at hmv
  have hent : (entry f.startIndex f.interval es j) = ⟨f.startIndex + j * f.interval, offsetOf es (j * f.interval)⟩ := rfl
  have hne : ¬ (f.interval = 0) := by omega
  unfold load
  simp only [hhead, hf1, hf2, hf3, hf4, hdrop, hri, hlast, hent, hmv, hne, if_false]
  -- the repair, then the look-up of the last term
  have hq : es.length / f.interval ≤ es.length := Nat.div_le_self _ _
  obtain ⟨Z', hZ', hsum', hrep⟩ := repairIndex_partial f es h z2 hz2 fl pre sp (es.length / f.interval - j) j Z
    (es.length + 1) (by omega) (by omega) hZ hsum
  unfold partialFile at hrep
  rw [hrep]
  exact initTerm_wf _ _ _ (partialFile_full_wf f es h Z' z2 hZ' hz2 hsum' fl pre sp)

/-- **the torn truncation**: `strip_log_to(k)` has zeroed the index entries behind the block of `k` and was killed
before it zeroed the removed records.  The next start recovers the file as it was before the truncation, for any
position of the cut, any number of dropped index entries and any record sizes – provided the records behind the
block of the cut fit the scan limit of `init` -/
theorem torn_strip_recovers (f : LogFile) (es : List Rec) (k : Nat) (h : WF f es)
    (hs : f.startIndex ≤ k) (hlt : k < f.startIndex + es.length)
    (hscan : es.length - (k - f.startIndex) / f.interval * f.interval ≤ 0xffff) (fl pre sp : Nat) :
    ∃ idx len pop, findIdx f k = some (idx, len, pop) ∧
      WF (load (writeAt f.bytes (f.indexCursor - len) (List.replicate len 0)) fl f.startIndex pre sp) es := by
  have hfind := findIdx_layout f es k h.ivl h.indexs h.bound hs hlt
  refine ⟨_, _, _, hfind, ?_⟩
  obtain ⟨z1, z2, hb, hz1, hz2, hsum⟩ := h.bytes
  have hH := header_length f.hdrTerm f.firstIndex f.interval f.areaEnd
  have hjq : (k - f.startIndex) / f.interval ≤ es.length / f.interval := Nat.div_le_div_right (by omega)
  obtain ⟨X, hX, _⟩ := idxBytesUpTo_split f.interval es ((k - f.startIndex) / f.interval) (es.length / f.interval) hjq
  have hXl : X.length = tailLen f.interval es (es.length / f.interval) ((k - f.startIndex) / f.interval) := by
    unfold tailLen; rw [hX]; simp
  have hib : idxBytes f.interval es = idxBytesUpTo f.interval es ((k - f.startIndex) / f.interval) ++ X := hX
  have hicsub : f.indexCursor - tailLen f.interval es (es.length / f.interval) ((k - f.startIndex) / f.interval) =
      32 + (idxBytesUpTo f.interval es ((k - f.startIndex) / f.interval)).length := by
    rw [h.ic, hib, ← hXl]; simp; omega
  have hbytes : writeAt f.bytes (f.indexCursor - tailLen f.interval es (es.length / f.interval) ((k - f.startIndex) / f.interval))
      (List.replicate (tailLen f.interval es (es.length / f.interval) ((k - f.startIndex) / f.interval)) 0) =
      header f.hdrTerm f.firstIndex f.interval f.areaEnd ++
        (idxBytesUpTo f.interval es ((k - f.startIndex) / f.interval) ++ (List.replicate X.length 0 ++ z1)) ++ (dataBytes es ++ z2) := by
    rw [hicsub, ← hXl, hb, hib]
    have e : header f.hdrTerm f.firstIndex f.interval f.areaEnd ++
        (idxBytesUpTo f.interval es ((k - f.startIndex) / f.interval) ++ X ++ z1) ++ (dataBytes es ++ z2) =
        (header f.hdrTerm f.firstIndex f.interval f.areaEnd ++ idxBytesUpTo f.interval es ((k - f.startIndex) / f.interval)) ++
          (X ++ z1 ++ (dataBytes es ++ z2)) := by simp
    rw [e, writeAt_append' _ _ _ _ (by simp [hH])]
    have hd : (X ++ z1 ++ (dataBytes es ++ z2)).drop (List.replicate X.length 0).length = z1 ++ (dataBytes es ++ z2) := by
      simp
    rw [hd]; simp
  rw [hbytes]
  apply load_partial f es h _ hjq _ z2 ((allZero_replicate _).append hz1) hz2 _ hscan
  rw [hib, List.length_append] at hsum
  simp only [List.length_append, List.length_replicate]; omega

end RNacos.LogFile
