import RNacos.Lemmas.LogTerm
/-
Histories of operations on one log file and the abstract log they implement.
-/
namespace RNacos.LogFile
open RNacos.Varint RNacos.Spec.Stream RNacos.FileReader RNacos.BufReader

inductive Op where
  | append (r : Rec)
  | strip (k : Nat)
  | reopen (pre sp : Nat)

/-- the implementation (model) step -/
def stepF (f : LogFile) : Op → LogFile
  | .append r => (write f r).1
  | .strip k => (strip f k).getD f
  | .reopen pre sp => load f.bytes f.fileLen f.startIndex pre sp

/-- the specification: a list of entries; an append is taken iff it was acknowledged (the file is not full
and the index is the next one), a truncation keeps the entries below `k` -/
def stepA (f : LogFile) (es : List Rec) : Op → List Rec
  | .append r => if isFull f = false ∧ r.index = endIndex f then es ++ [r] else es
  | .strip k => if f.startIndex ≤ k then es.take (k - f.startIndex) else es
  | .reopen _ _ => es

/-- side conditions: records are storable, the file stays below 2^64 bytes -/
def OpOK (f : LogFile) : Op → Prop
  | .append r => RecOK r ∧ f.dataCursor + (frame (recBody r)).length < 2 ^ 64
  | _ => True

theorem findIdxGo_none (l : List Idx) (last : Idx) (len pop k : Nat) (h : ∀ e ∈ l, k < e.logIndex) :
    findIdxGo l last len pop k = none := by
  induction l generalizing last len pop with
  | nil => rfl
  | cons a t ih =>
    unfold findIdxGo
    have : ¬ (a.logIndex ≤ k) := by have := h a (by simp); omega
    simp only [this, if_false]
    exact ih _ _ _ (fun e he => h e (by simp [he]))

/-- a cut below the first index of the file is refused -/
theorem strip_below (f : LogFile) (es : List Rec) (k : Nat) (h : WF f es) (hk : k < f.startIndex) :
    strip f k = none := by
  have hend := endIndex_wf f es h
  unfold strip
  have : ¬ (k ≥ endIndex f) := by omega
  simp only [this, if_false]
  have hnone : findIdx f k = none := by
    unfold findIdx
    apply findIdxGo_none
    intro e he
    rw [List.mem_reverse, h.indexs, idxList_eq] at he
    obtain ⟨j, _, rfl⟩ := List.mem_map.mp he
    unfold entry; simp only; omega
  rw [hnone]

/-- **refinement step**: every operation takes a file holding `es` to a file holding the specified log -/
theorem step_wf (f : LogFile) (es : List Rec) (op : Op) (h : WF f es) (hok : OpOK f op) :
    WF (stepF f op) (stepA f es op) := by
  cases op with
  | append r =>
    unfold stepF stepA
    by_cases hacc : isFull f = false ∧ r.index = endIndex f
    · simp only [hacc, and_self, if_true]
      exact (write_wf f es r h hacc.1 hacc.2 hok.1 hok.2).1
    · simp only [hacc, if_false]
      have : (write f r).1 = f := by
        unfold write
        by_cases hf : isFull f = true
        · simp [hf]
        · have hf' : isFull f = false := by simpa using hf
          have hne : endIndex f ≠ r.index := by
            intro e; exact hacc ⟨hf', e.symm⟩
          simp [hf', hne]
      rw [this]; exact h
  | strip k =>
    unfold stepF stepA
    have hend := endIndex_wf f es h
    by_cases hs : f.startIndex ≤ k
    · simp only [hs, if_true]
      by_cases hlt : k < endIndex f
      · obtain ⟨f', hf', hw⟩ := strip_wf f es k h hs hlt
        rw [hf']; exact hw
      · rw [strip_noop f k (by omega), List.take_of_length_le (by omega)]
        exact h
    · simp only [hs, if_false]
      rw [strip_below f es k h (by omega)]
      exact h
  | reopen pre sp => exact load_wf f es h _ _ _

/-- implementation and specification run side by side -/
def run : LogFile × List Rec → List Op → LogFile × List Rec
  | s, [] => s
  | (f, es), op :: ops => run (stepF f op, stepA f es op) ops

def HistOK : LogFile → List Op → Prop
  | _, [] => True
  | f, op :: ops => OpOK f op ∧ HistOK (stepF f op) ops

/-- **every history**: after any sequence of appends (accepted or rejected), truncations and reopens the
file holds exactly the specified log -/
theorem run_wf (ops : List Op) (f : LogFile) (es : List Rec) (h : WF f es) (hok : HistOK f ops) :
    WF (run (f, es) ops).1 (run (f, es) ops).2 := by
  induction ops generalizing f es with
  | nil => exact h
  | cons op ops ih => exact ih _ _ (step_wf f es op h hok.1) hok.2

end RNacos.LogFile
