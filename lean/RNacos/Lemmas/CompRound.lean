import RNacos.Model.Components
/-
Round trips of the sequence and table components' snapshot encodings (used by Props/C01).
-/
namespace RNacos.Components
open RNacos

theorem binToId_idToBin (v : Nat) (h : v < 2 ^ 64) : binToId (idToBin v) = some v := by
  unfold idToBin binToId
  simp only [Option.some.injEq]
  omega

theorem idToBin_length (v : Nat) : (idToBin v).length = 8 := rfl

theorem idToBin_bytes (v : Nat) : ∀ b ∈ idToBin v, b < 256 := by
  intro b hb
  simp only [idToBin, List.mem_cons, List.not_mem_nil, or_false] at hb
  omega

theorem mem_of_mem_erase {κ ν : Type} [DecidableEq κ] (l : List (κ × ν)) (k : κ) (x : κ × ν)
    (h : x ∈ AL.erase l k) : x ∈ l := by
  induction l with
  | nil => simp [AL.erase] at h
  | cons e l ih =>
    simp only [AL.erase] at h
    split at h
    · exact List.mem_cons_of_mem _ (ih h)
    · rcases List.mem_cons.1 h with rfl | h2
      · exact List.mem_cons_self ..
      · exact List.mem_cons_of_mem _ (ih h2)

/-! ### a generic "load a list of entries" lemma -/

/-- if `put` overwrites exactly one key of what `look` sees, folding `put` over a list with distinct keys makes
`look` return the list's entry, and what was there before for every other key -/
theorem look_foldl {σ κ ν : Type} [DecidableEq κ] (put : σ → κ → ν → σ) (look : σ → κ → Option ν)
    (hput : ∀ s k v k', look (put s k v) k' = if k' = k then some v else look s k')
    (l : List (κ × ν)) (hn : AL.NodupKeys l) (s : σ) (k : κ) :
    look (l.foldl (fun s kv => put s kv.1 kv.2) s) k = (AL.get? l k).orElse fun _ => look s k := by
  induction l generalizing s with
  | nil => simp [AL.get?]
  | cons e l ih =>
    have hn' : AL.NodupKeys l := by
      unfold AL.NodupKeys at hn ⊢; simp only [List.map_cons, List.nodup_cons] at hn; exact hn.2
    have hnot : e.1 ∉ l.map (·.1) := by
      unfold AL.NodupKeys at hn; simp only [List.map_cons, List.nodup_cons] at hn; exact hn.1
    rw [List.foldl_cons, ih hn']
    by_cases hk : k = e.1
    · subst hk
      have : AL.get? l e.1 = none := (AL.get?_eq_none_iff l e.1).2 hnot
      simp [this, hput, AL.get?]
    · have hk' : e.1 ≠ k := fun h => hk h.symm
      simp [AL.get?, hk', hput, hk]

/-! ### sequences -/

theorem get?_seqLoadRec (db : Sequence.SeqDb) (k : String) (v : Nat) (hv : v < 2 ^ 64) (hk : k ≠ seqConfigKey)
    (k' : String) :
    AL.get? (seqLoadRec db ⟨k, idToBin v⟩) k' = if k' = k then some v else AL.get? db k' := by
  unfold seqLoadRec
  simp only [hk, if_false, binToId_idToBin v hv]
  by_cases h : k' = k
  · subst h; simp
  · simp [h, AL.get?_set_other db k k' v (fun e => h e.symm)]

/-- the entries a snapshot of the sequences can carry: 64-bit values, no sequence called `SEQ_CONFIG` -/
def SeqOK (db : Sequence.SeqDb) : Prop := ∀ kv ∈ db, kv.2 < 2 ^ 64 ∧ kv.1 ≠ seqConfigKey

theorem seqLoad_build_aux (l : Sequence.SeqDb) (hn : AL.NodupKeys l) (hok : SeqOK l) (s : Sequence.SeqDb)
    (k : String) :
    AL.get? (seqLoad s (seqBuild l)) k = (AL.get? l k).orElse fun _ => AL.get? s k := by
  induction l generalizing s with
  | nil => simp [seqLoad, seqBuild, AL.get?]
  | cons e l ih =>
    have hn' : AL.NodupKeys l := by
      unfold AL.NodupKeys at hn ⊢; simp only [List.map_cons, List.nodup_cons] at hn; exact hn.2
    have hnot : e.1 ∉ l.map (·.1) := by
      unfold AL.NodupKeys at hn; simp only [List.map_cons, List.nodup_cons] at hn; exact hn.1
    have hok' : SeqOK l := fun kv h => hok kv (List.mem_cons_of_mem _ h)
    have he := hok e (List.mem_cons_self ..)
    have := ih hn' hok' (seqLoadRec s ⟨e.1, idToBin e.2⟩)
    simp only [seqLoad, seqBuild, List.map_cons, List.foldl_cons] at this ⊢
    rw [this, get?_seqLoadRec s e.1 e.2 he.1 he.2 k]
    by_cases hk : k = e.1
    · subst hk
      have : AL.get? l e.1 = none := (AL.get?_eq_none_iff l e.1).2 hnot
      simp [this, AL.get?]
    · have hk' : e.1 ≠ k := fun h => hk h.symm
      simp [AL.get?, hk', hk]

/-! ### tables -/

theorem tget_tset (ts : Tables) (t : String) (k v : Bytes) (t' : String) (k' : Bytes) :
    tget (tset ts t k v) t' k' = if t' = t ∧ k' = k then some v else tget ts t' k' := by
  unfold tget tset
  by_cases ht : t' = t
  · subst ht
    simp only [AL.get?_set_same, Option.bind_some, true_and]
    by_cases hk : k' = k
    · subst hk; simp
    · simp only [hk, if_false]
      rw [AL.get?_set_other _ k k' v (fun e => hk e.symm)]
      cases AL.get? ts t' <;> simp [AL.get?]
  · simp only [ht, false_and, if_false]
    rw [AL.get?_set_other ts t t' _ (fun e => ht e.symm)]

/-- the flattened view of the tables: one entry per (table, key) -/
def flat (ts : Tables) : List ((String × Bytes) × Bytes) :=
  ts.flatMap fun nt => nt.2.map fun kv => ((nt.1, kv.1), kv.2)

/-- every table has distinct keys, the tables distinct names -/
def TablesOK (ts : Tables) : Prop := AL.NodupKeys ts ∧ ∀ nt ∈ ts, AL.NodupKeys nt.2

theorem get?_map_pair (t : String) (tb : Table) (t' : String) (k : Bytes) :
    AL.get? (tb.map fun kv => ((t, kv.1), kv.2)) (t', k) = if t' = t then AL.get? tb k else none := by
  induction tb with
  | nil => simp [AL.get?]
  | cons e tb ih =>
    simp only [List.map_cons, AL.get?]
    by_cases ht : t' = t
    · subst ht
      by_cases hk : e.1 = k
      · simp [hk]
      · have : ¬ ((t', e.1) = (t', k)) := by simp [hk]
        simp [hk, ih]
    · have : ¬ ((t, e.1) = (t', k)) := by
        intro h; exact ht (Prod.mk.inj h).1.symm
      simp only [this, ht, if_false] at ih ⊢
      simpa [ht] using ih

theorem get?_append {κ ν : Type} [DecidableEq κ] (a b : List (κ × ν)) (k : κ) :
    AL.get? (a ++ b) k = (AL.get? a k).orElse fun _ => AL.get? b k := by
  induction a with
  | nil => simp [AL.get?]
  | cons e a ih =>
    simp only [List.cons_append, AL.get?]
    by_cases h : e.1 = k <;> simp [h, ih]

theorem get?_flat (ts : Tables) (hn : AL.NodupKeys ts) (t : String) (k : Bytes) :
    AL.get? (flat ts) (t, k) = tget ts t k := by
  induction ts with
  | nil => simp [flat, tget, AL.get?]
  | cons e ts ih =>
    have hn' : AL.NodupKeys ts := by
      unfold AL.NodupKeys at hn ⊢; simp only [List.map_cons, List.nodup_cons] at hn; exact hn.2
    have hnot : e.1 ∉ ts.map (·.1) := by
      unfold AL.NodupKeys at hn; simp only [List.map_cons, List.nodup_cons] at hn; exact hn.1
    have ih' := ih hn'
    simp only [flat, List.flatMap_cons] at ih' ⊢
    rw [get?_append, get?_map_pair, ih']
    unfold tget
    simp only [AL.get?]
    by_cases ht : e.1 = t
    · subst ht
      have hnone : AL.get? ts e.1 = none := (AL.get?_eq_none_iff ts e.1).2 hnot
      simp [hnone]
    · have ht' : ¬ t = e.1 := fun h => ht h.symm
      simp [ht, ht']

theorem nodupKeys_flat (ts : Tables) (h : TablesOK ts) : AL.NodupKeys (flat ts) := by
  obtain ⟨hn, ht⟩ := h
  induction ts with
  | nil => simp [flat, AL.NodupKeys]
  | cons e ts ih =>
    have hn' : AL.NodupKeys ts := by
      unfold AL.NodupKeys at hn ⊢; simp only [List.map_cons, List.nodup_cons] at hn; exact hn.2
    have hnot : e.1 ∉ ts.map (·.1) := by
      unfold AL.NodupKeys at hn; simp only [List.map_cons, List.nodup_cons] at hn; exact hn.1
    have ih' := ih hn' (fun nt h => ht nt (List.mem_cons_of_mem _ h))
    have he := ht e (List.mem_cons_self ..)
    unfold AL.NodupKeys at ih' he ⊢
    simp only [flat, List.flatMap_cons, List.map_append, List.map_map] at ih' ⊢
    rw [List.nodup_append]
    refine ⟨?_, ih', ?_⟩
    · have : (List.map ((fun x => x.1) ∘ fun kv => ((e.1, kv.1), kv.2)) e.2) = (e.2.map (·.1)).map (fun k => (e.1, k)) := by
        simp [List.map_map, Function.comp_def]
      rw [this]
      exact List.Pairwise.map _ (fun a b h h2 => h (Prod.mk.inj h2).2) he
    · intro a ha b hb hab
      subst hab
      simp only [List.mem_map, Function.comp_apply] at ha
      obtain ⟨kv, _, rfl⟩ := ha
      obtain ⟨x, hx, hxe⟩ := List.mem_map.1 hb
      obtain ⟨nt, hnt, hx2⟩ := List.mem_flatMap.1 hx
      obtain ⟨kv', _, rfl⟩ := List.mem_map.1 hx2
      simp only [Prod.mk.injEq] at hxe
      apply hnot
      exact List.mem_map.2 ⟨nt, hnt, hxe.1⟩

/-- loading = folding `tset` over the flattened entries, when every tree name is one that `load_snapshot` knows -/
theorem tblLoad_build_eq (ts : Tables) (hall : ∀ nt ∈ ts, nt.1 ∈ loadedTrees) (s : Tables) :
    tblLoad s (tblBuild ts) = (flat ts).foldl (fun s kv => tset s kv.1.1 kv.1.2 kv.2) s := by
  induction ts generalizing s with
  | nil => simp [tblLoad, tblBuild, flat]
  | cons e ts ih =>
    have ih' := ih (fun nt h => hall nt (List.mem_cons_of_mem _ h))
    have he := hall e (List.mem_cons_self ..)
    simp only [tblLoad, tblBuild, flat, List.flatMap_cons, List.foldl_append] at ih' ⊢
    have hfirst : ∀ (tb : Table) (s : Tables),
        List.foldl tblLoadRec s (tb.map fun kv => (⟨e.1, kv.1, kv.2⟩ : TblRec)) =
        List.foldl (fun s kv => tset s kv.1.1 kv.1.2 kv.2) s (tb.map fun kv => ((e.1, kv.1), kv.2)) := by
      intro tb
      induction tb with
      | nil => intro s; rfl
      | cons x tb ihx =>
        intro s
        simp only [List.map_cons, List.foldl_cons]
        rw [ihx]
        simp [tblLoadRec, he]
    rw [hfirst, ih']

end RNacos.Components
