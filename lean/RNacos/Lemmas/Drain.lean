import RNacos.Lemmas.BufReader
/-
The consumer loops over the reader: `takeAll`/`drainAll` and `scanInner`/`scanCount` against the
whole-stream specification.
-/
namespace RNacos.BufReader
open RNacos.Varint RNacos.Spec.Stream

def frames (bs : List (List Nat)) : List Nat := (bs.map frame).flatten

theorem stream_eq (bs : List (List Nat)) (tail : List Nat) : stream bs tail = frames bs ++ tail := rfl

theorem frames_cons (b : List Nat) (bs : List (List Nat)) : frames (b :: bs) = frame b ++ frames bs := by
  simp [frames]

theorem frames_append (a b : List (List Nat)) : frames (a ++ b) = frames a ++ frames b := by
  simp [frames]

theorem frame_length_pos (b : List Nat) : 0 < (frame b).length := by
  unfold frame; have := vwrite_length_pos b.length; simp; omega

theorem frames_length_ge (bs : List (List Nat)) : bs.length ≤ (frames bs).length := by
  induction bs with
  | nil => simp [frames]
  | cons b bs ih =>
    rw [frames_cons, List.length_append, List.length_cons]
    have := frame_length_pos b
    omega

/-- Any prefix `q` of a stream splits into whole frames followed by a remainder that is shorter than
the next frame (or lies in the tail). -/
theorem split_prefix : ∀ (bs : List (List Nat)) (q rem tail : List Nat),
    q ++ rem = stream bs tail →
    ∃ bs1 bs2 p, bs = bs1 ++ bs2 ∧ q = frames bs1 ++ p ∧ p ++ rem = stream bs2 tail ∧
      (∀ b rest, bs2 = b :: rest → p.length < (frame b).length) := by
  intro bs
  induction bs with
  | nil =>
    intro q rem tail h
    exact ⟨[], [], q, rfl, by simp [frames], by simpa [stream] using h, by intro b rest hh; cases hh⟩
  | cons b bs ih =>
    intro q rem tail h
    by_cases hlt : q.length < (frame b).length
    · exact ⟨[], b :: bs, q, rfl, by simp [frames], h, by
        intro b' rest hh; cases hh; exact hlt⟩
    · rw [stream_eq, frames_cons, List.append_assoc] at h
      have hpre : frame b <+: q := by
        apply List.prefix_of_prefix_length_le (l₃ := q ++ rem)
        · rw [h]; exact List.prefix_append _ _
        · exact List.prefix_append _ _
        · omega
      obtain ⟨q', rfl⟩ := hpre
      rw [List.append_assoc] at h
      have h' := List.append_cancel_left h
      obtain ⟨bs1, bs2, p, e1, e2, e3, e4⟩ := ih q' rem tail (by rw [stream_eq]; exact h')
      exact ⟨b :: bs1, bs2, p, by rw [e1]; rfl, by rw [e2, frames_cons, List.append_assoc], e3, e4⟩

/-- the remainder produced by `split_prefix` cannot yield a message -/
theorem stuck_of_split {bs2 : List (List Nat)} {p rem tail : List Nat}
    (hb : BodiesOK bs2) (ht : TailOK tail) (e3 : p ++ rem = stream bs2 tail)
    (e4 : ∀ b rest, bs2 = b :: rest → p.length < (frame b).length) : Stuck p := by
  cases bs2 with
  | nil =>
    simp only [stream, List.map_nil, List.flatten_nil, List.nil_append] at e3
    cases p with
    | nil => exact Or.inl rfl
    | cons a t =>
      right; left
      rcases ht with ht | ht
      · rw [ht] at e3; simp at e3
      · rw [← e3] at ht; simpa using ht
  | cons b rest =>
    right; right
    refine ⟨b, hb b (by simp), ?_, e4 b rest rfl⟩
    rw [stream_eq, frames_cons, List.append_assoc] at e3
    apply List.prefix_of_prefix_length_le (l₃ := p ++ rem)
    · exact List.prefix_append _ _
    · rw [e3]; exact List.prefix_append _ _
    · have := e4 b rest rfl; omega

/-- `while let Some(v) = next_message_vec()` over a window holding whole frames + a stuck remainder -/
theorem takeAll_frames : ∀ (bs : List (List Nat)) (r : BufReader) (p : List Nat) (fuel : Nat)
    (acc : List (List Nat)),
    WF r → BodiesOK bs → Stuck p → window r = frames bs ++ p → bs.length + 1 ≤ fuel →
    ∃ r', takeAll fuel r acc = (acc.reverse ++ bs.map frame, r', false) ∧ WF r' ∧ window r' = p := by
  intro bs
  induction bs with
  | nil =>
    intro r p fuel acc hwf _ hs hw hf
    obtain ⟨f, rfl⟩ : ∃ f, fuel = f + 1 := ⟨fuel - 1, by simp at hf; omega⟩
    have hw' : window r = p := by simpa [frames] using hw
    obtain ⟨r', hn, hwf', hwin⟩ := next_stuck hwf (by rw [hw']; exact hs)
    refine ⟨r', ?_, hwf', by rw [hwin, hw']⟩
    simp [takeAll, hn]
  | cons b bs ih =>
    intro r p fuel acc hwf hb hs hw hf
    obtain ⟨f, rfl⟩ : ∃ f, fuel = f + 1 := ⟨fuel - 1, by simp at hf; omega⟩
    rw [frames_cons, List.append_assoc] at hw
    obtain ⟨r1, hn, hwf1, hwin1⟩ := next_frame hwf b _ (hb b (by simp)) hw
    obtain ⟨r', ht, hwf', hwin'⟩ := ih r1 p f (frame b :: acc) hwf1
      (fun x hx => hb x (by simp [hx])) hs hwin1 (by simp at hf; omega)
    refine ⟨r', ?_, hwf', hwin'⟩
    simp only [takeAll, hn, ht]
    simp

/-- **drain under any chunking**, stated for an arbitrary well-formed starting reader -/
theorem drainAll_correct : ∀ (chunks : List (List Nat)) (r : BufReader) (bs : List (List Nat))
    (tail : List Nat),
    WF r → BodiesOK bs → TailOK tail → window r ++ chunks.flatten = stream bs tail →
    (∀ b rest, bs = b :: rest → (window r).length < (frame b).length) →
    (drainAll r chunks).1 = bs.map frame ∧ (drainAll r chunks).2.2 = false := by
  intro chunks
  induction chunks with
  | nil =>
    intro r bs tail _ _ _ hw hlt
    cases bs with
    | nil => simp [drainAll]
    | cons b rest =>
      exfalso
      have h1 := hlt b rest rfl
      simp only [List.flatten_nil, List.append_nil] at hw
      rw [hw, stream_eq, frames_cons] at h1
      simp only [List.length_append] at h1
      omega
  | cons ch rest ih =>
    intro r bs tail hwf hb ht hw _
    obtain ⟨hwf1, hwin1, _⟩ := append_window hwf ch
    have hq : (window r ++ ch) ++ rest.flatten = stream bs tail := by
      rw [← hw]; simp
    obtain ⟨bs1, bs2, p, e1, e2, e3, e4⟩ := split_prefix bs _ _ tail hq
    have hb1 : BodiesOK bs1 := fun x hx => hb x (by rw [e1]; simp [hx])
    have hb2 : BodiesOK bs2 := fun x hx => hb x (by rw [e1]; simp [hx])
    have hs : Stuck p := stuck_of_split hb2 ht e3 e4
    have hfuel : bs1.length + 1 ≤ (appendNextBuf r ch).end_ - (appendNextBuf r ch).start + 1 := by
      rw [← window_length hwf1, hwin1, e2, List.length_append]
      have := frames_length_ge bs1
      omega
    obtain ⟨r2, htk, hwf2, hwin2⟩ := takeAll_frames bs1 (appendNextBuf r ch) p _ [] hwf1 hb1 hs
      (by rw [hwin1, e2]) hfuel
    have ihr := ih r2 bs2 tail hwf2 hb2 ht (by rw [hwin2]; exact e3) (by rw [hwin2]; exact e4)
    simp only [drainAll, htk]
    simp only [List.reverse_nil, List.nil_append, Bool.false_eq_true, if_false]
    obtain ⟨i1, i2⟩ := ihr
    constructor
    · rw [i1, e1]; simp
    · exact i2

end RNacos.BufReader
