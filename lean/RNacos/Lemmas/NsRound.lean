import RNacos.Model.Namespace
/-
The namespace component's snapshot round trip (the part of C01 that concerns namespaces) and the order dependence
behind the known finding F32.
-/
namespace RNacos.Namespace

def ids (s : State) : List String := s.map (·.1)

theorem any_false_of_not_mem (s : State) (id : String) (h : id ∉ ids s) : s.any (·.1 == id) = false := by
  rw [List.any_eq_false]
  intro x hx hc
  exact h (by simp only [ids, List.mem_map]; exact ⟨x, hx, by simpa using hc⟩)

theorem get?_none_of_not_mem (s : State) (id : String) (h : id ∉ ids s) : get? s id = none := by
  unfold get?
  have : s.find? (·.1 == id) = none := by
    rw [List.find?_eq_none]
    intro x hx hc
    exact h (by simp only [ids, List.mem_map]; exact ⟨x, hx, by simpa using hc⟩)
  simp [this]

/-- loading a record whose id is not present appends a user entry -/
theorem set_absent (s : State) (id name : String) (h : id ∉ ids s) (hp : id ≠ "public") (he : id ≠ "") :
    setNamespace s id (some name) false false = s ++ [(id, ⟨name, fUser⟩)] := by
  unfold setNamespace
  have h1 : (id == "public") = false := by simpa using hp
  have h2 : (id == "") = false := by simpa using he
  simp only [h1, Bool.false_eq_true, if_false, h2, get?_none_of_not_mem s id h, Option.getD_some]
  unfold put
  simp [any_false_of_not_mem s id h]

theorem load_fresh : ∀ (recs : List (String × String)) (st : State),
    (recs.map (·.1)).Nodup → (∀ r ∈ recs, r.1 ∉ ids st ∧ r.1 ≠ "public" ∧ r.1 ≠ "") →
    loadSnapshot st recs = st ++ recs.map fun r => (r.1, (⟨r.2, fUser⟩ : Ns)) := by
  intro recs
  induction recs with
  | nil => intro st _ _; simp [loadSnapshot]
  | cons r rs ih =>
    intro st hnd hall
    have hr := hall r (by simp)
    simp only [loadSnapshot, List.foldl_cons]
    rw [set_absent st r.1 r.2 hr.1 hr.2.1 hr.2.2]
    have hnd' : (rs.map (·.1)).Nodup := by
      simp only [List.map_cons, List.nodup_cons] at hnd; exact hnd.2
    have hnotin : r.1 ∉ rs.map (·.1) := by
      simp only [List.map_cons, List.nodup_cons] at hnd; exact hnd.1
    have := ih (st ++ [(r.1, ⟨r.2, fUser⟩)]) hnd' (by
      intro x hx
      have hx' := hall x (by simp [hx])
      refine ⟨?_, hx'.2⟩
      simp only [ids, List.map_append, List.map_cons, List.map_nil, List.mem_append, List.mem_singleton, not_or]
      refine ⟨by simpa [ids] using hx'.1, ?_⟩
      intro e
      exact hnotin (by rw [← e]; exact List.mem_map.2 ⟨x, hx, rfl⟩))
    simp only [loadSnapshot] at this
    rw [this]
    simp

theorem userList_append (a b : State) : userList (a ++ b) = userList a ++ userList b := by
  simp [userList, List.filter_append]

/-- **the namespace round trip**: the user-created namespaces served by a node that starts from a snapshot are
exactly - id, name and order - those of the node that wrote it; namespaces that are also in use (CONFIG / NAMING
flags set as well) included.  Hypotheses = what every reachable state has: ids are unique, the system entry `""` is
not a user entry, no entry is called `public`. -/
theorem namespace_snapshot_roundtrip (s : State) (hnd : (ids s).Nodup)
    (hsys : ∀ e ∈ s, e.1 = "" → hasFlag e.2.flag fUser = false) (hpub : ∀ e ∈ s, e.1 ≠ "public") :
    userList (loadSnapshot initial (buildSnapshot s)) = userList s := by
  have hb : buildSnapshot s = userList s := by
    unfold buildSnapshot userList
    congr 1
    apply List.filter_congr
    intro e he
    by_cases hu : hasFlag e.2.flag fUser = true
    · have : e.1 ≠ "" := fun h0 => by have := hsys e he h0; rw [hu] at this; exact absurd this (by simp)
      simp [hu, this]
    · simp [hu]
  have hsub : ∀ r ∈ buildSnapshot s, ∃ e ∈ s, e.1 = r.1 ∧ e.1 ≠ "" := by
    intro r hr
    simp only [buildSnapshot, List.mem_map, List.mem_filter, Bool.and_eq_true, bne_iff_ne, ne_eq] at hr
    obtain ⟨e, ⟨he, hne, _⟩, rfl⟩ := hr
    exact ⟨e, he, rfl, hne⟩
  have hnd2 : ((buildSnapshot s).map (·.1)).Nodup := by
    unfold buildSnapshot
    rw [List.map_map]
    have : ((fun (r : String × String) => r.1) ∘ fun (e : String × Ns) => (e.1, e.2.name)) = fun e => e.1 := rfl
    rw [this]
    exact List.Nodup.sublist (List.Sublist.map _ List.filter_sublist) hnd
  rw [load_fresh (buildSnapshot s) initial hnd2 (by
    intro r hr
    obtain ⟨e, he, h1, h2⟩ := hsub r hr
    refine ⟨?_, ?_, ?_⟩
    · simp only [initial, ids, List.map_cons, List.map_nil, List.mem_singleton]; rw [← h1]; exact h2
    · rw [← h1]; exact hpub e he
    · rw [← h1]; exact h2)]
  rw [userList_append]
  have h0 : userList initial = [] := by decide
  rw [h0, List.nil_append, ← hb]
  unfold userList
  rw [List.filter_eq_self.2 (by intro e he; simp only [List.mem_map] at he; obtain ⟨r, _, rfl⟩ := he; show hasFlag fUser fUser = true; decide)]
  simp [List.map_map, Function.comp_def]

/-- F32 in the model: with a configuration already in the tenant (its weak entry exists) an `AddOnly` upgrades the
entry to a user namespace; when the weak entry arrives later, the same `AddOnly` is dropped - the two orders of two
actors' messages give different user namespaces -/
theorem addOnly_depends_on_order :
    userList (setWeak (apply initial (.addOnly "ns2" (some "name34"))) "ns2" fConfig) ≠
    userList (apply (setWeak initial "ns2" fConfig) (.addOnly "ns2" (some "name34"))) := by
  decide

/-- `Set` does not: it creates the entry when there is none -/
theorem set_independent_of_order :
    userList (setWeak (apply initial (.set "ns2" (some "name34"))) "ns2" fConfig) =
    userList (apply (setWeak initial "ns2" fConfig) (.set "ns2" (some "name34"))) := by
  decide

/-- non-vacuity: a user namespace that is also in use (flag USER|CONFIG) goes through the round trip -/
example :
    let s := setWeak (apply (apply initial (.set "ns1" (some "Production"))) (.set "ns3" (some "x"))) "ns1" fConfig
    userList s = [("ns1", "Production"), ("ns3", "x")] ∧ userList (loadSnapshot initial (buildSnapshot s)) = userList s := by
  decide

end RNacos.Namespace
