import RNacos.Lemmas.LogScan
/-
The index area of a log file: parsing it back (`read_indexs`), finding the entry to restart from
(`get_start_index`, `get_file_index_by_log_index`).
-/
namespace RNacos.LogFile
open RNacos.Varint RNacos.Spec.Stream RNacos.FileReader RNacos.BufReader

/-- index entry number `j` -/
def entry (start I : Nat) (es : List Rec) (j : Nat) : Idx := ⟨start + j * I, offsetOf es (j * I)⟩

theorem idxList_eq (start I : Nat) (es : List Rec) :
    idxList start I es = (List.range (es.length / I + 1)).map (entry start I es) := rfl

/-- offset step of index entry `j+1` -/
def stepOf (I : Nat) (es : List Rec) (j : Nat) : Nat := offsetOf es ((j + 1) * I) - offsetOf es (j * I)

theorem idxBytesUpTo_succ' (I : Nat) (es : List Rec) (q : Nat) :
    idxBytesUpTo I es (q + 1) = idxBytesUpTo I es q ++ vwrite (stepOf I es q) := idxBytesUpTo_succ I es q

theorem idxBytesUpTo_split (I : Nat) (es : List Rec) (j q : Nat) (h : j ≤ q) :
    ∃ X, idxBytesUpTo I es q = idxBytesUpTo I es j ++ X ∧
      (j < q → ∃ Y, X = vwrite (stepOf I es j) ++ Y) := by
  induction q with
  | zero =>
    have : j = 0 := by omega
    subst this; exact ⟨[], by simp, fun h => absurd h (by omega)⟩
  | succ q ih =>
    by_cases hj : j = q + 1
    · subst hj; exact ⟨[], by simp, fun h => absurd h (by omega)⟩
    · obtain ⟨X, hX, hY⟩ := ih (by omega)
      refine ⟨X ++ vwrite (stepOf I es q), by rw [idxBytesUpTo_succ', hX, List.append_assoc], fun _ => ?_⟩
      by_cases hjq : j < q
      · obtain ⟨Y, rfl⟩ := hY hjq
        exact ⟨Y ++ vwrite (stepOf I es q), by simp⟩
      · have : j = q := by omega
        subst this
        have hx : X = [] := by
          have := congrArg List.length hX
          simp only [List.length_append] at this
          exact List.eq_nil_of_length_eq_zero (by omega)
        subst hx; exact ⟨[], by simp⟩

theorem stepOf_pos (I : Nat) (es : List Rec) (j : Nat) (hI : 0 < I) (h : (j + 1) * I ≤ es.length) :
    0 < stepOf I es j := by
  unfold stepOf
  have : j * I < (j + 1) * I := by rw [Nat.succ_mul]; omega
  have := offsetOf_lt es (j * I) ((j + 1) * I) this h
  omega

theorem offsetOf_step (I : Nat) (es : List Rec) (j : Nat) :
    offsetOf es (j * I) + stepOf I es j = offsetOf es ((j + 1) * I) := by
  unfold stepOf
  have := offsetOf_mono es (j * I) ((j + 1) * I) (by rw [Nat.succ_mul]; omega)
  omega

/-- the loop of `read_indexs`, started at entry `j` with the entries before it already collected -/
theorem readIndexsGo_layout (start I : Nat) (es : List Rec) (z1 : List Nat) (hI : 0 < I)
    (q : Nat) (hq : q * I ≤ es.length)
    (hbound : offsetOf es es.length < 2 ^ 64)
    (hz : AllZero z1) (hz1 : 0 < z1.length)
    (hroom : ∀ j, j < q → (idxBytesUpTo I es j).length ≤ (idxBytesUpTo I es q ++ z1).length - 10) :
    ∀ (d j fuel : Nat), j + d = q → d < fuel →
      readIndexsGo fuel (idxBytesUpTo I es q ++ z1) I (idxBytesUpTo I es j).length (start + j * I)
        (offsetOf es (j * I)) (((List.range (j + 1)).map (entry start I es)).reverse) =
      ((List.range (q + 1)).map (entry start I es), (idxBytesUpTo I es q).length) := by
  intro d
  induction d with
  | zero =>
    intro j fuel hj hf
    have hjq : j = q := by omega
    subst hjq
    obtain ⟨g, rfl⟩ : ∃ g, fuel = g + 1 := ⟨fuel - 1, by omega⟩
    unfold readIndexsGo
    have hv : vread (idxBytesUpTo I es j ++ z1) (idxBytesUpTo I es j).length = .ok 0 := by
      unfold vread
      rw [List.drop_left]
      cases z1 with
      | nil => simp at hz1
      | cons a t =>
        have : a = 0 := hz a (by simp)
        subst this; simp [vreadGo]
    rw [hv]; simp
  | succ d ih =>
    intro j fuel hj hf
    obtain ⟨g, rfl⟩ : ∃ g, fuel = g + 1 := ⟨fuel - 1, by omega⟩
    have hjq : j < q := by omega
    obtain ⟨X, hX, hY⟩ := idxBytesUpTo_split I es j q (by omega)
    obtain ⟨Y, rfl⟩ := hY hjq
    have hle : (j + 1) * I ≤ es.length := by
      have : (j + 1) * I ≤ q * I := Nat.mul_le_mul_right I (by omega)
      omega
    have hsp := stepOf_pos I es j hI hle
    have hsb : stepOf I es j < 2 ^ 64 := by
      unfold stepOf
      have := offsetOf_mono es ((j + 1) * I) es.length hle
      omega
    unfold readIndexsGo
    have hv : vread (idxBytesUpTo I es q ++ z1) (idxBytesUpTo I es j).length = .ok (stepOf I es j) := by
      unfold vread
      rw [hX, List.append_assoc, List.drop_left, List.append_assoc, vreadGo_vwrite _ _ hsb]
      simp [Nat.mod_eq_of_lt hsb]
    rw [hv]
    have hne : ¬ (stepOf I es j = 0) := by omega
    simp only [hne, if_false]
    have hoff : (idxBytesUpTo I es j).length + vsizeof (stepOf I es j) = (idxBytesUpTo I es (j + 1)).length := by
      rw [idxBytesUpTo_succ', List.length_append, vwrite_length_eq_vsizeof _ hsb]
    have hli : start + j * I + I = start + (j + 1) * I := by rw [Nat.succ_mul]; omega
    have hacc : (⟨start + (j + 1) * I, offsetOf es ((j + 1) * I)⟩ : Idx) ::
        ((List.range (j + 1)).map (entry start I es)).reverse =
        ((List.range (j + 1 + 1)).map (entry start I es)).reverse := by
      rw [List.range_succ (n := j + 1), List.map_append, List.reverse_append]; rfl
    rw [hoff, hli, offsetOf_step, hacc]
    by_cases hlast : j + 1 = q
    · -- the last entry: either branch returns the full list
      subst hlast
      split
      · simp
      · exact ih (j + 1) g (by omega) (by omega)
    · have hr := hroom (j + 1) (by omega)
      have hnb : ¬ ((idxBytesUpTo I es (j + 1)).length > (idxBytesUpTo I es q ++ z1).length - 10) := by omega
      simp only [hnb, if_false]
      exact ih (j + 1) g (by omega) (by omega)

end RNacos.LogFile

namespace RNacos.LogFile
open RNacos.Varint RNacos.Spec.Stream RNacos.FileReader RNacos.BufReader

theorem idxBytesUpTo_length_ge (I : Nat) (es : List Rec) (q : Nat) : q ≤ (idxBytesUpTo I es q).length := by
  induction q with
  | zero => simp
  | succ q ih =>
    rw [idxBytesUpTo_succ', List.length_append]
    have := vwrite_length_pos (stepOf I es q); omega

/-- **`read_indexs`** reads back exactly the index entries of the layout and the cursor behind them -/
theorem readIndexs_layout (start I : Nat) (es : List Rec) (z1 : List Nat) (hI : 0 < I)
    (hbound : offsetOf es es.length < 2 ^ 64) (hz : AllZero z1) (hz1 : 0 < z1.length)
    (hroom : ∀ j, j < es.length / I →
      (idxBytesUpTo I es j).length ≤ (idxBytes I es ++ z1).length - 10) :
    readIndexs (idxBytes I es ++ z1) start I = (idxList start I es, (idxBytes I es).length) := by
  unfold readIndexs idxBytes
  have hq : es.length / I * I ≤ es.length := Nat.div_mul_le_self _ _
  have h := readIndexsGo_layout start I es z1 hI (es.length / I) hq hbound hz hz1 hroom (es.length / I) 0
    (idxBytesUpTo I es (es.length / I) ++ z1).length (by omega)
    (by have := idxBytesUpTo_length_ge I es (es.length / I); simp only [List.length_append]; omega)
  have h0 : (idxBytesUpTo I es 0).length = 0 := rfl
  have hs : start + 0 * I = start := by omega
  have ho : offsetOf es (0 * I) = dataStart := by rw [Nat.zero_mul, offsetOf_zero]
  rw [h0, hs, ho] at h
  have hacc : ((List.range (0 + 1)).map (entry start I es)).reverse = [⟨start, dataStart⟩] := by
    simp [entry, offsetOf_zero]
  rw [hacc] at h
  rw [h]; rfl

/-! ### finding index entries -/

theorem filter_range_le (n m : Nat) : (List.range n).filter (fun j => decide (j ≤ m)) = List.range (min n (m + 1)) := by
  induction n with
  | zero => simp
  | succ n ih =>
    rw [List.range_succ, List.filter_append, ih]
    by_cases h : n ≤ m
    · have h1 : min n (m + 1) = n := by omega
      have h2 : min (n + 1) (m + 1) = n + 1 := by omega
      simp [h, h1, h2, List.range_succ]
    · have h1 : min n (m + 1) = m + 1 := by omega
      have h2 : min (n + 1) (m + 1) = m + 1 := by omega
      simp [h, h1, h2]

theorem entry_le_iff (start I : Nat) (es : List Rec) (j s : Nat) (hI : 0 < I) (hs : start ≤ s) :
    (entry start I es j).logIndex ≤ s ↔ j ≤ (s - start) / I := by
  unfold entry
  simp only
  rw [Nat.le_div_iff_mul_le hI]
  omega

/-- `get_start_index`: the index entry of the block that holds record `s` -/
theorem startIdx_layout (f : LogFile) (es : List Rec) (s : Nat) (hI : 0 < f.interval)
    (hidx : f.indexs = idxList f.startIndex f.interval es) (hs : f.startIndex ≤ s)
    (hlt : s < f.startIndex + es.length) :
    startIdx f s = entry f.startIndex f.interval es ((s - f.startIndex) / f.interval) := by
  unfold startIdx
  rw [hidx, idxList_eq, List.filter_map]
  have hfun : ((fun e : Idx => decide (e.logIndex ≤ s)) ∘ entry f.startIndex f.interval es) =
      fun j => decide (j ≤ (s - f.startIndex) / f.interval) := by
    funext j
    simp only [Function.comp]
    rw [decide_eq_decide]
    exact entry_le_iff _ _ _ _ _ hI hs
  rw [hfun, filter_range_le]
  have hj : (s - f.startIndex) / f.interval ≤ es.length / f.interval := Nat.div_le_div_right (by omega)
  have hmin : min (es.length / f.interval + 1) ((s - f.startIndex) / f.interval + 1) =
      (s - f.startIndex) / f.interval + 1 := by omega
  rw [hmin, List.range_succ, List.map_append]
  simp

/-- bytes of index area from entry `m` to the end -/
def tailLen (I : Nat) (es : List Rec) (q m : Nat) : Nat :=
  (idxBytesUpTo I es q).length - (idxBytesUpTo I es m).length

theorem idxBytesUpTo_mono (I : Nat) (es : List Rec) (j q : Nat) (h : j ≤ q) :
    (idxBytesUpTo I es j).length ≤ (idxBytesUpTo I es q).length := by
  obtain ⟨X, hX, _⟩ := idxBytesUpTo_split I es j q h
  rw [hX]; simp

theorem tailLen_pred (I : Nat) (es : List Rec) (q m : Nat) (hm : m + 1 ≤ q) :
    tailLen I es q m = tailLen I es q (m + 1) + (vwrite (stepOf I es m)).length := by
  unfold tailLen
  have h1 := idxBytesUpTo_mono I es (m + 1) q hm
  rw [idxBytesUpTo_succ', List.length_append] at h1 ⊢
  omega

/-- the backwards walk of `get_file_index_by_log_index`, after entry `m` has been passed -/
theorem findIdxGo_layout (start I : Nat) (es : List Rec) (q js k : Nat) (hI : 0 < I)
    (hq : q * I ≤ es.length) (hbound : offsetOf es es.length < 2 ^ 64)
    (hjs : ∀ j, start + j * I ≤ k ↔ j ≤ js) :
    ∀ (d m : Nat), js + d + 1 = m → m ≤ q →
      findIdxGo ((List.range m).map (entry start I es)).reverse (entry start I es m) (tailLen I es q m) (q - m) k =
        some (entry start I es js, tailLen I es q js, q - js) := by
  intro d
  induction d with
  | zero =>
    intro m hm hmq
    obtain ⟨p, rfl⟩ : ∃ p, m = p + 1 := ⟨m - 1, by omega⟩
    have hp : p = js := by omega
    subst hp
    rw [List.range_succ, List.map_append, List.reverse_append]
    simp only [List.map_cons, List.map_nil, List.reverse_cons, List.reverse_nil, List.nil_append, List.cons_append]
    unfold findIdxGo
    have hch : (entry start I es p).logIndex ≠ (entry start I es (p + 1)).logIndex := by
      unfold entry; simp only; rw [Nat.succ_mul]; omega
    have hle : (entry start I es p).logIndex ≤ k := (hjs p).mpr (Nat.le_refl _)
    have hsb : stepOf I es p < 2 ^ 64 := by
      unfold stepOf
      have : (p + 1) * I ≤ q * I := Nat.mul_le_mul_right I hmq
      have := offsetOf_mono es ((p + 1) * I) es.length (by omega)
      omega
    have hv : vsizeof ((entry start I es (p + 1)).fileIndex - (entry start I es p).fileIndex) =
        (vwrite (stepOf I es p)).length := by
      rw [vwrite_length_eq_vsizeof _ hsb]; rfl
    simp only [hch, ne_eq, not_false_eq_true, if_true, hle, hv]
    rw [tailLen_pred I es q p hmq]
    have hpop : q - (p + 1) + 1 = q - p := by omega
    rw [hpop]
  | succ d ih =>
    intro m hm hmq
    obtain ⟨p, rfl⟩ : ∃ p, m = p + 1 := ⟨m - 1, by omega⟩
    rw [List.range_succ, List.map_append, List.reverse_append]
    simp only [List.map_cons, List.map_nil, List.reverse_cons, List.reverse_nil, List.nil_append, List.cons_append]
    unfold findIdxGo
    have hch : (entry start I es p).logIndex ≠ (entry start I es (p + 1)).logIndex := by
      unfold entry; simp only; rw [Nat.succ_mul]; omega
    have hnle : ¬ ((entry start I es p).logIndex ≤ k) := by
      intro h
      have := (hjs p).mp h
      omega
    have hsb : stepOf I es p < 2 ^ 64 := by
      unfold stepOf
      have : (p + 1) * I ≤ q * I := Nat.mul_le_mul_right I hmq
      have := offsetOf_mono es ((p + 1) * I) es.length (by omega)
      omega
    have hv : vsizeof ((entry start I es (p + 1)).fileIndex - (entry start I es p).fileIndex) =
        (vwrite (stepOf I es p)).length := by
      rw [vwrite_length_eq_vsizeof _ hsb]; rfl
    simp only [hch, ne_eq, not_false_eq_true, if_true, hnle, if_false, hv]
    rw [← tailLen_pred I es q p hmq]
    have hpop : q - (p + 1) + 1 = q - p := by omega
    rw [hpop]
    exact ih p (by omega) (by omega)

end RNacos.LogFile

namespace RNacos.LogFile
open RNacos.Varint RNacos.Spec.Stream RNacos.FileReader RNacos.BufReader

/-- **`get_file_index_by_log_index`** for a cut at `k` inside the file: the entry of `k`'s block, the bytes
of the index entries behind it, and their number -/
theorem findIdx_layout (f : LogFile) (es : List Rec) (k : Nat) (hI : 0 < f.interval)
    (hidx : f.indexs = idxList f.startIndex f.interval es) (hbound : offsetOf es es.length < 2 ^ 64)
    (hs : f.startIndex ≤ k) (hlt : k < f.startIndex + es.length) :
    findIdx f k = some (entry f.startIndex f.interval es ((k - f.startIndex) / f.interval),
      tailLen f.interval es (es.length / f.interval) ((k - f.startIndex) / f.interval),
      es.length / f.interval - (k - f.startIndex) / f.interval) := by
  have hq : es.length / f.interval * f.interval ≤ es.length := Nat.div_mul_le_self _ _
  have hjs : ∀ j, f.startIndex + j * f.interval ≤ k ↔ j ≤ (k - f.startIndex) / f.interval := by
    intro j; rw [Nat.le_div_iff_mul_le hI]; omega
  have hjq : (k - f.startIndex) / f.interval ≤ es.length / f.interval := Nat.div_le_div_right (by omega)
  unfold findIdx lastIdx
  rw [hidx, idxList_eq, List.range_succ, List.map_append]
  simp only [List.map_cons, List.map_nil, List.getLast?_append, List.getLast?_singleton, Option.some_or,
    Option.getD_some, List.reverse_append, List.reverse_cons, List.reverse_nil, List.nil_append, List.cons_append]
  unfold findIdxGo
  simp only [ne_eq, not_true_eq_false, if_false]
  by_cases hlast : (k - f.startIndex) / f.interval = es.length / f.interval
  · have hle : (entry f.startIndex f.interval es (es.length / f.interval)).logIndex ≤ k :=
      (hjs _).mpr (by omega)
    simp only [hle, if_true]
    rw [hlast]; simp [tailLen]
  · have hnle : ¬ ((entry f.startIndex f.interval es (es.length / f.interval)).logIndex ≤ k) := by
      intro h; have := (hjs _).mp h; omega
    simp only [hnle, if_false]
    have h := findIdxGo_layout f.startIndex f.interval es (es.length / f.interval)
      ((k - f.startIndex) / f.interval) k hI hq hbound hjs
      (es.length / f.interval - (k - f.startIndex) / f.interval - 1) (es.length / f.interval) (by omega) (Nat.le_refl _)
    have ht : tailLen f.interval es (es.length / f.interval) (es.length / f.interval) = 0 := by simp [tailLen]
    rw [ht, Nat.sub_self] at h
    exact h

end RNacos.LogFile
