import RNacos.Lemmas.LogLayout
/-
Scanning and reading a log file whose bytes follow the layout (C02/C03 helper lemmas).
-/
namespace RNacos.LogFile
open RNacos.Varint RNacos.Spec.Stream RNacos.FileReader RNacos.BufReader
open RNacos.IndexFile (writeAt)

def frameOf (r : Rec) : List Nat := frame (recBody r)

theorem flatten_frames (es : List Rec) : (es.map frameOf).flatten = dataBytes es := by
  simp only [dataBytes, frames, List.map_map]; rfl

/-- **the scan finds exactly the records**: from the start of a record run followed by zeros, at most
`count` of them, never fewer – whatever precedes the run -/
theorem scanFrames_layout (pre z : List Nat) (es : List Rec) (count : Nat)
    (hok : ∀ r ∈ es, RecOK r) (hz : AllZero z) :
    scanFrames (pre ++ (dataBytes es ++ z)) pre.length count = (es.map frameOf).take count := by
  unfold scanFrames
  simp only [List.drop_left]
  have h := specDecode_stream (es.map recBody) z (dataBytes es ++ z).length (bodiesOK_of_recOK es hok) hz.tailOK
    (by have := dataBytes_length_ge es; simp at this ⊢; omega)
  rw [stream_eq] at h
  unfold dataBytes at h ⊢
  rw [h, List.map_map]; rfl

theorem take_map_frameOf_flatten (es : List Rec) (c : Nat) :
    ((es.map frameOf).take c).flatten = dataBytes (es.take c) := by
  rw [← List.map_take, flatten_frames]

/-- `move_to_index_by_count` from the start of a record run -/
theorem moveByCount_layout (pre z : List Nat) (es : List Rec) (li start count : Nat)
    (hok : ∀ r ∈ es, RecOK r) (hz : AllZero z) :
    moveByCount (pre ++ (dataBytes es ++ z)) ⟨li, pre.length⟩ start count =
      (pre.length + (dataBytes (es.take count)).length, li - start + min count es.length) := by
  unfold moveByCount
  simp only
  rw [scanFrames_layout pre z es count hok hz, take_map_frameOf_flatten]
  simp

/-- decoding the frames written for a list of records gives the records -/
theorem mapM_decFrame (es : List Rec) (hok : ∀ r ∈ es, RecOK r) :
    (es.map frameOf).mapM decFrame = some es := by
  induction es with
  | nil => rfl
  | cons r rs ih =>
    rw [List.map_cons, List.mapM_cons]
    unfold frameOf at ih ⊢
    rw [decFrame_frame r (hok r (by simp)), ih (fun x hx => hok x (by simp [hx]))]
    rfl

/-- `read_index_position(i)` from the start of a record run: the position of record `i` -/
theorem readIndexPosition_layout (pre z : List Nat) (es : List Rec) (i : Nat) (hi : i < es.length)
    (hok : ∀ r ∈ es, RecOK r) (hz : AllZero z) :
    (readIndexPosition i ⟨pre ++ (dataBytes es ++ z), pre.length⟩).map (·.1.1) =
      some (pre.length + (dataBytes (es.take i)).length) := by
  have h := readIndexPosition_stream (es.map recBody) i pre z (bodiesOK_of_recOK es hok) hz.tailOK
  rw [stream_eq] at h
  have hi' : i < (es.map recBody).length := by simpa using hi
  simp only [hi', dite_true] at h
  unfold dataBytes
  cases hr : readIndexPosition i ⟨pre ++ (frames (es.map recBody) ++ z), pre.length⟩ with
  | none => rw [hr] at h; simp at h
  | some v =>
    rw [hr] at h
    simp only [Option.map_some, Option.some.injEq] at h ⊢
    rw [h, List.map_take]

end RNacos.LogFile
