import RNacos.Model.LogFile
import RNacos.Lemmas.Varint
import RNacos.Lemmas.FileReader
/-
The `LogRecord` codec: what `write_message` writes is what `read_message` reads (C02/C03 helper lemmas).
-/
namespace RNacos.LogFile
open RNacos.Varint RNacos.Spec.Stream RNacos.FileReader
open RNacos.IndexFile (pVarint pBytes)

/-- a record the store can hold: u64 fields, a body whose length fits the prefix, and a non-zero index
(raft indexes start at 1; a record with index 0, term 0 and no payload would encode to the end marker) -/
def RecOK (r : Rec) : Prop :=
  0 < r.index ∧ r.index < 2 ^ 64 ∧ r.term < 2 ^ 64 ∧ r.value.length < 2 ^ 64 ∧ (recBody r).length < 2 ^ 64

theorem vlen_vwrite (v : Nat) (rest : List Nat) (hv : v < 2 ^ 64) :
    vlen (vwrite v ++ rest) = some (vwrite v).length := by
  have : v < 128 ^ (9 + 1) := by have := pow64_lt; omega
  exact vlen_vwriteF 9 v rest this

theorem parseRec_nil (f : Nat) : parseRec f [] = some [] := by
  cases f <;> simp [parseRec]

/-- one varint field in front -/
theorem parseRec_varint (f tag v : Nat) (rest : List Nat) (ht : tag < 128) (h8 : tag % 8 = 0) (hv : v < 2 ^ 64) :
    parseRec (f + 1) (tag :: (vwrite v ++ rest)) = (parseRec f rest).map (RField.v tag v :: ·) := by
  conv => lhs; unfold parseRec
  have h1 : vlen (tag :: (vwrite v ++ rest)) = some 1 := by simp [vlen, ht]
  have h2 : vreadGo 10 (tag :: (vwrite v ++ rest)) = .ok tag := by simp [vreadGo, ht]
  simp only [List.isEmpty_cons, Bool.false_eq_true, if_false, h1, h2, h8, if_true, List.drop_succ_cons, List.drop_zero]
  rw [vlen_vwrite v rest hv, vreadGo_vwrite v rest hv]
  simp

/-- one length-delimited field in front -/
theorem parseRec_bytes (f tag : Nat) (b rest : List Nat) (ht : tag < 128) (h8 : tag % 8 = 2) (hb : b.length < 2 ^ 64) :
    parseRec (f + 1) (tag :: (vwrite b.length ++ (b ++ rest))) = (parseRec f rest).map (RField.b tag b :: ·) := by
  conv => lhs; unfold parseRec
  have h1 : vlen (tag :: (vwrite b.length ++ (b ++ rest))) = some 1 := by simp [vlen, ht]
  have h2 : vreadGo 10 (tag :: (vwrite b.length ++ (b ++ rest))) = .ok tag := by simp [vreadGo, ht]
  have h0 : ¬ (tag % 8 = 0) := by omega
  simp only [List.isEmpty_cons, Bool.false_eq_true, if_false, h1, h2, h0, h8, if_true, List.drop_succ_cons,
    List.drop_zero]
  rw [vlen_vwrite b.length (b ++ rest) hb, vreadGo_vwrite b.length (b ++ rest) hb]
  simp

theorem vwrite_small (t : Nat) (h : t < 128) : vwrite t = [t] := by
  unfold vwrite vwriteF
  have : ¬ (t > 0x7F) := by omega
  simp [this]

/-- **record round trip**: decoding the body written for `r` gives `r` back -/
theorem decRec_recBody (r : Rec) (h : RecOK r) : decRec (recBody r) = some r := by
  obtain ⟨hi0, hi, ht, hv, _⟩ := h
  unfold decRec recBody pVarint pBytes
  have hi0' : ¬ (r.index = 0) := by omega
  simp only [hi0', if_false]
  rw [vwrite_small 8 (by omega), vwrite_small 16 (by omega), vwrite_small 42 (by omega)]
  -- the fuel: the body has at least as many bytes as fields
  generalize hfuel : ([8] ++ vwrite r.index ++ (if r.term = 0 then [] else [16] ++ vwrite r.term) ++
      if r.value.isEmpty = true then [] else [42] ++ vwrite r.value.length ++ r.value).length = fuel
  have hf3 : 3 ≤ fuel ∨ True := Or.inr trivial
  cases r with
  | mk index term value =>
  simp only at hi0 hi ht hv hi0' hfuel ⊢
  by_cases hterm : term = 0 <;> by_cases hval : value.isEmpty = true
  · -- index only
    simp only [hterm, hval, if_true, List.append_nil] at hfuel ⊢
    have hfl : fuel = (0 : Nat) + 1 + (fuel - 1) := by
      have := vwrite_length_pos index; simp at hfuel; omega
    obtain ⟨g, hg⟩ : ∃ g, fuel = g + 1 := ⟨fuel - 1, by omega⟩
    subst hg
    have := parseRec_varint g 8 index [] (by omega) (by omega) hi
    simp only [List.append_nil] at this
    simp only [List.singleton_append]
    rw [this, parseRec_nil]
    have hve : value = [] := by simpa using hval
    simp [lastV, lastB, Nat.mod_eq_of_lt hi, hve]
  · -- index, value
    simp only [hterm, hval, if_true, if_false, List.append_nil, Bool.false_eq_true] at hfuel ⊢
    obtain ⟨g, hg⟩ : ∃ g, fuel = g + 1 + 1 := ⟨fuel - 2, by
      have := vwrite_length_pos index; simp at hfuel; omega⟩
    subst hg
    simp only [List.singleton_append, List.cons_append, List.append_assoc, List.nil_append]
    rw [parseRec_varint (g + 1) 8 index _ (by omega) (by omega) hi]
    have hb := parseRec_bytes g 42 value [] (by omega) (by omega) hv
    simp only [List.append_nil] at hb
    rw [hb, parseRec_nil]
    simp [lastV, lastB, Nat.mod_eq_of_lt hi]
  · -- index, term
    simp only [hterm, hval, if_true, if_false, List.append_nil] at hfuel ⊢
    obtain ⟨g, hg⟩ : ∃ g, fuel = g + 1 + 1 := ⟨fuel - 2, by
      have := vwrite_length_pos index; have := vwrite_length_pos term; simp at hfuel; omega⟩
    subst hg
    simp only [List.singleton_append, List.cons_append, List.append_assoc, List.nil_append]
    rw [parseRec_varint (g + 1) 8 index _ (by omega) (by omega) hi]
    have := parseRec_varint g 16 term [] (by omega) (by omega) ht
    simp only [List.append_nil] at this
    rw [this, parseRec_nil]
    have hve : value = [] := by simpa using hval
    simp [lastV, lastB, Nat.mod_eq_of_lt hi, Nat.mod_eq_of_lt ht, hve]
  · -- index, term, value
    simp only [hterm, hval, if_false, Bool.false_eq_true] at hfuel ⊢
    obtain ⟨g, hg⟩ : ∃ g, fuel = g + 1 + 1 + 1 := ⟨fuel - 3, by
      have := vwrite_length_pos index; have := vwrite_length_pos term; simp at hfuel; omega⟩
    subst hg
    simp only [List.singleton_append, List.cons_append, List.append_assoc, List.nil_append]
    rw [parseRec_varint (g + 2) 8 index _ (by omega) (by omega) hi]
    rw [parseRec_varint (g + 1) 16 term _ (by omega) (by omega) ht]
    have hb := parseRec_bytes g 42 value [] (by omega) (by omega) hv
    simp only [List.append_nil] at hb
    rw [hb, parseRec_nil]
    simp [lastV, lastB, Nat.mod_eq_of_lt hi, Nat.mod_eq_of_lt ht]

theorem recBody_pos (r : Rec) (h : RecOK r) : 0 < (recBody r).length := by
  unfold recBody pVarint
  have : ¬ (r.index = 0) := by have := h.1; omega
  simp only [this, if_false, List.length_append]
  have := vwrite_length_pos 8
  omega

/-- **frame round trip**: `read_message` on the frame written for `r` -/
theorem decFrame_frame (r : Rec) (h : RecOK r) : decFrame (frame (recBody r)) = some r := by
  unfold decFrame frame
  have hl := h.2.2.2.2
  rw [vlen_vwrite _ _ hl, vreadGo_vwrite _ _ hl]
  simp only [List.drop_left, List.take_length]
  exact decRec_recBody r h

end RNacos.LogFile
