import RNacos.Lemmas.LogIndex
/-
The representation invariant of a log file (`WF f es`: the file `f` holds exactly the entries `es`) and
its preservation by `create` and `write`.
-/
namespace RNacos.LogFile
open RNacos.Varint RNacos.Spec.Stream RNacos.FileReader RNacos.BufReader
open RNacos.IndexFile (writeAt)

structure WF (f : LogFile) (es : List Rec) : Prop where
  recs : ∀ r ∈ es, RecOK r
  idx : ∀ i (h : i < es.length), es[i].index = f.startIndex + i
  ivl : 0 < f.interval
  ivl16 : f.interval < 65536
  area : f.areaEnd ≤ dataStart
  first : f.firstIndex = f.startIndex
  split : f.startIndex ≤ f.splitOff
  bound : offsetOf es es.length < 2 ^ 64
  msg : f.msgCount = es.length
  cur : f.curCount = es.length % f.interval
  dc : f.dataCursor = offsetOf es es.length
  indexs : f.indexs = idxList f.startIndex f.interval es
  ic : f.indexCursor = 32 + (idxBytes f.interval es).length
  icEnd : f.indexCursor < f.areaEnd
  room : ∀ j, j < es.length / f.interval → 32 + (idxBytesUpTo f.interval es j).length + 10 < f.areaEnd
  bytes : ∃ z1 z2, f.bytes = header f.hdrTerm f.firstIndex f.interval f.areaEnd ++ (idxBytes f.interval es ++ z1) ++
      (dataBytes es ++ z2) ∧ AllZero z1 ∧ AllZero z2 ∧ 32 + (idxBytes f.interval es).length + z1.length = dataStart
  posOK : f.needSeek = true ∨ f.pos = f.dataCursor
  hdrOK : f.hdrTerm < 2 ^ 64 ∧ f.firstIndex < 2 ^ 64

theorem beN_length (w n : Nat) : (beN w n).length = w := by simp [beN]

theorem header_length (a b c d : Nat) : (header a b c d).length = 32 := by
  simp [header, beN_length]

/-! ### arithmetic of the index step -/

theorem succ_div_mod_lt (n I : Nat) (h : n % I + 1 < I) : (n + 1) / I = n / I ∧ (n + 1) % I = n % I + 1 := by
  have hI : 0 < I := by omega
  have hn := Nat.div_add_mod n I
  have e : n + 1 = I * (n / I) + (n % I + 1) := by omega
  rw [e, Nat.mul_add_div hI, Nat.mul_add_mod, Nat.div_eq_of_lt h, Nat.mod_eq_of_lt h]
  omega

theorem succ_div_mod_eq (n I : Nat) (hI : 0 < I) (h : n % I + 1 = I) :
    (n + 1) / I = n / I + 1 ∧ (n + 1) % I = 0 ∧ n + 1 = (n / I + 1) * I := by
  have hn := Nat.div_add_mod n I
  have e : n + 1 = I * (n / I + 1) := by rw [Nat.mul_add]; omega
  refine ⟨?_, ?_, ?_⟩
  · rw [e, Nat.mul_div_cancel_left _ hI]
  · rw [e, Nat.mul_mod_right]
  · rw [e, Nat.mul_comm]

/-! ### a new file -/

theorem create_wf (start pre split I A : Nat) (hI : 0 < I) (hI16 : I < 65536) (hA : 42 ≤ A) (hA2 : A ≤ dataStart)
    (hs : start < 2 ^ 64) (hp : pre < 2 ^ 64) : WF (create start pre split I A) [] := by
  refine { recs := by simp, idx := by simp, ivl := hI, ivl16 := hI16, area := hA2, first := rfl,
           split := by simp only [create]; omega, bound := by simp [offsetOf, dataBytes, frames, dataStart],
           msg := rfl, cur := by simp [create], dc := by simp [create, offsetOf, dataBytes, frames],
           indexs := by simp [create, idxList, offsetOf_zero], ic := by simp [create, idxBytes, idxBytesUpTo],
           icEnd := by simp [create]; omega, room := by simp,
           bytes := ?_, posOK := Or.inr rfl, hdrOK := ⟨hp, hs⟩ }
  refine ⟨List.replicate (dataStart - 32) 0, [], ?_, allZero_replicate _, by intro b hb; simp at hb, ?_⟩
  · show header pre start I A ++ List.replicate (dataStart - 32) 0 = _
    simp only [idxBytes, idxBytesUpTo, dataBytes, frames, List.range_zero, List.flatMap_nil, List.length_nil,
      Nat.zero_div, List.map_nil, List.flatten_nil, List.nil_append, List.append_nil]
    rfl
  · simp only [idxBytes, idxBytesUpTo, List.length_nil, Nat.zero_div, List.range_zero, List.flatMap_nil,
      List.length_replicate, dataStart]

end RNacos.LogFile

namespace RNacos.LogFile
open RNacos.Varint RNacos.Spec.Stream RNacos.FileReader RNacos.BufReader
open RNacos.IndexFile (writeAt)

/-! ### the two writes of `write` on the layout -/

theorem data_write (H IB z1 DB z2 buf : List Nat) (p : Nat) (hH : H.length = 32)
    (hsum : 32 + IB.length + z1.length = dataStart) (hp : p = dataStart + DB.length) :
    writeAt (H ++ (IB ++ z1) ++ (DB ++ z2)) p buf = H ++ (IB ++ z1) ++ ((DB ++ buf) ++ z2.drop buf.length) := by
  have e : H ++ (IB ++ z1) ++ (DB ++ z2) = (H ++ (IB ++ z1) ++ DB) ++ z2 := by simp
  rw [e, writeAt_append' _ _ _ p (by simp [hH]; omega)]
  simp

theorem index_write (H IB z1 X delta : List Nat) (ic : Nat) (hH : H.length = 32) (hic : ic = 32 + IB.length)
    (hd : delta.length ≤ z1.length) :
    writeAt (H ++ (IB ++ z1) ++ X) ic delta = H ++ ((IB ++ delta) ++ z1.drop delta.length) ++ X := by
  have e : H ++ (IB ++ z1) ++ X = (H ++ IB) ++ (z1 ++ X) := by simp
  rw [e, writeAt_append' _ _ _ ic (by simp [hH]; omega), List.drop_append_of_le_length hd]
  simp

/-- entries of `es ++ [r]` that lie inside `es` are those of `es` -/
theorem idxBytesUpTo_snoc (I : Nat) (es : List Rec) (r : Rec) (q : Nat) (hq : q * I ≤ es.length) :
    idxBytesUpTo I (es ++ [r]) q = idxBytesUpTo I es q := by
  apply idxBytesUpTo_congr
  intro j hj
  have : j * I ≤ q * I := Nat.mul_le_mul_right I hj
  exact offsetOf_append es [r] (j * I) (by omega)

theorem entry_snoc (start I : Nat) (es : List Rec) (r : Rec) (j : Nat) (hj : j * I ≤ es.length) :
    entry start I (es ++ [r]) j = entry start I es j := by
  unfold entry; rw [offsetOf_append es [r] (j * I) hj]

theorem map_entry_snoc (start I : Nat) (es : List Rec) (r : Rec) (n : Nat) (hn : n ≤ es.length / I + 1) :
    (List.range n).map (entry start I (es ++ [r])) = (List.range n).map (entry start I es) := by
  apply List.map_congr_left
  intro j hj
  have hj' : j < n := List.mem_range.mp hj
  apply entry_snoc
  have : j * I ≤ es.length / I * I := Nat.mul_le_mul_right I (by omega)
  have := Nat.div_mul_le_self es.length I
  omega

theorem offsetOf_snoc_end (es : List Rec) (r : Rec) :
    offsetOf (es ++ [r]) (es ++ [r]).length = offsetOf es es.length + (frame (recBody r)).length := by
  unfold offsetOf
  rw [List.take_length, List.take_length, dataBytes_append, dataBytes_single, List.length_append]
  omega

end RNacos.LogFile

namespace RNacos.LogFile
open RNacos.Varint RNacos.Spec.Stream RNacos.FileReader RNacos.BufReader
open RNacos.IndexFile (writeAt)

theorem lastIdx_wf (f : LogFile) (es : List Rec) (h : WF f es) :
    lastIdx f = entry f.startIndex f.interval es (es.length / f.interval) := by
  unfold lastIdx
  rw [h.indexs, idxList_eq, List.range_succ, List.map_append]
  simp

theorem endIndex_wf (f : LogFile) (es : List Rec) (h : WF f es) : endIndex f = f.startIndex + es.length := by
  unfold endIndex; rw [h.msg]

/-- **append**: a contiguous record written into a file that is not full -/
theorem write_wf (f : LogFile) (es : List Rec) (r : Rec) (h : WF f es) (hfull : isFull f = false)
    (hidx : r.index = endIndex f) (hr : RecOK r)
    (hsz : f.dataCursor + (frame (recBody r)).length < 2 ^ 64) :
    WF (write f r).1 (es ++ [r]) ∧ (write f r).1.lastTerm = r.term ∧
      ((write f r).2 = .success ∨ (write f r).2 = .successToEnd) := by
  obtain ⟨z1, z2, hb, hz1, hz2, hsum⟩ := h.bytes
  have hH := header_length f.hdrTerm f.firstIndex f.interval f.areaEnd
  have hp : (if f.needSeek = true then f.dataCursor else f.pos) = dataStart + (dataBytes es).length := by
    have hdc : f.dataCursor = dataStart + (dataBytes es).length := by
      rw [h.dc]; unfold offsetOf; rw [List.take_length]
    rcases h.posOK with hs | hs
    · simp [hs, hdc]
    · split
      · exact hdc
      · rw [hs, hdc]
  have hroomI : f.indexCursor + 10 < f.areaEnd := by
    unfold isFull at hfull
    simp only [Bool.or_eq_false_iff, decide_eq_false_iff_not] at hfull
    omega
  have hend := endIndex_wf f es h
  have hne : ¬ (endIndex f ≠ r.index) := by simp [hidx]
  -- the data write
  have hbytes1 := data_write _ (idxBytes f.interval es) z1 (dataBytes es) z2 (frame (recBody r)) _ hH hsum hp
  rw [← hb] at hbytes1
  have hdb : dataBytes es ++ frame (recBody r) = dataBytes (es ++ [r]) := by
    rw [dataBytes_append, dataBytes_single]
  rw [hdb] at hbytes1
  have hoff := offsetOf_snoc_end es r
  have hrecs : ∀ x ∈ es ++ [r], RecOK x := by
    intro x hx; rcases List.mem_append.mp hx with hx | hx
    · exact h.recs x hx
    · simp at hx; subst hx; exact hr
  have hidxs : ∀ i (hi : i < (es ++ [r]).length), (es ++ [r])[i].index = f.startIndex + i := by
    intro i hi
    by_cases hlt : i < es.length
    · rw [List.getElem_append_left hlt]; exact h.idx i hlt
    · have : i = es.length := by simp at hi; omega
      subst this
      rw [List.getElem_append_right (by omega)]
      simp [hidx, hend]
  have hqle : es.length / f.interval * f.interval ≤ es.length := Nat.div_mul_le_self _ _
  unfold write
  simp only [hfull, Bool.false_eq_true, if_false, hne]
  by_cases hstep : f.curCount + 1 = f.interval
  · -- the record completes an index step
    simp only [hstep, if_true]
    have hmod : es.length % f.interval + 1 = f.interval := by rw [← h.cur]; exact hstep
    obtain ⟨hdiv, hmod', hlen⟩ := succ_div_mod_eq es.length f.interval h.ivl hmod
    have hlen' : (es ++ [r]).length = (es.length / f.interval + 1) * f.interval := by simp; exact hlen
    -- the step that is written
    have hdelta : f.dataCursor + (frame (recBody r)).length - (lastIdx f).fileIndex =
        stepOf f.interval (es ++ [r]) (es.length / f.interval) := by
      rw [lastIdx_wf f es h]
      unfold stepOf entry
      simp only
      rw [← hlen', hoff, ← h.dc, offsetOf_append es [r] _ hqle]
    simp only [hdelta]
    have hsb : stepOf f.interval (es ++ [r]) (es.length / f.interval) < 2 ^ 64 := by
      rw [← hdelta]; omega
    have hdl : (vwrite (stepOf f.interval (es ++ [r]) (es.length / f.interval))).length ≤ z1.length := by
      have := vwrite_length_le (stepOf f.interval (es ++ [r]) (es.length / f.interval))
      have := h.ic; have := h.area; omega
    have hib : idxBytes f.interval (es ++ [r]) =
        idxBytes f.interval es ++ vwrite (stepOf f.interval (es ++ [r]) (es.length / f.interval)) := by
      unfold idxBytes
      have : (es ++ [r]).length / f.interval = es.length / f.interval + 1 := by simp; exact hdiv
      rw [this, idxBytesUpTo_succ', idxBytesUpTo_snoc f.interval es r _ hqle]
    have hbytes2 := index_write _ (idxBytes f.interval es) z1 (dataBytes (es ++ [r]) ++ z2.drop (frame (recBody r)).length)
      (vwrite (stepOf f.interval (es ++ [r]) (es.length / f.interval))) f.indexCursor hH h.ic hdl
    rw [← hbytes1, ← hib] at hbytes2
    refine ⟨?_, by first | rfl | trivial, ?_⟩
    · refine { recs := hrecs, idx := hidxs, ivl := h.ivl, ivl16 := h.ivl16, area := h.area, first := h.first,
               split := h.split, bound := by rw [hoff, ← h.dc]; exact hsz,
               msg := by simp [h.msg], cur := by simp; exact hmod'.symm,
               dc := by simp only; rw [hoff, h.dc],
               indexs := ?_, ic := ?_, icEnd := ?_, room := ?_, bytes := ?_, posOK := Or.inr ?_, hdrOK := h.hdrOK }
      · -- index list
        simp only
        rw [h.indexs, idxList_eq, idxList_eq]
        have : (es ++ [r]).length / f.interval = es.length / f.interval + 1 := by simp; exact hdiv
        rw [this, List.range_succ (n := es.length / f.interval + 1), List.map_append,
          map_entry_snoc f.startIndex f.interval es r _ (Nat.le_refl _)]
        simp only [List.map_cons, List.map_nil]
        congr 2
        unfold entry
        rw [← hlen', hoff, h.first, h.msg, h.dc]
        congr 1
        simp; omega
      · simp only; rw [hib, h.ic, List.length_append]; omega
      · simp only
        have := vwrite_length_le (stepOf f.interval (es ++ [r]) (es.length / f.interval))
        omega
      · intro j hj
        simp only at hj ⊢
        have hdiv' : (es ++ [r]).length / f.interval = es.length / f.interval + 1 := by simp; exact hdiv
        rw [hdiv'] at hj
        rw [idxBytesUpTo_congr f.interval es (es ++ [r]) j (fun i hi => by
          apply offsetOf_append
          have : i * f.interval ≤ es.length / f.interval * f.interval := Nat.mul_le_mul_right _ (by omega)
          omega)]
        by_cases hjq : j < es.length / f.interval
        · exact h.room j hjq
        · have : j = es.length / f.interval := by omega
          subst this
          have := h.ic
          unfold idxBytes at this
          omega
      · refine ⟨z1.drop (vwrite (stepOf f.interval (es ++ [r]) (es.length / f.interval))).length,
          z2.drop (frame (recBody r)).length, ?_, hz1.drop _, hz2.drop _, ?_⟩
        · simp only; exact hbytes2
        · simp only [List.length_drop]; rw [hib, List.length_append]; omega
      · simp only; rw [hp, h.dc]; unfold offsetOf; rw [List.take_length]
    · split <;> simp
  · -- no index entry is due
    simp only [hstep, if_false]
    have hmod : es.length % f.interval + 1 < f.interval := by
      have := Nat.mod_lt es.length h.ivl
      have := h.cur; omega
    obtain ⟨hdiv, hmod'⟩ := succ_div_mod_lt es.length f.interval hmod
    have hdiv' : (es ++ [r]).length / f.interval = es.length / f.interval := by simp; exact hdiv
    have hib : idxBytes f.interval (es ++ [r]) = idxBytes f.interval es := by
      unfold idxBytes; rw [hdiv', idxBytesUpTo_snoc f.interval es r _ hqle]
    refine ⟨?_, by first | rfl | trivial, ?_⟩
    · refine { recs := hrecs, idx := hidxs, ivl := h.ivl, ivl16 := h.ivl16, area := h.area, first := h.first,
               split := h.split, bound := by rw [hoff, ← h.dc]; exact hsz,
               msg := by simp [h.msg], cur := by simp; rw [hmod', h.cur],
               dc := by simp only; rw [hoff, h.dc],
               indexs := ?_, ic := ?_, icEnd := h.icEnd, room := ?_, bytes := ?_, posOK := Or.inr ?_, hdrOK := h.hdrOK }
      · simp only
        rw [h.indexs, idxList_eq, idxList_eq, hdiv', map_entry_snoc f.startIndex f.interval es r _ (Nat.le_refl _)]
      · simp only; rw [hib, h.ic]
      · intro j hj
        simp only at hj ⊢
        rw [hdiv'] at hj
        rw [idxBytesUpTo_congr f.interval es (es ++ [r]) j (fun i hi => by
          apply offsetOf_append
          have : i * f.interval ≤ es.length / f.interval * f.interval := Nat.mul_le_mul_right _ (by omega)
          omega)]
        exact h.room j hj
      · refine ⟨z1, z2.drop (frame (recBody r)).length, ?_, hz1, hz2.drop _, ?_⟩
        · simp only; rw [hib]; exact hbytes1
        · rw [hib]; exact hsum
      · simp only; rw [hp, h.dc]; unfold offsetOf; rw [List.take_length]
    · split <;> simp

end RNacos.LogFile
