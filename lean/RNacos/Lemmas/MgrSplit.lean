import RNacos.Lemmas.MgrStrip
/-
`RaftLogManager::split_off` and `save_new_snapshot_pointer` refine the list specification's `savePointer`:
everything up to the pointer's index disappears, the pointer takes its place, the rest is untouched.
-/
namespace RNacos.LogManager
open RNacos.LogStore (Ent Kind)

theorem splitLoop_cons (k : Nat) (f : File) (fs : List File) :
    splitLoop k (f :: fs) =
      (if !(belowRangeEnd k f) then ((splitLoop k fs).1 + 1, f :: (splitLoop k fs).2)
       else if k > f.splitOff then (0, { f with splitOff := k } :: fs)
       else ((splitLoop k fs).1, f :: (splitLoop k fs).2)) := rfl

/-- files that reach beyond the split point and are already split at or above it are left alone -/
theorem splitLoop_noop (k : Nat) (gs : List File) (h : ∀ g ∈ gs, belowRangeEnd k g = true ∧ k ≤ g.splitOff) :
    splitLoop k gs = (0, gs) := by
  induction gs with
  | nil => rfl
  | cons g gs ih =>
    have hg := h g (by simp)
    rw [splitLoop_cons, ih (fun x hx => h x (by simp [hx]))]
    simp [hg.1, Nat.not_lt.2 hg.2]

theorem chain_drop (pre : List File) (c : File) (post : List File) (h : Chain (pre ++ c :: post)) : Chain (c :: post) := by
  induction pre with
  | nil => simpa using h
  | cons y ys ih =>
    cases ys with
    | nil => simp only [List.cons_append, List.nil_append, Chain] at h; exact h.2.2.2
    | cons z zs => simp only [List.cons_append, Chain] at h; exact ih (by simpa using h.2.2.2)

/-- closed files have `rangeEnd = endIdx` -/
theorem rangeEnd_closed (f : File) (h : Closed f) : rangeEnd f = some (endIdx f) := by
  simp [rangeEnd, h.1, h.2, endIdx]

theorem below_open (k : Nat) (f : File) (h : f.closed = false) : belowRangeEnd k f = true := by
  simp [belowRangeEnd, rangeEnd, h]

theorem below_closed (k : Nat) (f : File) (h : Closed f) : belowRangeEnd k f = decide (k < endIdx f) := by
  simp [belowRangeEnd, rangeEnd_closed f h]

theorem chain_closed_count (fs : List File) (hc : Chain fs) : ∀ x ∈ fs, x.closed = true → x.count = x.recs.length := by
  induction fs with
  | nil => simp
  | cons a r ih =>
    cases r with
    | nil => simp only [Chain] at hc; intro x hx hxc; simp at hx; subst hx; simp [hc.2] at hxc
    | cons b r =>
      simp only [Chain] at hc
      intro x hx hxc
      rcases List.mem_cons.1 hx with rfl | hx
      · exact hc.1.2
      · exact ih hc.2.2.2 x hx hxc

/-- shape of `split_off`'s loop on a well-formed catalogue -/
theorem splitLoop_shape (k : Nat) (fs : List File) (hc : Chain fs) (hne : fs ≠ [])
    (hend : ∀ l, fs.getLast? = some l → k ≤ endIdx l) :
    ∃ pre c post, fs = pre ++ c :: post ∧ (∀ p ∈ pre, endIdx p ≤ k) ∧
      (post ≠ [] → k < endIdx c) ∧ (post = [] → k ≤ endIdx c) ∧
      splitLoop k fs = (pre.length, pre ++ (if k > c.splitOff then { c with splitOff := k } else c) :: post) := by
  induction fs with
  | nil => exact absurd rfl hne
  | cons f r ih =>
    cases r with
    | nil =>
      simp only [Chain] at hc
      have hb := below_open k f hc.2
      refine ⟨[], f, [], rfl, by simp, by simp, fun _ => hend f rfl, ?_⟩
      rw [splitLoop_cons]; simp only [hb, Bool.not_true, Bool.false_eq_true, if_false]
      split <;> simp [splitLoop]
    | cons g r =>
      have hcc := hc
      simp only [Chain] at hc
      obtain ⟨hcl, hfi, hadj, hrest⟩ := hc
      have hb := below_closed k f hcl
      by_cases hcut : k < endIdx f
      · -- f is the first file that reaches beyond the split point
        refine ⟨[], f, g :: r, rfl, by simp, fun _ => hcut, by simp, ?_⟩
        rw [splitLoop_cons]
        simp only [hb, hcut, decide_true, Bool.not_true, Bool.false_eq_true, if_false]
        by_cases hks : k > f.splitOff
        · simp [hks]
        · -- f is already split at or above k: the later files lie above it and are left alone
          have hnoop : splitLoop k (g :: r) = (0, g :: r) := by
            apply splitLoop_noop
            intro x hx
            have hm := chain_split_mono g r hrest x hx
            have hxi := chain_mem_inv (g :: r) hrest x hx
            have hxs : k ≤ x.splitOff := by omega
            refine ⟨?_, hxs⟩
            by_cases hxc : x.closed = true
            · have hhi := hxi.hi
              have hcount := chain_closed_count (g :: r) hrest x hx hxc
              simp only [belowRangeEnd, rangeEnd, hxc, if_true, hcount]
              simp only [endIdx] at hhi hm hadj hcut
              simp; omega
            · exact below_open k x (by simpa using hxc)
          simp [hks, hnoop]
      · -- f ends at or below the split point: it is removed
        have hle : endIdx f ≤ k := Nat.not_lt.1 hcut
        obtain ⟨pre, c, post, hfs, hpre, hpost, hpost0, hloop⟩ :=
          ih hrest (by simp) (by intro l hl; exact hend l (by simpa [List.getLast?_cons_cons] using hl))
        refine ⟨f :: pre, c, post, by simp [hfs], ?_, hpost, hpost0, ?_⟩
        · intro p hp
          rcases List.mem_cons.1 hp with rfl | hp
          · exact hle
          · exact hpre p hp
        · rw [splitLoop_cons, hloop]
          have : decide (k < endIdx f) = false := by simp; omega
          simp [hb, this]

end RNacos.LogManager

namespace RNacos.LogManager
open RNacos.LogStore (Ent Kind)

theorem filter_visible_ge_below (p : File) (hp : FileInv p) (k : Nat) (hle : endIdx p ≤ k) :
    (visible p).filter (fun e => decide (k ≤ e.index)) = [] := by
  rw [List.filter_eq_nil_iff]
  intro e he
  have := (mem_visible_bounds p hp e he).2
  simp; omega

theorem filter_absEnts_ge_below (ps : List File) (k : Nat) (h : ∀ p ∈ ps, FileInv p ∧ endIdx p ≤ k) :
    (absEnts ps).filter (fun e => decide (k ≤ e.index)) = [] := by
  induction ps with
  | nil => rfl
  | cons p ps ih =>
    have hp := h p (by simp)
    simp only [absEnts, List.flatMap_cons, List.filter_append] at ih ⊢
    rw [filter_visible_ge_below p hp.1 k hp.2, ih (fun q hq => h q (by simp [hq]))]; rfl

theorem filter_absEnts_ge_above (gs : List File) (k : Nat) (h : ∀ g ∈ gs, k ≤ g.splitOff) :
    (absEnts gs).filter (fun e => decide (k ≤ e.index)) = absEnts gs := by
  rw [List.filter_eq_self]
  intro e he
  simp only [absEnts, List.mem_flatMap] at he
  obtain ⟨g, hg, heg⟩ := he
  simp only [visible, List.mem_filter, decide_eq_true_eq] at heg
  have := h g hg
  simp; omega

/-- **`split_off(k)`**, for a split point inside the log and at or above the first visible index: the entries below
`k` disappear, nothing else changes, the first remaining file is split exactly at `k` -/
theorem splitOff_spec (k : Nat) (fs : List File) (hc : Chain fs) (hne : fs ≠ [])
    (hend : ∀ l, fs.getLast? = some l → k ≤ endIdx l)
    (hlo : ∀ f0, fs.head? = some f0 → f0.splitOff ≤ k) :
    Chain (splitOffFs k fs) ∧
    absEnts (splitOffFs k fs) = (absEnts fs).filter (fun e => decide (k ≤ e.index)) ∧
    absNext (splitOffFs k fs) = absNext fs ∧
    (∃ c' post, splitOffFs k fs = c' :: post ∧ c'.splitOff = k) := by
  obtain ⟨pre, c, post, hfs, hpre, hpost, hpost0, hloop⟩ := splitLoop_shape k fs hc hne hend
  subst hfs
  obtain ⟨hPre, hci, hlast⟩ := chain_split pre c post hc
  have hcp := chain_drop pre c post hc
  -- the split point of c is at or below k
  have hck : c.splitOff ≤ k := by
    cases pre with
    | nil => exact hlo c rfl
    | cons y ys =>
      -- the last file of the prefix ends at c's split point
      rcases snoc_cases (y :: ys) with h | ⟨zs, z, h⟩
      · simp at h
      · rw [h] at hPre hpre
        have := (pre_snoc_iff zs z c.splitOff).1 hPre
        have hz := hpre z (by simp)
        omega
  have hke : k ≤ endIdx c := by
    by_cases hp : post = []
    · exact hpost0 hp
    · exact Nat.le_of_lt (hpost hp)
  have hres : splitOffFs k (pre ++ c :: post) = { c with splitOff := k } :: post := by
    simp only [splitOffFs, hloop, List.drop_left']
    by_cases hks : k > c.splitOff
    · simp [hks]
    · have : c.splitOff = k := by omega
      simp only [hks, if_false]
      congr 1
      cases c; simp_all
  rw [hres]
  have hci' : FileInv { c with splitOff := k } := ⟨hci.ok, by have := hci.lo; simp; omega, by simpa [endIdx] using hke⟩
  refine ⟨?_, ?_, ?_, ⟨_, post, rfl, rfl⟩⟩
  · -- the chain from c on, with c's split point moved
    cases post with
    | nil => simp only [Chain] at hcp ⊢; exact ⟨hci', hcp.2⟩
    | cons g r => simp only [Chain] at hcp ⊢; exact ⟨hcp.1, hci', by simpa [endIdx] using hcp.2.2.1, hcp.2.2.2⟩
  · have : pre ++ c :: post = pre ++ [c] ++ post := by simp
    rw [this]
    simp only [absEnts, List.flatMap_append, List.filter_append, List.flatMap_cons, List.flatMap_nil, List.append_nil]
    have h1 := filter_absEnts_ge_below pre k (fun q hq => ⟨(pre_mem pre _ hPre q hq).2.1, hpre q hq⟩)
    have h3 := filter_absEnts_ge_above post k (by
      intro g hg
      have := chain_split_mono c post hcp g (by simp [hg])
      -- g.splitOff ≥ endIdx c ≥ k: use the chain from c on
      cases post with
      | nil => simp at hg
      | cons g0 r =>
        simp only [Chain] at hcp
        have hm := chain_split_mono g0 r hcp.2.2.2 g hg
        have := hpost (by simp)
        omega)
    simp only [absEnts] at h1 h3
    rw [h1, h3]
    simp only [visible, List.filter_filter, List.nil_append]
    congr 1
    apply List.filter_congr
    intro e _
    by_cases h : k ≤ e.index
    · simp [h]; omega
    · simp [h]
  · rcases snoc_cases post with hp | ⟨ys, l, hp⟩
    · subst hp; simp [absNext, endIdx]
    · subst hp
      have e1 : { c with splitOff := k } :: (ys ++ [l]) = ({ c with splitOff := k } :: ys) ++ [l] := by simp
      have e2 : pre ++ c :: (ys ++ [l]) = (pre ++ c :: ys) ++ [l] := by simp
      rw [e1, e2, absNext_snoc, absNext_snoc]

end RNacos.LogManager

namespace RNacos.LogManager
open RNacos.LogStore (Ent Kind)

/-- **`save_new_snapshot_pointer` refines `savePointer`** for a pointer inside the log (compaction: the pointer is at
or below the last applied entry; installation: after the log at or below the snapshot has been removed) -/
theorem savePointer_spec (full : File → Bool) (hfresh : ∀ f : File, f.recs = [] → full f = false)
    (fs : List File) (hc : Chain fs) (i t : Nat)
    (hend : ∀ l, fs.getLast? = some l → i + 1 ≤ endIdx l)
    (hlo : ∀ f0, fs.head? = some f0 → f0.splitOff ≤ i + 1) :
    Chain (savePointerFs full fs i t) ∧
    (fs = [] → absEnts (savePointerFs full fs i t) = [ptrEnt i t] ∧ absNext (savePointerFs full fs i t) = some (i + 1)) ∧
    (fs ≠ [] → absEnts (savePointerFs full fs i t) = ptrEnt i t :: (absEnts fs).filter (fun e => decide (i < e.index))
        ∧ absNext (savePointerFs full fs i t) = absNext fs) := by
  by_cases hne : fs = []
  · subst hne
    have h := writeOne_spec full hfresh [] trivial (ptrEnt i t)
    have hn : absNext ([] : List File) = none := rfl
    rw [if_pos (Or.inl hn)] at h
    have hs : savePointerFs full [] i t = (writeOne full [] (ptrEnt i t) 2).1 := by
      simp [savePointerFs, splitOffFs, splitLoop]
    rw [hs]
    refine ⟨h.1, fun _ => ⟨by simpa [absEnts] using h.2.2.1, by simpa [ptrEnt] using h.2.2.2⟩, fun h0 => absurd rfl h0⟩
  · obtain ⟨hch, habs, hnext, c', post, hres, hsp⟩ := splitOff_spec (i + 1) fs hc hne hend hlo
    have hs : savePointerFs full fs i t =
        { id := c'.id - 1, start := i, splitOff := i, closed := true, count := 1, recs := [ptrEnt i t] } :: c' :: post := by
      simp [savePointerFs, hres]
    rw [hs]
    rw [hres] at hch habs hnext
    refine ⟨?_, fun h0 => absurd h0 hne, fun _ => ⟨?_, ?_⟩⟩
    · simp only [Chain]
      refine ⟨⟨rfl, rfl⟩, ⟨?_, Nat.le_refl _, by simp [endIdx]⟩, by simp [endIdx, hsp], hch⟩
      intro j hj
      simp at hj; subst hj; simp [ptrEnt]
    · have : absEnts ({ id := c'.id - 1, start := i, splitOff := i, closed := true, count := 1, recs := [ptrEnt i t] } :: c' :: post)
          = ptrEnt i t :: absEnts (c' :: post) := by
        simp [absEnts, visible, ptrEnt]
      rw [this, habs]
      rfl
    · rw [← hnext]
      simp [absNext, List.getLast?_cons_cons]

/-- **reads**: what `get_log_entries(a, b)` collects from the files is the visible log restricted to `[a, b)` -/
theorem get_spec (fs : List File) (p : Option (Nat × Nat)) (hc : Chain fs) (a b : Nat) :
    get ⟨fs, p⟩ a b = (absEnts fs).filter (fun e => decide (a ≤ e.index ∧ e.index < b)) := by
  have hinv := chain_mem_inv fs hc
  simp only [get, absEnts, List.filter_flatMap]
  have key : ∀ f ∈ fs, readFile a b f = (visible f).filter (fun e => decide (a ≤ e.index ∧ e.index < b)) := by
    intro f hf
    have hfi := hinv f hf
    simp only [readFile, visible, List.filter_filter]
    apply List.filter_congr
    intro e he
    have hb := (mem_recs_bounds f hfi e he).1
    have := hfi.lo
    by_cases h1 : a ≤ e.index <;> by_cases h2 : e.index < b <;> by_cases h3 : f.splitOff ≤ e.index <;>
      simp [h1, h2, h3] <;> omega
  clear hc hinv
  induction fs with
  | nil => rfl
  | cons f fs ih =>
    simp only [List.flatMap_cons]
    rw [key f (by simp), ih (fun g hg => key g (by simp [hg]))]

end RNacos.LogManager
