import RNacos.Model.Varint
/-
Specification of a length-prefixed record stream (C20): the records of a byte stream are what a
straightforward whole-stream parse yields — no buffers, no chunks.
-/
namespace RNacos.Spec.Stream
open RNacos.Varint

/-- A frame: varint length prefix followed by the body. -/
def frame (body : List Nat) : List Nat := vwrite body.length ++ body

/-- The stream written for `bodies`, followed by `tail` (zero padding or nothing). -/
def stream (bodies : List (List Nat)) (tail : List Nat) : List Nat :=
  (bodies.map frame).flatten ++ tail

/-- The tail of a well-formed stream: empty, or beginning with the zero length byte. -/
def TailOK (tail : List Nat) : Prop := tail = [] ∨ tail.head? = some 0

/-- Bodies the store can write: non-empty (an empty body's frame *is* the end marker) and with a
length that fits a `u64`. -/
def BodiesOK (bodies : List (List Nat)) : Prop := ∀ b ∈ bodies, 0 < b.length ∧ b.length < 2 ^ 64

/-- Reference decoder on the whole, unsplit stream (fuel = stream length is always enough: every
frame consumes at least one byte). Stops at the first zero length, at the end of input, or at a
truncated / malformed frame. Returns the frames (prefix + body). -/
def specDecode : Nat → List Nat → List (List Nat)
  | 0, _ => []
  | f + 1, s =>
    match s with
    | [] => []
    | b :: _ =>
      if b = 0 then []
      else match vlen s, vreadGo 10 s with
        | some k, .ok v =>
          let n := k + v % 2 ^ 64
          if n ≤ s.length then s.take n :: specDecode f (s.drop n) else []
        | _, _ => []

end RNacos.Spec.Stream
