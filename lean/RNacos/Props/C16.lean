import RNacos.Model.Auth
import RNacos.Props.OracleTables
/-!
# C16 — with auth on, no data endpoint (HTTP or gRPC) is served without a valid token

The HTTP theorem quantifies over **every path** (not only registered routes): any path containing
`/nacos/` or `/rnacos/v1/` in any letter case, other than the exceptions named in the property, is
refused unless the token resolves to a session.  Exceptions and gRPC type classes are hand-written
from the property text (`OracleTables.lean`); the code's lists come from `Gen/Tables.lean`.
-/
namespace RNacos.Props.C16
open RNacos.Auth RNacos.Gen RNacos.Props.Oracle

/-- the property's own notion of "under /nacos/ or /rnacos/v1/" (any spelling of letter case) -/
def underApi (path : Str) : Bool :=
  containsCI [47, 110, 97, 99, 111, 115, 47] path ||
  containsCI [47, 114, 110, 97, 99, 111, 115, 47, 118, 49, 47] path

theorem needles_cover_property : openapiNeedles =
    [[47, 110, 97, 99, 111, 115, 47], [47, 114, 110, 97, 99, 111, 115, 47, 118, 49, 47]] := by decide +kernel

/-- the code's ignore list grants nothing beyond the property's exceptions -/
theorem ignore_within_exceptions : (openapiIgnorePath.all fun p => openapiExceptions.contains p) = true := by
  decide +kernel

theorem check_path_of_under (path : Str) (hu : underApi path = true)
    (hex : openapiExceptions.contains path = false) : openapiIsCheckPath path = true := by
  unfold openapiIsCheckPath
  have h1 : (openapiNeedles.any fun n => containsCI n path) = true := by
    rw [needles_cover_property]
    simpa [underApi, List.any] using hu
  have h2 : openapiIgnorePath.contains path = false := by
    by_cases h : openapiIgnorePath.contains path = true
    · have := List.all_eq_true.mp ignore_within_exceptions path (by simpa using h)
      rw [hex] at this; exact absurd this (by simp)
    · simpa using h
  rw [h1, h2]; rfl

/-- **HTTP: every path under the API prefixes, except the property's exceptions, answers 403 unless the
token resolves to a session** – whatever carrier the token came in, an empty token and a token without a
session (wrong / expired) are both "no token". -/
theorem http_guarded (path : Str) (hu : underApi path = true)
    (hex : openapiExceptions.contains path = false) (token : Str) (hasSession : Str → Bool)
    (hno : token.isEmpty = true ∨ hasSession token = false) :
    openapiDecide true path token hasSession = .forbid := by
  have hc := check_path_of_under path hu hex
  unfold openapiDecide
  simp only [Bool.not_true, hc, Bool.or_self, Bool.false_eq_true, if_false]
  rcases hno with h | h
  · simp [h]
  · by_cases ht : token.isEmpty = true
    · simp [ht]
    · simp [ht, h]

/-- **the same for every spelling of the path on the wire**: the decision is taken on the path the
router matches (percent-encoded characters decoded, except `%`, `/`, `+`), so no encoding of a
character can take a request past the check and still reach a handler. -/
theorem http_guarded_raw (raw : Str) (hu : underApi (requote raw) = true)
    (hex : openapiExceptions.contains (requote raw) = false) (token : Str) (hasSession : Str → Bool)
    (hno : token.isEmpty = true ∨ hasSession token = false) :
    openapiDecideRaw true raw token hasSession = .forbid :=
  http_guarded (requote raw) hu hex token hasSession hno

/-- and it is served only through a session -/
theorem http_pass_needs_session (path : Str) (hu : underApi path = true)
    (hex : openapiExceptions.contains path = false) (token : Str) (hasSession : Str → Bool)
    (hp : openapiDecide true path token hasSession = .pass) :
    token.isEmpty = false ∧ hasSession token = true := by
  by_cases ht : token.isEmpty = true
  · rw [http_guarded path hu hex token hasSession (Or.inl ht)] at hp; cases hp
  · by_cases hs : hasSession token = true
    · exact ⟨by simpa using ht, hs⟩
    · rw [http_guarded path hu hex token hasSession (Or.inr (by simpa using hs))] at hp; cases hp

/-- no carrier is consulted after an earlier one is present, and a GET body is never read -/
theorem token_carrier_order (a h q b : Option Str) (isGet : Bool) :
    openapiToken a h q b isGet =
      match a, h, q with
      | some t, _, _ => t
      | none, some t, _ => t
      | none, none, some t => t
      | none, none, none => if isGet then [] else b.getD [] := by
  unfold openapiToken; cases a <;> cases h <;> cases q <;> rfl

/-! ## gRPC -/

theorem grpc_ignore_within_oracle : (grpcIgnoreAuth.all fun t => grpcNoSessionTypes.contains t) = true := by
  decide +kernel

theorem grpc_cluster_covers_oracle : (grpcClusterTypes.all fun t => grpcCluster.contains t) = true := by
  decide +kernel

theorem grpc_data_types_registered : (grpcDataTypes.all fun t => grpcHandlers.contains t) = true := by
  decide +kernel

/-- **gRPC: with auth on, every request type other than server/health check and the cluster-internal
types is refused (403) without a user session** – for *any* type string, registered or not. -/
theorem grpc_refused_without_session (clusterCfg url : Str) (clusterValid : Bool)
    (hdata : grpcNoSessionTypes.contains url = false) :
    grpcDecide true clusterCfg url false clusterValid = .forbidden403 := by
  have hsc : (url == grpcServerCheck) = false := by
    by_cases h : (url == grpcServerCheck) = true
    · have : url = grpcServerCheck := by simpa using h
      subst this
      exact absurd hdata (by decide +kernel)
    · simpa using h
  have hig : grpcIgnoreAuth.contains url = false := by
    by_cases h : grpcIgnoreAuth.contains url = true
    · have := List.all_eq_true.mp grpc_ignore_within_oracle url (by simpa using h)
      rw [hdata] at this; exact absurd this (by simp)
    · simpa using h
  unfold grpcDecide
  rw [hsc, hig]; rfl

/-- in particular every data request type of the property -/
theorem grpc_data_requests_refused :
    (grpcDataTypes.all fun t => grpcDecide true [] t false false == .forbidden403) = true := by
  decide +kernel

theorem grpcClusterBranch_fst (cfg : Str) (ch : Option Str) : (grpcClusterBranch cfg ch).1 = false := by
  unfold grpcClusterBranch; split <;> rfl

/-- a request without a session header never obtains a session -/
theorem grpc_no_token_no_session (enableAuth : Bool) (hasSession : Str → Bool) (cfg : Str) (ch : Option Str) :
    (grpcFill enableAuth none hasSession cfg ch).1 = false := by
  unfold grpcFill; cases enableAuth <;> exact grpcClusterBranch_fst cfg ch

/-- an empty user token or one without a session gives no session -/
theorem grpc_bad_token_no_session (t : Str) (hasSession : Str → Bool) (cfg : Str) (ch : Option Str)
    (h : t.isEmpty = true ∨ hasSession t = false) : (grpcFill true (some t) hasSession cfg ch).1 = false := by
  unfold grpcFill
  by_cases ht : t.isEmpty = true
  · simp only [ht, if_true]; exact grpcClusterBranch_fst cfg ch
  · rcases h with h | h
    · exact absurd h ht
    · simp [ht, h]

/-- **cluster-internal requests are refused without the cluster token when one is configured** -/
theorem cluster_requests_need_token (enableAuth : Bool) (cfg url : Str) (hasSession : Bool)
    (hcfg : cfg.isEmpty = false) (hcl : grpcClusterTypes.contains url = true) :
    grpcDecide enableAuth cfg url hasSession false = .clusterTokenInvalid500 := by
  have hin : grpcCluster.contains url = true :=
    List.all_eq_true.mp grpc_cluster_covers_oracle url (by simpa using hcl)
  have hsc : (url == grpcServerCheck) = false := by
    by_cases h : (url == grpcServerCheck) = true
    · have : url = grpcServerCheck := by simpa using h
      subst this
      exact absurd hcl (by decide +kernel)
    · simpa using h
  have hig : grpcIgnoreAuth.contains url = true := by
    have : (grpcClusterTypes.all fun t => grpcIgnoreAuth.contains t) = true := by decide +kernel
    exact List.all_eq_true.mp this url (by simpa using hcl)
  unfold grpcDecide
  rw [hsc, hig, hcfg, hin]; cases enableAuth <;> rfl

/-- the cluster token is compared only when the request carries no user token (or auth is off); a
request that carries a user token never counts as cluster-authenticated; and it is compared for **equality** - the
configured token itself, nothing shorter, nothing longer -/
theorem cluster_token_valid_iff (enableAuth : Bool) (ut : Option Str) (hasSession : Str → Bool)
    (cfg : Str) (ch : Option Str) :
    (grpcFill enableAuth ut hasSession cfg ch).2 = true →
      cfg.isEmpty = false ∧ ch = some cfg := by
  have key : (grpcClusterBranch cfg ch).2 = true → cfg.isEmpty = false ∧ ch = some cfg := by
    unfold grpcClusterBranch
    by_cases hc : cfg.isEmpty = true
    · simp [hc]
    · have hc' : cfg.isEmpty = false := by simpa using hc
      simp only [hc', Bool.not_false, if_true]
      cases ch with
      | none => simp
      | some c => intro h; simpa using h
  unfold grpcFill
  cases enableAuth <;> cases ut with
  | none => exact key
  | some t =>
    first
    | exact key
    | (by_cases ht : t.isEmpty = true
       · simp only [ht, if_true]; exact key
       · simp only [ht, Bool.false_eq_true, if_false]; intro h; cases h)

/-! ## non-vacuity -/
example : underApi [47, 78, 65, 67, 79, 83, 47, 118, 49, 47, 99, 115] = true ∧
    openapiExceptions.contains [47, 78, 65, 67, 79, 83, 47, 118, 49, 47, 99, 115] = false := by decide
example : requote [47, 37, 54, 69, 97, 99, 111, 115, 47, 118, 49, 47, 99, 115] =
    [47, 110, 97, 99, 111, 115, 47, 118, 49, 47, 99, 115] := by decide
example : grpcDecide true [] [73, 110, 115, 116, 97, 110, 99, 101, 82, 101, 113, 117, 101, 115, 116] true false =
    .dispatched := by decide +kernel

end RNacos.Props.C16
