import RNacos.Model.IndexFile
import RNacos.Lemmas.FileReader
/-!
# C05 — Raft vote, term, membership and node addresses are durable, never regress

Model: `RNacos/Model/IndexFile.lean` – the catalogue file `index` byte by byte (8-byte header, one
length-prefixed protobuf record rewritten in place without truncation) and the read-modify-write
mutators of `RaftIndexManager`.

The protobuf codec of `RaftIndex` is modelled (`encIdx`/`decIdx`) but its round trip is **assumed per
record** (`RoundTrips r`, a decidable, closed statement that is checked by evaluation for the records of
the non-vacuity examples and by the correspondence for generated ones) – quick-protobuf is not verified.
-/
namespace RNacos.Props.C05
open RNacos.IndexFile RNacos.Varint RNacos.FileReader

/-- the modelled codec returns the record it was given -/
def RoundTrips (r : RaftIdx) : Prop := decIdx (encIdx r) = some r

/-- the encoded record's length is a u64 (the length prefix can hold it) -/
def Fits (r : RaftIdx) : Prop := (encIdx r).length < 2 ^ 64

/-! ### byte-list file operations -/

theorem writeAt_length (file : List Nat) (off : Nat) (data : List Nat) :
    (writeAt file off data).length = max file.length (off + data.length) := by
  unfold writeAt
  simp only [List.length_append, List.length_take, List.length_drop, List.length_replicate]
  omega

theorem writeAt_drop (file : List Nat) (off : Nat) (data : List Nat) :
    ∃ junk, (writeAt file off data).drop off = data ++ junk := by
  unfold writeAt
  refine ⟨(file ++ List.replicate (off - file.length) 0).drop (off + data.length), ?_⟩
  have hl : ((file ++ List.replicate (off - file.length) 0).take off).length = off := by
    simp only [List.length_take, List.length_append, List.length_replicate]; omega
  rw [List.append_assoc, List.drop_append_of_le_length (by omega), List.drop_of_length_le (by omega)]
  simp

theorem writeAt_take (file : List Nat) (off : Nat) (data : List Nat) (h : off ≤ file.length) :
    (writeAt file off data).take off = file.take off := by
  unfold writeAt
  have : off - file.length = 0 := by omega
  simp only [this, List.replicate_zero, List.append_nil]
  rw [List.append_assoc, List.take_append_of_le_length (by simp; omega)]
  simp [List.take_take]

theorem writeAt_zero_drop (file : List Nat) (data : List Nat) (h : data.length ≤ file.length) :
    (writeAt file 0 data).drop data.length = file.drop data.length := by
  unfold writeAt
  simp

theorem be8_length (n : Nat) : (be8 n).length = 8 := by simp [be8]

theorem unbe8_be8 (n : Nat) (h : n < 2 ^ 64) (rest : List Nat) : unbe8 (be8 n ++ rest) = n := by
  unfold unbe8 be8
  simp only [List.range, List.range.loop, List.reverse_cons, List.reverse_nil, List.nil_append,
    List.cons_append, List.map_cons, List.map_nil, List.take, List.foldl]
  omega

/-! ### reading back what `write_index` wrote -/

/-- the record part: a frame of `encIdx r` followed by any stale bytes of a longer, older record parses to `r`
– also when `r` is the all-default record, whose frame is the single byte 0 -/
theorem parseRec_frame (stale : List Nat) (r : RaftIdx) (hrt : RoundTrips r) (hf : Fits r) :
    parseRec (frame (encIdx r) ++ stale) = some r := by
  unfold parseRec
  by_cases he : (encIdx r).length = 0
  · -- the empty record
    have hnil : encIdx r = [] := List.eq_nil_of_length_eq_zero he
    have hr : r = {} := by
      have h1 : decIdx (encIdx r) = some r := hrt
      rw [hnil] at h1
      have h2 : decIdx [] = some ({} : RaftIdx) := by decide
      rw [h2] at h1; exact (Option.some.inj h1).symm
    have hfr : frame (encIdx r) = [0] := by rw [hnil]; decide
    rw [hfr]; simp [hr]
  · have hpos : 0 < (encIdx r).length := by omega
    obtain ⟨a, t, hat, ha0⟩ := RNacos.FileReader.frame_head_ne_zero (encIdx r) hpos stale
    have hframe : RNacos.Spec.Stream.frame (encIdx r) = frame (encIdx r) := rfl
    rw [hframe] at hat
    have hhead : ¬ ((frame (encIdx r) ++ stale).head? = some 0) := by
      rw [hat]; simp; exact ha0
    simp only [hhead, if_false]
    have hrl := RNacos.FileReader.readLen_frame [] (encIdx r) stale ⟨hpos, hf⟩
    rw [hframe] at hrl
    simp only [List.nil_append, List.length_nil] at hrl
    rw [hrl]
    simp only
    have hbuf : (frame (encIdx r) ++ stale).take (frame (encIdx r)).length = frame (encIdx r) := by simp
    rw [hbuf]
    simp only [Nat.lt_irrefl, if_false]
    have hv128 : (encIdx r).length < 128 ^ (9 + 1) := by have := pow64_lt; unfold Fits at hf; omega
    have hvl : vlen (frame (encIdx r)) = some (vwrite (encIdx r).length).length := by
      unfold frame; exact vlen_vwriteF 9 _ _ hv128
    have hrd : vreadGo 10 (frame (encIdx r)) = .ok (encIdx r).length := by
      unfold frame; exact vreadGo_vwrite _ _ hf
    rw [hvl, hrd]
    simp only
    have hbody : ((frame (encIdx r)).drop (vwrite (encIdx r).length).length).take (encIdx r).length = encIdx r := by
      unfold frame; simp
    rw [hbody]; exact hrt

/-- the parse of `init` on a file whose bytes from offset 8 are a frame of `encIdx r` (plus stale bytes) -/
theorem parse_frame (pre stale : List Nat) (r : RaftIdx) (hpre : pre.length = 8) (hrt : RoundTrips r)
    (hf : Fits r) :
    initL freshLimit (pre ++ (frame (encIdx r) ++ stale)) =
      some ⟨pre ++ (frame (encIdx r) ++ stale), r, unbe8 (pre ++ (frame (encIdx r) ++ stale))⟩ := by
  have hvpos := vwrite_length_pos (encIdx r).length
  have hbig : ¬ ((pre ++ (frame (encIdx r) ++ stale)).length ≤ freshLimit) := by
    simp only [List.length_append, hpre, freshLimit, frame]; omega
  unfold initL
  simp only [hbig, if_false]
  have hdrop : (pre ++ (frame (encIdx r) ++ stale)).drop 8 = frame (encIdx r) ++ stale := by
    rw [← hpre]; simp
  rw [hdrop, parseRec_frame stale r hrt hf]; rfl

/-- the state on disk decodes to the state in memory -/
def Consistent (f : IndexFile) : Prop := init f.bytes = some f

/-- **reopen after `write_index`**: whatever was in the file before (shorter, equal or longer record),
reopening returns exactly the record just written and the last-applied index that was there -/
theorem reopen_after_writeIndex (f : IndexFile) (r : RaftIdx) (hlen : 8 ≤ f.bytes.length)
    (hrt : RoundTrips r) (hf : Fits r) (happ : unbe8 f.bytes = f.applied) :
    Consistent (f.writeIndex r) := by
  unfold Consistent IndexFile.writeIndex init
  simp only
  obtain ⟨junk, hj⟩ := writeAt_drop f.bytes 8 (frame (encIdx r))
  have ht := writeAt_take f.bytes 8 (frame (encIdx r)) hlen
  have hsplit : writeAt f.bytes 8 (frame (encIdx r)) = f.bytes.take 8 ++ (frame (encIdx r) ++ junk) := by
    rw [← List.take_append_drop 8 (writeAt f.bytes 8 (frame (encIdx r))), ht, hj]
  have hpre : (f.bytes.take 8).length = 8 := by simp; omega
  rw [hsplit, parse_frame _ junk r hpre hrt hf]
  congr 2
  unfold unbe8 at happ ⊢
  rw [List.take_append_of_le_length (by omega), List.take_take]
  simpa using happ

/-- **reopen after `write_last_applied_log`**: the record is untouched, the new index is returned -/
theorem reopen_after_writeApplied (f : IndexFile) (n : Nat) (hn : n < 2 ^ 64) (hc : Consistent f)
    (hbig : freshLimit < f.bytes.length) : Consistent (f.writeApplied n) := by
  unfold Consistent IndexFile.writeApplied at *
  unfold init initL at *
  have hlen : (writeAt f.bytes 0 (be8 n)).length = f.bytes.length := by
    rw [writeAt_length, be8_length]; unfold freshLimit at hbig; omega
  have hnb : ¬ (f.bytes.length ≤ freshLimit) := by omega
  have hd : (writeAt f.bytes 0 (be8 n)).drop 8 = f.bytes.drop 8 := by
    have := writeAt_zero_drop f.bytes (be8 n) (by rw [be8_length]; unfold freshLimit at hbig; omega)
    rw [be8_length] at this; exact this
  simp only [hlen, hnb, if_false] at hc ⊢
  rw [hd]
  cases hp : parseRec (f.bytes.drop 8) with
  | none => rw [hp] at hc; cases hc
  | some idx =>
    rw [hp] at hc
    simp only [Option.map_some, Option.some.injEq] at hc ⊢
    have hidx' : f.idx = idx := by rw [← hc]
    rw [← hidx']
    have hw : writeAt f.bytes 0 (be8 n) = be8 n ++ f.bytes.drop 8 := by
      unfold writeAt
      simp [be8_length]
    congr 1
    rw [hw]
    exact unbe8_be8 n hn _

/-! ### interference freedom: every mutator replaces its own fields only -/

theorem catalogue_updates_keep_vote (f : IndexFile) (op : Op)
    (hop : match op with | .hardState .. => False | _ => True) :
    (f.step op).idx.term = f.idx.term ∧ (f.step op).idx.vote = f.idx.vote := by
  cases op <;> simp_all [IndexFile.step, IndexFile.writeIndex, IndexFile.writeApplied]

theorem hardState_keeps_rest (f : IndexFile) (t v : Nat) :
    (f.step (.hardState t v)).idx = { f.idx with term := t, vote := v } ∧
    (f.step (.hardState t v)).applied = f.applied := by
  simp [IndexFile.step, IndexFile.writeIndex]

theorem member_updates_keep_logs (f : IndexFile) (m : List Nat) (a : Option (List Nat))
    (ad : Option (List (Nat × List Nat))) :
    (f.step (.member m a ad)).idx.logs = f.idx.logs ∧ (f.step (.member m a ad)).idx.snapshots = f.idx.snapshots ∧
    (f.step (.member m a ad)).idx.term = f.idx.term ∧ (f.step (.member m a ad)).idx.vote = f.idx.vote := by
  simp [IndexFile.step, IndexFile.writeIndex]

theorem logs_update_keeps_members (f : IndexFile) (l : List LogRange) :
    (f.step (.logs l)).idx.member = f.idx.member ∧ (f.step (.logs l)).idx.memberAfter = f.idx.memberAfter ∧
    (f.step (.logs l)).idx.addrs = f.idx.addrs := by
  simp [IndexFile.step, IndexFile.writeIndex]

/-! ### durability over whole histories -/

/-- the record a mutator is about to write -/
def nextIdx (f : IndexFile) : Op → RaftIdx
  | .applied _ => f.idx
  | op => (f.step op).idx

/-- the premises under which the codec assumption and the size facts hold along a history -/
def StepOK (f : IndexFile) (op : Op) : Prop :=
  match op with
  | .applied n => n < 2 ^ 64
  | op => RoundTrips (nextIdx f op) ∧ Fits (nextIdx f op)

theorem consistent_applied (f : IndexFile) (h : Consistent f) (hbig : freshLimit < f.bytes.length) :
    unbe8 f.bytes = f.applied := by
  unfold Consistent init initL at h
  have hnb : ¬ (f.bytes.length ≤ freshLimit) := by omega
  simp only [hnb, if_false] at h
  cases hp : parseRec (f.bytes.drop 8) with
  | none => rw [hp] at h; cases h
  | some idx =>
    rw [hp] at h
    simp only [Option.map_some, Option.some.injEq] at h; rw [← h]

/-- **Every acknowledged save is what the next start reads**: a consistent file stays consistent under
every mutator – hard state, membership, addresses, log and snapshot catalogue, last-applied – in any
interleaving; so after any history and any number of reopens the state read back is the state saved last. -/
theorem consistent_step (f : IndexFile) (op : Op) (hc : Consistent f) (hbig : freshLimit < f.bytes.length)
    (hok : StepOK f op) : Consistent (f.step op) ∧ freshLimit < (f.step op).bytes.length := by
  have happ := consistent_applied f hc hbig
  have h8 : 8 ≤ f.bytes.length := by unfold freshLimit at hbig; omega
  have grow : ∀ r, freshLimit < (f.writeIndex r).bytes.length := by
    intro r; simp only [IndexFile.writeIndex, writeAt_length]; omega
  cases op with
  | applied n =>
    refine ⟨reopen_after_writeApplied f n hok hc hbig, ?_⟩
    simp only [IndexFile.step, IndexFile.writeApplied, writeAt_length]; omega
  | hardState t v => exact ⟨reopen_after_writeIndex f _ h8 hok.1 hok.2 happ, grow _⟩
  | member m a ad => exact ⟨reopen_after_writeIndex f _ h8 hok.1 hok.2 happ, grow _⟩
  | addAddr i a => exact ⟨reopen_after_writeIndex f _ h8 hok.1 hok.2 happ, grow _⟩
  | logs l => exact ⟨reopen_after_writeIndex f _ h8 hok.1 hok.2 happ, grow _⟩
  | snapshots s => exact ⟨reopen_after_writeIndex f _ h8 hok.1 hok.2 happ, grow _⟩

/-- reopening a consistent file is the identity: no regress through restarts, however many -/
theorem reopen_identity (f : IndexFile) (hc : Consistent f) : init f.bytes = some f := hc

/-- the file a first start creates -/
def newFile : IndexFile := ⟨writeAt [] 0 (be8 0 ++ frame (encIdx {})), {}, 0⟩

/-- a first start (no file, or a file cut short inside its first 9 bytes) creates the default state, and that
file is already consistent: the 9-byte file is read, not re-created, by the next start -/
theorem fresh_start : init [] = some newFile ∧ Consistent newFile ∧ freshLimit < newFile.bytes.length := by
  unfold Consistent; decide

/-- the premises hold at every step of a history -/
def HistOK : IndexFile → List Op → Prop
  | _, [] => True
  | f, op :: ops => StepOK f op ∧ HistOK (f.step op) ops

/-- **all histories**: after any interleaving of hard-state, membership, address, catalogue and
last-applied saves the file on disk decodes to the state in memory -/
theorem history_consistent (ops : List Op) (f : IndexFile) (hc : Consistent f)
    (hbig : freshLimit < f.bytes.length) (hok : HistOK f ops) :
    Consistent (ops.foldl IndexFile.step f) := by
  induction ops generalizing f with
  | nil => exact hc
  | cons op ops ih =>
    obtain ⟨h1, h2⟩ := consistent_step f op hc hbig hok.1
    exact ih _ h1 h2 hok.2

/-- the last hard state saved in a history -/
def lastHard : List Op → Option (Nat × Nat)
  | [] => none
  | .hardState t v :: ops => (lastHard ops).or (some (t, v))
  | _ :: ops => lastHard ops

theorem history_hard_state (ops : List Op) (f : IndexFile) :
    ((ops.foldl IndexFile.step f).idx.term, (ops.foldl IndexFile.step f).idx.vote) =
      (lastHard ops).getD (f.idx.term, f.idx.vote) := by
  induction ops generalizing f with
  | nil => rfl
  | cons op ops ih =>
    rw [List.foldl_cons, ih]
    cases op with
    | hardState t v =>
      simp only [lastHard]
      cases lastHard ops <;> simp [IndexFile.step, IndexFile.writeIndex]
    | member m a ad => simp [lastHard, IndexFile.step, IndexFile.writeIndex]
    | addAddr i a => simp [lastHard, IndexFile.step, IndexFile.writeIndex]
    | logs l => simp [lastHard, IndexFile.step, IndexFile.writeIndex]
    | snapshots l => simp [lastHard, IndexFile.step, IndexFile.writeIndex]
    | applied n => simp [lastHard, IndexFile.step, IndexFile.writeApplied]

/-- **the vote survives every history and restart**: whatever else rewrote the file afterwards, a restart
reads the term and vote of the last acknowledged `save_hard_state` -/
theorem restart_reads_last_hard_state (ops : List Op) (f : IndexFile) (hc : Consistent f)
    (hbig : freshLimit < f.bytes.length) (hok : HistOK f ops) :
    (init (ops.foldl IndexFile.step f).bytes).map (fun g => (g.idx.term, g.idx.vote)) =
      some ((lastHard ops).getD (f.idx.term, f.idx.vote)) := by
  rw [history_consistent ops f hc hbig hok, Option.map_some, history_hard_state]

/-- the last membership saved in a history -/
def lastMember : List Op → Option (List Nat)
  | [] => none
  | .member m _ _ :: ops => (lastMember ops).or (some m)
  | _ :: ops => lastMember ops

theorem history_member (ops : List Op) (f : IndexFile) :
    (ops.foldl IndexFile.step f).idx.member = (lastMember ops).getD f.idx.member := by
  induction ops generalizing f with
  | nil => rfl
  | cons op ops ih =>
    rw [List.foldl_cons, ih]
    cases op with
    | member m a ad =>
      simp only [lastMember]
      cases lastMember ops <;> simp [IndexFile.step, IndexFile.writeIndex]
    | hardState t v => simp [lastMember, IndexFile.step, IndexFile.writeIndex]
    | addAddr i a => simp [lastMember, IndexFile.step, IndexFile.writeIndex]
    | logs l => simp [lastMember, IndexFile.step, IndexFile.writeIndex]
    | snapshots l => simp [lastMember, IndexFile.step, IndexFile.writeIndex]
    | applied n => simp [lastMember, IndexFile.step, IndexFile.writeApplied]

theorem restart_reads_last_membership (ops : List Op) (f : IndexFile) (hc : Consistent f)
    (hbig : freshLimit < f.bytes.length) (hok : HistOK f ops) :
    (init (ops.foldl IndexFile.step f).bytes).map (·.idx.member) =
      some ((lastMember ops).getD f.idx.member) := by
  rw [history_consistent ops f hc hbig hok, Option.map_some, history_member]

/-- an address once added is read back until the same node's address is replaced or a membership save
replaces the whole address map -/
theorem addAddr_lookup (f : IndexFile) (i : Nat) (a : List Nat) :
    (f.step (.addAddr i a)).idx.addrs.lookup i = some a := by
  simp only [IndexFile.step, IndexFile.writeIndex, addrInsert]
  induction f.idx.addrs with
  | nil => simp [List.lookup]
  | cons hd tl ih =>
    simp only [List.filter_cons]
    by_cases h : hd.1 = i
    · simp [h, ih]
    · have : (hd.1 != i) = true := by simp [h]
      simp only [this, if_true, List.cons_append]
      have hne : (i == hd.1) = false := by simp; exact fun e => h e.symm
      cases hd with | mk k v => simp only [List.lookup, hne]; exact ih

theorem addAddr_keeps_others (f : IndexFile) (i j : Nat) (a : List Nat) (h : j ≠ i) :
    (f.step (.addAddr i a)).idx.addrs.lookup j = f.idx.addrs.lookup j := by
  simp only [IndexFile.step, IndexFile.writeIndex, addrInsert]
  induction f.idx.addrs with
  | nil =>
    have hji : (j == i) = false := by simp [h]
    simp [List.lookup, hji]
  | cons hd tl ih =>
    cases hd with | mk k v =>
    simp only [List.filter_cons]
    by_cases hk : k = i
    · subst hk
      have hji : (j == k) = false := by simp [h]
      simp [List.lookup, hji, ih]
    · have : (k != i) = true := by simp [hk]
      simp only [this, if_true, List.cons_append, List.lookup]
      cases hjk : (j == k) <;> simp [ih]


/-- **from the very first start**: after any history of saves on a store that began with no file at all,
every restart reads the term and vote saved last (nothing saved: the defaults 0/0) -/
theorem from_new_file_restart_reads_last_hard_state (ops : List Op) (hok : HistOK newFile ops) :
    (init (ops.foldl IndexFile.step newFile).bytes).map (fun g => (g.idx.term, g.idx.vote)) =
      some ((lastHard ops).getD (0, 0)) :=
  restart_reads_last_hard_state ops newFile fresh_start.2.1 fresh_start.2.2 hok

theorem from_new_file_restart_reads_last_membership (ops : List Op) (hok : HistOK newFile ops) :
    (init (ops.foldl IndexFile.step newFile).bytes).map (·.idx.member) = some ((lastMember ops).getD []) :=
  restart_reads_last_membership ops newFile fresh_start.2.1 fresh_start.2.2 hok

/-! ### the defects that were repaired (kept as theorems about the old rules) -/

/-- with the old threshold (`len <= 20`) a file that only holds a vote is wiped on restart -/
theorem old_threshold_forgets_vote :
    let f1 := newFile.step (.hardState 1 1)
    (initL 20 f1.bytes).map (·.idx.vote) = some 0 ∧ (initL freshLimit f1.bytes).map (·.idx.vote) = some 1 := by
  decide

/-- with `len <= 9` a last-applied index saved into the file that holds the empty record was reset -/
theorem threshold_9_forgets_applied :
    let f1 := newFile.step (.applied 7)
    (initL 9 f1.bytes).map (·.applied) = some 0 ∧ (initL freshLimit f1.bytes).map (·.applied) = some 7 := by
  decide

/-- the all-default record after a longer one: the frame is the single byte 0, which `read_len` alone takes
for "end of records" – `parseRec` without its first branch fails on exactly this file -/
theorem empty_record_after_longer_one :
    let f1 := (newFile.step (.addAddr 1 [104])).step (.member [] none (some []))
    f1.idx = {} ∧ readLen ⟨f1.bytes.drop 8, 0⟩ = none ∧ (init f1.bytes).map (·.idx) = some {} := by
  decide

/-! ### non-vacuity -/
def sampleIdx : RaftIdx :=
  { term := 3, vote := 2, member := [1, 2, 3], addrs := [(1, [97]), (2, [98, 99])],
    logs := [⟨1, 0, 1, 5, 0, false, false⟩] }

example : RoundTrips sampleIdx ∧ Fits sampleIdx := by
  refine ⟨by unfold RoundTrips; decide, ?_⟩
  have : (encIdx sampleIdx).length < 100 := by decide
  unfold Fits; omega

example : HistOK newFile [.hardState 1 1, .applied 5, .member [1] none none] := by
  refine ⟨⟨by unfold RoundTrips; decide, ?_⟩, by unfold StepOK; decide, ⟨by unfold RoundTrips; decide, ?_⟩, trivial⟩
  · have : (encIdx (nextIdx newFile (.hardState 1 1))).length < 100 := by decide
    unfold Fits; omega
  · have : (encIdx (nextIdx ((newFile.step (.hardState 1 1)).step (.applied 5)) (.member [1] none none))).length < 100 := by decide
    unfold Fits; omega

end RNacos.Props.C05
