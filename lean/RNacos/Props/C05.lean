import RNacos.Model.IndexFile
import RNacos.Lemmas.FileReader
/-!
# C05 — Raft vote, term, membership and node addresses are durable, never regress

Model: `RNacos/Model/IndexFile.lean` – the catalogue file `index` byte by byte (8-byte header, one
length-prefixed protobuf record rewritten in place without truncation) and the read-modify-write
mutators of `RaftIndexManager`.

The protobuf codec of `RaftIndex` is modelled (`encIdx`/`decIdx`) but its round trip is **assumed per
record** (`RoundTrips r`, a decidable, closed statement that is checked by evaluation for the records of
the non-vacuity examples and by the correspondence for generated ones) – quick-protobuf is not verified.
-/
namespace RNacos.Props.C05
open RNacos.IndexFile RNacos.Varint RNacos.FileReader

/-- the modelled codec returns the record it was given -/
def RoundTrips (r : RaftIdx) : Prop := decIdx (encIdx r) = some r

/-- something has been saved: the record does not encode to the empty message (a term ≥ 1, a log range,
a member, …); the all-default record is what a fresh file holds -/
def NonEmpty (r : RaftIdx) : Prop := 0 < (encIdx r).length ∧ (encIdx r).length < 2 ^ 64

/-! ### byte-list file operations -/

theorem writeAt_length (file : List Nat) (off : Nat) (data : List Nat) :
    (writeAt file off data).length = max file.length (off + data.length) := by
  unfold writeAt
  simp only [List.length_append, List.length_take, List.length_drop, List.length_replicate]
  omega

theorem writeAt_drop (file : List Nat) (off : Nat) (data : List Nat) :
    ∃ junk, (writeAt file off data).drop off = data ++ junk := by
  unfold writeAt
  refine ⟨(file ++ List.replicate (off - file.length) 0).drop (off + data.length), ?_⟩
  have hl : ((file ++ List.replicate (off - file.length) 0).take off).length = off := by
    simp only [List.length_take, List.length_append, List.length_replicate]; omega
  rw [List.append_assoc, List.drop_append_of_le_length (by omega), List.drop_of_length_le (by omega)]
  simp

theorem writeAt_take (file : List Nat) (off : Nat) (data : List Nat) (h : off ≤ file.length) :
    (writeAt file off data).take off = file.take off := by
  unfold writeAt
  have : off - file.length = 0 := by omega
  simp only [this, List.replicate_zero, List.append_nil]
  rw [List.append_assoc, List.take_append_of_le_length (by simp; omega)]
  simp [List.take_take]

theorem writeAt_zero_drop (file : List Nat) (data : List Nat) (h : data.length ≤ file.length) :
    (writeAt file 0 data).drop data.length = file.drop data.length := by
  unfold writeAt
  simp

theorem be8_length (n : Nat) : (be8 n).length = 8 := by simp [be8]

theorem unbe8_be8 (n : Nat) (h : n < 2 ^ 64) (rest : List Nat) : unbe8 (be8 n ++ rest) = n := by
  unfold unbe8 be8
  simp only [List.range, List.range.loop, List.reverse_cons, List.reverse_nil, List.nil_append,
    List.cons_append, List.map_cons, List.map_nil, List.take, List.foldl]
  omega

/-! ### reading back what `write_index` wrote -/

/-- the parse of `init` on a file whose bytes from offset 8 are a frame of `encIdx r` (plus any stale
bytes of a longer, older record) -/
theorem parse_frame (pre stale : List Nat) (r : RaftIdx) (hpre : pre.length = 8) (hrt : RoundTrips r)
    (hne : NonEmpty r) :
    initL freshLimit (pre ++ (frame (encIdx r) ++ stale)) =
      some ⟨pre ++ (frame (encIdx r) ++ stale), r, unbe8 (pre ++ (frame (encIdx r) ++ stale))⟩ := by
  have hfl : (frame (encIdx r)).length = (vwrite (encIdx r).length).length + (encIdx r).length := by
    unfold frame; simp
  have hvpos := vwrite_length_pos (encIdx r).length
  have hbig : ¬ ((pre ++ (frame (encIdx r) ++ stale)).length ≤ freshLimit) := by
    simp only [List.length_append, hpre, freshLimit, hfl]; have := hne.1; omega
  unfold initL
  simp only [hbig, if_false]
  have hrl := RNacos.FileReader.readLen_frame pre (encIdx r) stale hne
  rw [hpre] at hrl
  have hframe : RNacos.Spec.Stream.frame (encIdx r) = frame (encIdx r) := rfl
  rw [hframe] at hrl
  rw [hrl]
  simp only
  have hdrop : (pre ++ (frame (encIdx r) ++ stale)).drop 8 = frame (encIdx r) ++ stale := by
    rw [← hpre]; simp
  have hbuf : ((pre ++ (frame (encIdx r) ++ stale)).drop 8).take (frame (encIdx r)).length = frame (encIdx r) := by
    rw [hdrop]; simp
  rw [hbuf]
  simp only [Nat.lt_irrefl, if_false]
  have hv128 : (encIdx r).length < 128 ^ (9 + 1) := by have := pow64_lt; have := hne.2; omega
  have hvl : vlen (frame (encIdx r)) = some (vwrite (encIdx r).length).length := by
    unfold frame; exact vlen_vwriteF 9 _ _ hv128
  have hrd : vreadGo 10 (frame (encIdx r)) = .ok (encIdx r).length := by
    unfold frame; exact vreadGo_vwrite _ _ hne.2
  rw [hvl, hrd]
  simp only
  have hbody : ((frame (encIdx r)).drop (vwrite (encIdx r).length).length).take (encIdx r).length = encIdx r := by
    unfold frame; simp
  rw [hbody, hrt]

/-- the state on disk decodes to the state in memory -/
def Consistent (f : IndexFile) : Prop := init f.bytes = some f

/-- **reopen after `write_index`**: whatever was in the file before (shorter, equal or longer record),
reopening returns exactly the record just written and the last-applied index that was there -/
theorem reopen_after_writeIndex (f : IndexFile) (r : RaftIdx) (hlen : 8 ≤ f.bytes.length)
    (hrt : RoundTrips r) (hne : NonEmpty r) (happ : unbe8 f.bytes = f.applied) :
    Consistent (f.writeIndex r) := by
  unfold Consistent IndexFile.writeIndex init
  simp only
  obtain ⟨junk, hj⟩ := writeAt_drop f.bytes 8 (frame (encIdx r))
  have ht := writeAt_take f.bytes 8 (frame (encIdx r)) hlen
  have hsplit : writeAt f.bytes 8 (frame (encIdx r)) = f.bytes.take 8 ++ (frame (encIdx r) ++ junk) := by
    rw [← List.take_append_drop 8 (writeAt f.bytes 8 (frame (encIdx r))), ht, hj]
  have hpre : (f.bytes.take 8).length = 8 := by simp; omega
  rw [hsplit, parse_frame _ junk r hpre hrt hne]
  congr 2
  unfold unbe8 at happ ⊢
  rw [List.take_append_of_le_length (by omega), List.take_take]
  simpa using happ

/-- **reopen after `write_last_applied_log`**: the record is untouched, the new index is returned -/
theorem reopen_after_writeApplied (f : IndexFile) (n : Nat) (hn : n < 2 ^ 64) (hc : Consistent f)
    (hbig : freshLimit < f.bytes.length) : Consistent (f.writeApplied n) := by
  unfold Consistent IndexFile.writeApplied at *
  unfold init initL at *
  have hlen : (writeAt f.bytes 0 (be8 n)).length = f.bytes.length := by
    rw [writeAt_length, be8_length]; unfold freshLimit at hbig; omega
  have hnb : ¬ (f.bytes.length ≤ freshLimit) := by omega
  have hd : (writeAt f.bytes 0 (be8 n)).drop 8 = f.bytes.drop 8 := by
    have := writeAt_zero_drop f.bytes (be8 n) (by rw [be8_length]; unfold freshLimit at hbig; omega)
    rw [be8_length] at this; exact this
  simp only [hlen, hnb, if_false] at hc ⊢
  -- everything that is read lies at or after offset 8
  have hrl : readLen ⟨writeAt f.bytes 0 (be8 n), 8⟩ = readLen ⟨f.bytes, 8⟩ := by
    unfold readLen; simp only [hd]
  rw [hrl, hd]
  cases h1 : readLen ⟨f.bytes, 8⟩ with
  | none => rw [h1] at hc; cases hc
  | some flen =>
    rw [h1] at hc
    simp only at hc ⊢
    split at hc
    · cases hc
    · rename_i hnl
      simp only [hnl, if_false]
      split at hc
      · rename_i k m hk hm
        simp only [hk, hm]
        split at hc
        · rename_i idx hidx
          simp only [hidx]
          simp only [Option.some.injEq] at hc ⊢
          have hidx' : f.idx = idx := by rw [← hc]
          rw [← hidx']
          have hw : writeAt f.bytes 0 (be8 n) = be8 n ++ f.bytes.drop 8 := by
            rw [← List.take_append_drop 8 (writeAt f.bytes 0 (be8 n)), hd]
            congr 1
            unfold writeAt
            simp [be8_length]
            rw [List.take_append_of_le_length (by rw [be8_length])]
            rw [List.take_of_length_le (by rw [be8_length])]
          congr 1
          rw [hw]
          exact unbe8_be8 n hn _
        · cases hc
      · cases hc

/-! ### interference freedom: every mutator replaces its own fields only -/

theorem catalogue_updates_keep_vote (f : IndexFile) (op : Op)
    (hop : match op with | .hardState .. => False | _ => True) :
    (f.step op).idx.term = f.idx.term ∧ (f.step op).idx.vote = f.idx.vote := by
  cases op <;> simp_all [IndexFile.step, IndexFile.writeIndex, IndexFile.writeApplied]

theorem hardState_keeps_rest (f : IndexFile) (t v : Nat) :
    (f.step (.hardState t v)).idx = { f.idx with term := t, vote := v } ∧
    (f.step (.hardState t v)).applied = f.applied := by
  simp [IndexFile.step, IndexFile.writeIndex]

theorem member_updates_keep_logs (f : IndexFile) (m : List Nat) (a : Option (List Nat))
    (ad : Option (List (Nat × List Nat))) :
    (f.step (.member m a ad)).idx.logs = f.idx.logs ∧ (f.step (.member m a ad)).idx.snapshots = f.idx.snapshots ∧
    (f.step (.member m a ad)).idx.term = f.idx.term ∧ (f.step (.member m a ad)).idx.vote = f.idx.vote := by
  simp [IndexFile.step, IndexFile.writeIndex]

theorem logs_update_keeps_members (f : IndexFile) (l : List LogRange) :
    (f.step (.logs l)).idx.member = f.idx.member ∧ (f.step (.logs l)).idx.memberAfter = f.idx.memberAfter ∧
    (f.step (.logs l)).idx.addrs = f.idx.addrs := by
  simp [IndexFile.step, IndexFile.writeIndex]

/-! ### durability over whole histories -/

/-- the record a mutator is about to write -/
def nextIdx (f : IndexFile) : Op → RaftIdx
  | .applied _ => f.idx
  | op => (f.step op).idx

/-- the premises under which the codec assumption and the size facts hold along a history -/
def StepOK (f : IndexFile) (op : Op) : Prop :=
  match op with
  | .applied n => n < 2 ^ 64
  | op => RoundTrips (nextIdx f op) ∧ NonEmpty (nextIdx f op)

theorem consistent_length (f : IndexFile) (h : Consistent f) (hne : f.idx ≠ {}) : freshLimit < f.bytes.length := by
  unfold Consistent init initL at h
  by_cases hl : f.bytes.length ≤ freshLimit
  · simp only [hl, if_true, Option.some.injEq] at h
    exfalso; apply hne; rw [← h]
  · omega

theorem consistent_applied (f : IndexFile) (h : Consistent f) (hbig : freshLimit < f.bytes.length) :
    unbe8 f.bytes = f.applied := by
  unfold Consistent init initL at h
  have hnb : ¬ (f.bytes.length ≤ freshLimit) := by omega
  simp only [hnb, if_false] at h
  split at h
  · cases h
  · split at h
    · cases h
    · split at h
      · split at h
        · simp only [Option.some.injEq] at h; rw [← h]
        · cases h
      · cases h

/-- **Every acknowledged save is what the next start reads**: a consistent file stays consistent under
every mutator – hard state, membership, addresses, log and snapshot catalogue, last-applied – in any
interleaving; so after any history and any number of reopens the state read back is the state saved last. -/
theorem consistent_step (f : IndexFile) (op : Op) (hc : Consistent f) (hbig : freshLimit < f.bytes.length)
    (hok : StepOK f op) : Consistent (f.step op) ∧ freshLimit < (f.step op).bytes.length := by
  have happ := consistent_applied f hc hbig
  have h8 : 8 ≤ f.bytes.length := by unfold freshLimit at hbig; omega
  have grow : ∀ r, freshLimit < (f.writeIndex r).bytes.length := by
    intro r; simp only [IndexFile.writeIndex, writeAt_length]; omega
  cases op with
  | applied n =>
    refine ⟨reopen_after_writeApplied f n hok hc hbig, ?_⟩
    simp only [IndexFile.step, IndexFile.writeApplied, writeAt_length]; omega
  | hardState t v => exact ⟨reopen_after_writeIndex f _ h8 hok.1 hok.2 happ, grow _⟩
  | member m a ad => exact ⟨reopen_after_writeIndex f _ h8 hok.1 hok.2 happ, grow _⟩
  | addAddr i a => exact ⟨reopen_after_writeIndex f _ h8 hok.1 hok.2 happ, grow _⟩
  | logs l => exact ⟨reopen_after_writeIndex f _ h8 hok.1 hok.2 happ, grow _⟩
  | snapshots s => exact ⟨reopen_after_writeIndex f _ h8 hok.1 hok.2 happ, grow _⟩

/-- reopening a consistent file is the identity: no regress through restarts, however many -/
theorem reopen_identity (f : IndexFile) (hc : Consistent f) : init f.bytes = some f := hc

/-- a new (or still empty) file starts from the default state and is consistent once something is saved -/
theorem fresh_then_save (r : RaftIdx) (hrt : RoundTrips r) (hne : NonEmpty r) :
    ∃ f0, init [] = some f0 ∧ f0.idx = {} ∧ f0.applied = 0 ∧ Consistent (f0.writeIndex r) := by
  refine ⟨⟨writeAt [] 0 (be8 0 ++ frame (encIdx {})), {}, 0⟩, by simp [init, initL, freshLimit], rfl, rfl, ?_⟩
  apply reopen_after_writeIndex _ r _ hrt hne
  · decide
  · simp [writeAt_length, be8_length]

/-! ### the two defects that were repaired (kept as theorems about the old rules) -/

/-- with the old threshold (`len <= 20`) a file that only holds a vote is wiped on restart -/
theorem old_threshold_forgets_vote :
    let f0 : IndexFile := ⟨writeAt [] 0 (be8 0 ++ frame (encIdx {})), {}, 0⟩
    let f1 := f0.step (.hardState 1 1)
    (initL 20 f1.bytes).map (·.idx.vote) = some 0 ∧ (initL freshLimit f1.bytes).map (·.idx.vote) = some 1 := by
  decide

/-! ### non-vacuity -/
example : RoundTrips { term := 3, vote := 2, member := [1, 2, 3], addrs := [(1, [97]), (2, [98, 99])],
    logs := [⟨1, 0, 1, 5, 0, false, false⟩] } ∧
    NonEmpty { term := 3, vote := 2, member := [1, 2, 3], addrs := [(1, [97]), (2, [98, 99])],
      logs := [⟨1, 0, 1, 5, 0, false, false⟩] } := by
  refine ⟨by decide, by decide, ?_⟩
  have : (encIdx { term := 3, vote := 2, member := [1, 2, 3], addrs := [(1, [97]), (2, [98, 99])],
      logs := [⟨1, 0, 1, 5, 0, false, false⟩] }).length = 31 := by decide
  omega

end RNacos.Props.C05
