import RNacos.Lemmas.LogCrash
/-!
# C04 — Raft store is crash-consistent at every file-write boundary

What is proved here is the part of the property that the single-file model can carry: an operation that issues
ONE file write is atomic under the property's crash model, so the crash points inside it are its two ends; the
invariant `WF` (C02) holds at both.  Appends that do not complete an index step and `write_last_applied_log` /
`write_index` (C05) are of this kind.  The append that completes an index step issues two writes (record, then index
entry): the crash point between them is `torn_index_step` – the recovery with its repair (`repairIndex`, added by
fix F24) reconstructs exactly the file the complete append produces.  The remaining multi-write operations
(truncation: index area, then records; rollover; multi-file truncation; the interleaving of the four actors' writes)
are decided by enumeration of every prefix of the real journal of file mutations (`./check C04`), which is where F24,
F25 and F26 were found.
-/
namespace RNacos.Props.C04
open RNacos.LogFile RNacos.Spec.Stream

/-- an append that does not complete an index step issues exactly one file write (the record) -/
theorem append_without_index_step_is_one_write (f : LogFile) (r : Rec) (hfull : isFull f = false)
    (hidx : r.index = endIndex f) (hstep : f.curCount + 1 ≠ f.interval) :
    (write f r).1.bytes =
      RNacos.IndexFile.writeAt f.bytes (if f.needSeek then f.dataCursor else f.pos) (frame (recBody r)) := by
  unfold write
  have hne : ¬ (endIndex f ≠ r.index) := by simp [hidx]
  simp [hfull, hne, hstep]

/-- hence both crash points of such an append hold a well-formed file: before, the old entries; after, the old
entries and the new one (C02's `write_wf`) -/
theorem append_crash_points (f : LogFile) (es : List Rec) (r : Rec) (h : WF f es) (hfull : isFull f = false)
    (hidx : r.index = endIndex f) (hr : RecOK r) (hsz : f.dataCursor + (frame (recBody r)).length < 2 ^ 64) :
    WF f es ∧ WF (write f r).1 (es ++ [r]) :=
  ⟨h, (write_wf f es r h hfull hidx hr hsz).1⟩

/-- recovery from either crash point returns exactly those entries (C02's `load_wf`) -/
theorem recovery_after_append (f : LogFile) (es : List Rec) (r : Rec) (h : WF f es) (hfull : isFull f = false)
    (hidx : r.index = endIndex f) (hr : RecOK r) (hsz : f.dataCursor + (frame (recBody r)).length < 2 ^ 64)
    (fl pre sp : Nat) :
    WF (load f.bytes fl f.startIndex pre sp) es ∧
    WF (load (write f r).1.bytes fl (write f r).1.startIndex pre sp) (es ++ [r]) :=
  ⟨load_wf f es h fl pre sp, load_wf _ _ (write_wf f es r h hfull hidx hr hsz).1 fl pre sp⟩

/-- **the torn index step**: killed after the record that completes an index step was written and before its index
entry was – for any number of earlier index entries and any record sizes – the next start recovers a well-formed file
that holds every old entry and the new record, with the missing index entry written back -/
theorem torn_index_step (f : LogFile) (es : List Rec) (r : Rec) (h : WF f es) (hfull : isFull f = false)
    (hidx : r.index = endIndex f) (hr : RecOK r) (hsz : f.dataCursor + (frame (recBody r)).length < 2 ^ 64)
    (hstep : f.curCount + 1 = f.interval) (fl pre sp : Nat) :
    WF (load (RNacos.IndexFile.writeAt f.bytes (if f.needSeek then f.dataCursor else f.pos) (frame (recBody r)))
          fl f.startIndex pre sp) (es ++ [r]) :=
  torn_index_step_recovers f es r h hfull hidx hr hsz hstep fl pre sp

/-- on a file whose index entries are complete the recovery's repair step changes nothing -/
theorem repair_is_identity_on_complete_files (fuel : Nat) (f : LogFile) (es : List Rec) (h : WF f es) :
    repairIndex fuel f = f := repairIndex_noop fuel f es h

/-! ### non-vacuity -/
example : isFull (create 1 0 0) = false ∧ (create 1 0 0).curCount + 1 ≠ (create 1 0 0).interval := by decide

end RNacos.Props.C04
