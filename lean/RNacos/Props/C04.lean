import RNacos.Lemmas.LogHistory
/-!
# C04 — Raft store is crash-consistent at every file-write boundary

What is proved here is the part of the property that the single-file model can carry: an operation that issues
ONE file write is atomic under the property's crash model, so the crash points inside it are its two ends; the
invariant `WF` (C02) holds at both.  Appends that do not complete an index step and `write_last_applied_log` /
`write_index` (C05) are of this kind.  The operations with several writes – an append that completes an index
step (record, then index entry), a truncation (index area, then records), rollover, multi-file truncation – are
decided by enumeration of every prefix of the real journal of file mutations (`./check C04`), which is where F24
was found; a Lean proof of the repaired recovery (`repairIndex`) for the torn index step is not attempted.
-/
namespace RNacos.Props.C04
open RNacos.LogFile RNacos.Spec.Stream

/-- an append that does not complete an index step issues exactly one file write (the record) -/
theorem append_without_index_step_is_one_write (f : LogFile) (r : Rec) (hfull : isFull f = false)
    (hidx : r.index = endIndex f) (hstep : f.curCount + 1 ≠ f.interval) :
    (write f r).1.bytes =
      RNacos.IndexFile.writeAt f.bytes (if f.needSeek then f.dataCursor else f.pos) (frame (recBody r)) := by
  unfold write
  have hne : ¬ (endIndex f ≠ r.index) := by simp [hidx]
  simp [hfull, hne, hstep]

/-- hence both crash points of such an append hold a well-formed file: before, the old entries; after, the old
entries and the new one (C02's `write_wf`) -/
theorem append_crash_points (f : LogFile) (es : List Rec) (r : Rec) (h : WF f es) (hfull : isFull f = false)
    (hidx : r.index = endIndex f) (hr : RecOK r) (hsz : f.dataCursor + (frame (recBody r)).length < 2 ^ 64) :
    WF f es ∧ WF (write f r).1 (es ++ [r]) :=
  ⟨h, (write_wf f es r h hfull hidx hr hsz).1⟩

/-- recovery from either crash point returns exactly those entries (C02's `load_wf`) -/
theorem recovery_after_append (f : LogFile) (es : List Rec) (r : Rec) (h : WF f es) (hfull : isFull f = false)
    (hidx : r.index = endIndex f) (hr : RecOK r) (hsz : f.dataCursor + (frame (recBody r)).length < 2 ^ 64)
    (fl pre sp : Nat) :
    WF (load f.bytes fl f.startIndex pre sp) es ∧
    WF (load (write f r).1.bytes fl (write f r).1.startIndex pre sp) (es ++ [r]) :=
  ⟨load_wf f es h fl pre sp, load_wf _ _ (write_wf f es r h hfull hidx hr hsz).1 fl pre sp⟩

/-- on a file whose index entries are complete the recovery's repair step changes nothing -/
theorem repair_is_identity_on_complete_files (fuel : Nat) (f : LogFile) (es : List Rec) (h : WF f es) :
    repairIndex fuel f = f := repairIndex_noop fuel f es h

/-! ### non-vacuity -/
example : isFull (create 1 0 0) = false ∧ (create 1 0 0).curCount + 1 ≠ (create 1 0 0).interval := by decide

end RNacos.Props.C04
