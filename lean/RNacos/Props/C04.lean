import RNacos.Lemmas.LogCrash
import RNacos.Lemmas.LogTorn
/-!
# C04 — Raft store is crash-consistent at every file-write boundary

What is proved here is the part of the property that the single-file model can carry: an operation that issues
ONE file write is atomic under the property's crash model, so the crash points inside it are its two ends; the
invariant `WF` (C02) holds at both.  Appends that do not complete an index step and `write_last_applied_log` /
`write_index` (C05) are of this kind.  The append that completes an index step issues two writes (record, then index
entry): the crash point between them is `torn_index_step` – the recovery with its repair (`repairIndex`, added by
fix F24) reconstructs exactly the file the complete append produces.  The truncation inside one file issues two
writes as well (the dropped index entries are zeroed, then the removed records): the crash point between them is
`torn_truncation` – the recovery writes back every dropped index entry and yields the file as it was before the
truncation, a log that existed, for any position of the cut and any number of dropped entries, as long as the records
behind the block of the cut fit the scan limit of `init` (65535 records; see `torn_truncation` for the excluded
region).  The remaining multi-write operations (rollover; multi-file truncation; the interleaving of the four actors'
writes) are decided by enumeration of every prefix of the real journal of file mutations (`./check C04`), which is where F24,
F25 and F26 were found.
-/
namespace RNacos.Props.C04
open RNacos.LogFile RNacos.Spec.Stream

/-- an append that does not complete an index step issues exactly one file write (the record) -/
theorem append_without_index_step_is_one_write (f : LogFile) (r : Rec) (hfull : isFull f = false)
    (hidx : r.index = endIndex f) (hstep : f.curCount + 1 ≠ f.interval) :
    (write f r).1.bytes =
      RNacos.IndexFile.writeAt f.bytes (if f.needSeek then f.dataCursor else f.pos) (frame (recBody r)) := by
  unfold write
  have hne : ¬ (endIndex f ≠ r.index) := by simp [hidx]
  simp [hfull, hne, hstep]

/-- hence both crash points of such an append hold a well-formed file: before, the old entries; after, the old
entries and the new one (C02's `write_wf`) -/
theorem append_crash_points (f : LogFile) (es : List Rec) (r : Rec) (h : WF f es) (hfull : isFull f = false)
    (hidx : r.index = endIndex f) (hr : RecOK r) (hsz : f.dataCursor + (frame (recBody r)).length < 2 ^ 64) :
    WF f es ∧ WF (write f r).1 (es ++ [r]) :=
  ⟨h, (write_wf f es r h hfull hidx hr hsz).1⟩

/-- recovery from either crash point returns exactly those entries (C02's `load_wf`) -/
theorem recovery_after_append (f : LogFile) (es : List Rec) (r : Rec) (h : WF f es) (hfull : isFull f = false)
    (hidx : r.index = endIndex f) (hr : RecOK r) (hsz : f.dataCursor + (frame (recBody r)).length < 2 ^ 64)
    (fl pre sp : Nat) :
    WF (load f.bytes fl f.startIndex pre sp) es ∧
    WF (load (write f r).1.bytes fl (write f r).1.startIndex pre sp) (es ++ [r]) :=
  ⟨load_wf f es h fl pre sp, load_wf _ _ (write_wf f es r h hfull hidx hr hsz).1 fl pre sp⟩

/-- **the torn index step**: killed after the record that completes an index step was written and before its index
entry was – for any number of earlier index entries and any record sizes – the next start recovers a well-formed file
that holds every old entry and the new record, with the missing index entry written back -/
theorem torn_index_step (f : LogFile) (es : List Rec) (r : Rec) (h : WF f es) (hfull : isFull f = false)
    (hidx : r.index = endIndex f) (hr : RecOK r) (hsz : f.dataCursor + (frame (recBody r)).length < 2 ^ 64)
    (hstep : f.curCount + 1 = f.interval) (fl pre sp : Nat) :
    WF (load (RNacos.IndexFile.writeAt f.bytes (if f.needSeek then f.dataCursor else f.pos) (frame (recBody r)))
          fl f.startIndex pre sp) (es ++ [r]) :=
  torn_index_step_recovers f es r h hfull hidx hr hsz hstep fl pre sp

/-- on a file whose index entries are complete the recovery's repair step changes nothing -/
theorem repair_is_identity_on_complete_files (fuel : Nat) (f : LogFile) (es : List Rec) (h : WF f es) :
    repairIndex fuel f = f := repairIndex_noop fuel f es h

/-- **the torn truncation**: `strip_log_to(k)` issues two file writes – the index entries behind the block that holds
the cut are zeroed, then the removed records are.  Killed in between, for any cut inside the file, any number of
dropped index entries and any record sizes, the next start recovers a well-formed file that holds every entry the file
held before the truncation (the repair writes the dropped index entries back one by one): the log exposed is one that
existed, nothing acknowledged is lost and nothing is invented.

Hypothesis `hscan` is forced by the code: `init` scans at most 65535 records behind the last index entry it finds.  A
truncation that drops index entries and leaves more than 65535 records behind the block of the cut – possible only in a
file of more than 65535 records cut back by more than that – is outside the theorem; there the recovered log would end
65535 records behind that block while later record bytes remain in the file (not reached by the enumeration of
`./check C04`, whose histories are far smaller; recorded as a limit in DESIGN.md). -/
theorem torn_truncation (f : LogFile) (es : List Rec) (k : Nat) (h : WF f es)
    (hs : f.startIndex ≤ k) (hlt : k < f.startIndex + es.length)
    (hscan : es.length - (k - f.startIndex) / f.interval * f.interval ≤ 0xffff) (fl pre sp : Nat) :
    ∃ idx len pop, findIdx f k = some (idx, len, pop) ∧
      WF (load (RNacos.IndexFile.writeAt f.bytes (f.indexCursor - len) (List.replicate len 0)) fl f.startIndex pre sp) es :=
  torn_strip_recovers f es k h hs hlt hscan fl pre sp

/-- the bytes named in `torn_truncation` are those `strip_log_to` has written when its first write is done (its
second write, the zeroing of the records, starts from them) -/
theorem truncation_first_write (f : LogFile) (k : Nat) (idx : Idx) (len pop : Nat) (hpop : pop > 0) :
    ∃ g : LogFile, g.bytes = RNacos.IndexFile.writeAt f.bytes (f.indexCursor - len) (List.replicate len 0) ∧
      (stripCore f k idx len pop).bytes =
        RNacos.IndexFile.writeAt g.bytes (moveByCount g.bytes idx g.startIndex (k - idx.logIndex)).1
          (List.replicate (f.dataCursor - (moveByCount g.bytes idx g.startIndex (k - idx.logIndex)).1) 0) := by
  refine ⟨{ f with indexs := f.indexs.take (f.indexs.length - pop), indexCursor := f.indexCursor - len,
                   bytes := RNacos.IndexFile.writeAt f.bytes (f.indexCursor - len) (List.replicate len 0) }, rfl, ?_⟩
  unfold stripCore
  simp [hpop]

/-- a truncation that drops no index entry issues one file write: its crash points are its two ends -/
theorem truncation_without_index_entries_is_one_write (f : LogFile) (k : Nat) (idx : Idx) (len : Nat) :
    (stripCore f k idx len 0).bytes =
      RNacos.IndexFile.writeAt f.bytes (moveByCount f.bytes idx f.startIndex (k - idx.logIndex)).1
        (List.replicate (f.dataCursor - (moveByCount f.bytes idx f.startIndex (k - idx.logIndex)).1) 0) := by
  unfold stripCore
  simp

/-! ### non-vacuity -/
example : isFull (create 1 0 0) = false ∧ (create 1 0 0).curCount + 1 ≠ (create 1 0 0).interval := by decide

/-- the torn truncation on a concrete file (index step 2, five records, cut at index 2: two index entries are
dropped): the hypotheses of `torn_truncation` are met and the file opened from the torn bytes returns all five records -/
example :
    let f := (run (create 1 0 0 2, []) [.append ⟨1, 1, [7]⟩, .append ⟨2, 1, [8, 8]⟩, .append ⟨3, 2, [9]⟩,
      .append ⟨4, 2, []⟩, .append ⟨5, 3, [1]⟩]).1
    f.startIndex ≤ 2 ∧ 2 < endIndex f ∧ ((findIdx f 2).map fun x => x.2.2) = some 2 ∧
    ((findIdx f 2).map fun x =>
      readRecords (load (RNacos.IndexFile.writeAt f.bytes (f.indexCursor - x.2.1) (List.replicate x.2.1 0)) f.fileLen 1 0 0) 0 9) =
      some (some [⟨1, 1, [7]⟩, ⟨2, 1, [8, 8]⟩, ⟨3, 2, [9]⟩, ⟨4, 2, []⟩, ⟨5, 3, [1]⟩]) := by
  decide +kernel

end RNacos.Props.C04
