import RNacos.Lemmas.Naming
/-!
# C11 — registry bookkeeping: counters, indexes, reverse maps always match instances

Model: `RNacos/Model/Naming.lean`.  Helper lemmas: `RNacos/Lemmas/{NamingSvc,Naming}.lean`.
The invariant is proved for **every** sequence of the actor's operations: register/update from any
origin with any update tag, deregistration with any client id, client removal, health/instance time-out
checks at any times, console removal of services, process-range refresh.
-/
namespace RNacos.Props.C11
open RNacos RNacos.Naming

/-- the operations of the registry (one per `NamingCmd` that changes state) -/
inductive NOp where
  | update (k : SKey) (inst : Inst) (tag : Option Tag) (fromSync : Bool) (now : Int) (hash : Nat)
  | remove (k : SKey) (short : ShortKey) (client : Option String) (now : Int)
  | removeClient (c : String) (now : Int)
  | timeCheck (now : Int)
  | removeService (k : SKey)
  | clearEmpty (k : SKey) (now : Int)
  /-- the apply of a committed Raft removal of a persistent record -/
  | raftRemove (k : SKey) (short : ShortKey) (now : Int)
  /-- another node's digest of its gRPC connections (`SyncDistroClientInstances` -> `DiffGrpcDistroData`) -/
  | digest (data : List (String × List IKey)) (now : Int)
  /-- the result of the TCP probe of a persistent instance's host (`PerpetualHostSniffing`) -/
  | probe (k : SKey) (short : ShortKey) (ok : Bool)
  deriving Repr

/-- a change of the process range (`ClusterRefreshProcessRange`) keeps the invariant as well; it is not an `NOp` only
because it carries a function (the hash of a service key) -/
theorem inv_range_change (n : Naming) (r : Nat × Nat) (hashOf : SKey → Nat) (h : Inv n) : Inv (n.refreshRange r hashOf) :=
  inv_refreshRange n r hashOf h

def step (n : Naming) : NOp → Naming
  | .update k i t fs now h => n.updateInstance k i t fs now h
  | .remove k s c now => (n.removeInstance k s c now).1
  | .removeClient c now => n.removeClient c now
  | .timeCheck now => n.timeCheck now
  | .removeService k => (n.removeService k).1
  | .clearEmpty k now => n.clearOneEmpty k now
  | .raftRemove k s now => n.raftRemove k s now
  | .digest data now => (n.diffClientData data now).1
  | .probe k s ok => n.probe k s ok

theorem inv_raftRemove (n : Naming) (k : SKey) (short : ShortKey) (now : Int) (h : Inv n) : Inv (n.raftRemove k short now) := by
  unfold Naming.raftRemove
  split
  · exact h
  · split
    · split
      · exact h
      · exact inv_removeInstance n k short none now h
    · exact inv_removeInstance n k short none now h

theorem inv_diffClientData (n : Naming) (data : List (String × List IKey)) (now : Int) (h : Inv n) :
    Inv (n.diffClientData data now).1 := by
  unfold Naming.diffClientData
  simp only
  generalize (data.flatMap fun e => match AL.get? n.clientSets e.1 with
    | some v => v.filter fun ik => !e.2.contains ik
    | none => []) = keys
  induction keys generalizing n with
  | nil => exact h
  | cons ik rest ih =>
    simp only [List.foldl_cons]
    exact ih _ (inv_removeInstance n ik.skey ik.short none now h)

def run (n : Naming) (ops : List NOp) : Naming := ops.foldl step n

/-- every registration handed in respects the origin convention (HTTP handlers never set a client id) -/
def OpsOK (ops : List NOp) : Prop := ∀ op ∈ ops, match op with
  | .update _ i _ _ _ _ => OriginOK i
  | _ => True

theorem inv_step (n : Naming) (op : NOp) (h : Inv n) (hop : match op with | .update _ i _ _ _ _ => OriginOK i | _ => True) :
    Inv (step n op) := by
  cases op with
  | update k i t fs now hs => exact inv_updateInstance n k i t fs now hs h hop
  | remove k s c now => exact inv_removeInstance n k s c now h
  | removeClient c now => exact inv_removeClient n c now h
  | timeCheck now => exact inv_timeCheck n now h
  | removeService k => exact inv_removeService n k h
  | clearEmpty k now => exact inv_clearOneEmpty n k now h
  | raftRemove k s now => exact inv_raftRemove n k s now h
  | digest data now => exact inv_diffClientData n data now h
  | probe k s ok => exact inv_probe n k s ok h

/-- **the bookkeeping invariant holds at every moment** -/
theorem inv_reachable (ops : List NOp) (hok : OpsOK ops) : Inv (run {} ops) := by
  have : ∀ (ops : List NOp) (n : Naming), Inv n → OpsOK ops → Inv (run n ops) := by
    intro ops
    induction ops with
    | nil => intro n h _; exact h
    | cons op rest ih =>
      intro n h hok
      exact ih _ (inv_step n op h (hok op (by simp))) (fun o ho => hok o (by simp [ho]))
  exact this ops {} inv_empty hok

/-! ## the property, clause by clause -/

/-- **reported instance count = number of instances returned; healthy count = number of healthy ones** -/
theorem counters_exact (ops : List NOp) (hok : OpsOK ops) (k : SKey) (s : Svc)
    (hs : AL.get? (run {} ops).services k = some s) :
    s.instSize = ((run {} ops).queryAll k).length ∧
    s.healthySize = (((run {} ops).queryAll k).filter (·.healthy)).length := by
  have hi := (inv_reachable ops hok).svcs k s hs
  unfold Naming.queryAll
  rw [hs]
  refine ⟨by rw [hi.size]; simp, ?_⟩
  rw [hi.healthy]
  congr 1
  rw [List.filter_map]
  simp [Function.comp_def]

/-- **the set of persistent instances equals the non-ephemeral ones** -/
theorem persistent_set_exact (ops : List NOp) (hok : OpsOK ops) (k : SKey) (s : Svc)
    (hs : AL.get? (run {} ops).services k = some s) (key : ShortKey) :
    key ∈ s.perpetual ↔ ∃ i, AL.get? s.insts key = some i ∧ i.ephemeral = false :=
  ((inv_reachable ops hok).svcs k s hs).perp key

/-- **every service with data is listed exactly once in the index** (and nothing else is) -/
theorem index_exact (ops : List NOp) (hok : OpsOK ops) :
    (run {} ops).nsIndex.Nodup ∧ ∀ k, k ∈ (run {} ops).nsIndex ↔ (AL.get? (run {} ops).services k).isSome = true :=
  ⟨(inv_reachable ops hok).idxNodup, (inv_reachable ops hok).idx⟩

/-- **every instance recorded for a client connection exists and belongs to that connection** -/
theorem client_map_exact (ops : List NOp) (hok : OpsOK ops) (c : String) (ks : List IKey)
    (hc : AL.get? (run {} ops).clientSets c = some ks) (ik : IKey) (hik : ik ∈ ks) :
    ∃ s i, AL.get? (run {} ops).services ik.skey = some s ∧ AL.get? s.insts ik.short = some i ∧ i.clientId = c := by
  obtain ⟨s, i, h1, h2, h3, _, _⟩ := ((inv_reachable ops hok).clients c ks hc).2 ik hik
  exact ⟨s, i, h1, h2, h3⟩

/-- **empty services are only dropped when they really have no instances**: whenever the clean-up or
the console removes a service from a reachable state, that service had no instance -/
theorem empty_drop_safe (n : Naming) (h : Inv n) (k : SKey) (now : Int) (s : Svc)
    (hs : AL.get? n.services k = some s) (hdrop : AL.get? (n.clearOneEmpty k now).services k = none) :
    s.insts = [] := by
  unfold Naming.clearOneEmpty at hdrop
  rw [hs] at hdrop
  simp only at hdrop
  split at hdrop
  · rename_i hcond
    have hsz : s.instSize ≤ 0 := by
      simp only [Bool.and_eq_true, decide_eq_true_eq] at hcond; exact hcond.1
    have := (h.svcs k s hs).size
    cases hl : s.insts with
    | nil => rfl
    | cons a t => rw [hl] at this; simp at this; omega
  · rw [hs] at hdrop; cases hdrop

/-- the console cannot remove a service that still has instances -/
theorem console_remove_refused (n : Naming) (h : Inv n) (k : SKey) (s : Svc)
    (hs : AL.get? n.services k = some s) (hne : s.insts ≠ []) : (n.removeService k) = (n, false) := by
  unfold Naming.removeService
  rw [hs]
  simp only
  have hsz := (h.svcs k s hs).size
  have : ¬ (s.instSize ≤ 0) := by
    cases hl : s.insts with
    | nil => exact absurd hl hne
    | cons a t => rw [hl] at hsz; simp at hsz; omega
  simp [this]

/-! ## non-vacuity -/
example : OpsOK [.update ⟨"ns", "g", "s"⟩ ⟨"1.1.1.1", 80, 1000, true, true, true, true, 0, "c1", 0⟩ none false 5 0,
    .update ⟨"ns", "g", "s"⟩ ⟨"1.1.1.1", 80, 1000, true, true, true, false, 2, "2_x", 0⟩ none true 9 0,
    .removeClient "c1" 10] := by
  intro op hop
  simp only [List.mem_cons, List.mem_nil_iff, or_false] at hop
  rcases hop with rfl | rfl | rfl <;> simp [OriginOK]

end RNacos.Props.C11
