import RNacos.Model.Distro
/-!
# C14 — distro ownership: each service has exactly one owner and routing agrees

Model: `RNacos/Model/Distro.lean` (`get_current_process_range`, `ProcessRange::is_range`,
`NodeManage::route_addr`).  The theorems hold for **every** cluster size, every validity pattern and
every hash value (the correspondence run covers sizes 1..5 exhaustively on the real actor).
-/
namespace RNacos.Props.C14
open RNacos.Distro

/-- `all_nodes` is a `BTreeMap` keyed by node id: ids are distinct -/
def WFView (v : View) : Prop := (v.map (·.id)).Nodup

theorem inj_of_nodup_map : ∀ {l : List Node}, (l.map (·.id)).Nodup → ∀ {a b : Node}, a ∈ l → b ∈ l →
    a.id = b.id → a = b := by
  intro l
  induction l with
  | nil => intro _ a b ha; cases ha
  | cons x xs ih =>
    intro h a b ha hb hid
    simp only [List.map_cons, List.nodup_cons, List.mem_map, not_exists, not_and] at h
    obtain ⟨hx, hxs⟩ := h
    simp only [List.mem_cons] at ha hb
    rcases ha with rfl | ha <;> rcases hb with rfl | hb
    · rfl
    · exact absurd hid.symm (hx b hb)
    · exact absurd hid (hx a ha)
    · exact ih hxs ha hb hid

theorem nodup_filter {v : View} (hv : WFView v) (p : Node → Bool) : WFView (v.filter p) := by
  unfold WFView at *
  exact (List.filter_sublist.map _).nodup hv

/-- for a live node of the view, "valid for me" coincides with "status == Valid" -/
theorem filter_validFor_eq (v : View) (hv : WFView v) (n : Node) (hn : n ∈ v) (hval : n.valid = true) :
    v.filter (isValidFor n.id) = validNodes v := by
  unfold validNodes
  apply List.filter_congr
  intro m hm
  unfold isValidFor
  by_cases hid : m.id = n.id
  · have : m = n := by
      unfold WFView at hv
      exact inj_of_nodup_map hv hm hn hid
    subst this; simp [hval]
  · simp [hid]

/-- position of a member in a list with distinct ids -/
theorem position_spec (l : List Node) (hl : WFView l) (n : Node) (hn : n ∈ l) :
    ∃ hi : positionOf (fun m => m.id == n.id) l < l.length,
      l[positionOf (fun m => m.id == n.id) l] = n ∧
      ∀ j (hj : j < l.length), l[j].id = n.id → j = positionOf (fun m => m.id == n.id) l := by
  have hany : l.any (fun m => m.id == n.id) = true := by
    rw [List.any_eq_true]; exact ⟨n, hn, by simp⟩
  have hpos : positionOf (fun m => m.id == n.id) l = l.findIdx (fun m => m.id == n.id) := by
    unfold positionOf; simp [hany]
  rw [hpos]
  have hlt : l.findIdx (fun m => m.id == n.id) < l.length :=
    List.findIdx_lt_length_of_exists ⟨n, hn, by simp⟩
  have hp := List.findIdx_getElem (w := hlt)
  have hinj := @inj_of_nodup_map l hl
  have heq : l[l.findIdx (fun m => m.id == n.id)] = n :=
    hinj (List.getElem_mem hlt) hn (by simpa using hp)
  refine ⟨hlt, heq, ?_⟩
  intro j hj hjid
  have hpw := List.pairwise_iff_getElem.mp hl
  have hidx : l[l.findIdx (fun m => m.id == n.id)].id = n.id := by rw [heq]
  rcases Nat.lt_trichotomy j (l.findIdx (fun m => m.id == n.id)) with hlt' | heq' | hgt'
  · exfalso
    have := hpw j (l.findIdx (fun m => m.id == n.id)) (by simpa using hj) (by simpa using hlt) hlt'
    simp only [List.getElem_map] at this
    exact this (by rw [hjid, hidx])
  · exact heq'
  · exfalso
    have := hpw (l.findIdx (fun m => m.id == n.id)) j (by simpa using hlt) (by simpa using hj) hgt'
    simp only [List.getElem_map] at this
    exact this (by rw [hjid, hidx])

/-- **A live node considers itself the owner of hash `h` iff every live node routes `h` to it.** -/
theorem owner_iff_route (v : View) (hv : WFView v) (n : Node) (hn : n ∈ v) (hval : n.valid = true)
    (h : Nat) : isRange (ownerRange v n.id) h = true ↔ route v h = some n.id := by
  have hne : v.isEmpty = false := by cases v <;> simp_all
  have hnV : n ∈ validNodes v := by unfold validNodes; simp [hn, hval]
  have hVwf : WFView (validNodes v) := nodup_filter hv _
  obtain ⟨hi, hget, huniq⟩ := position_spec (validNodes v) hVwf n hnV
  have hLpos : 0 < (validNodes v).length := List.length_pos_of_mem hnV
  have hVne : (validNodes v).isEmpty = false := by
    cases hV : validNodes v with
    | nil => rw [hV] at hLpos; simp at hLpos
    | cons a t => rfl
  unfold ownerRange route
  simp only [hne, Bool.false_eq_true, if_false, filter_validFor_eq v hv n hn hval, hVne]
  have hmod : h % (validNodes v).length < (validNodes v).length := Nat.mod_lt _ hLpos
  rw [List.getElem?_eq_getElem hmod]
  simp only [Option.map_some, Option.some.injEq]
  unfold isRange
  simp only [Bool.or_eq_true, decide_eq_true_eq, beq_iff_eq]
  constructor
  · rintro (hlt | heq)
    · have h1 : (validNodes v).length = 1 := by omega
      have h0 : h % (validNodes v).length = positionOf (fun m => m.id == n.id) (validNodes v) := by
        rw [h1] at hi ⊢; omega
      simp only [h0, hget]
    · simp only [heq, hget]
  · intro hid
    right
    exact huniq _ hmod hid

/-- **Exactly one owner.** In every view with at least one live node, every hash value is owned by
exactly one live node, and that node is where the write is routed. -/
theorem exactly_one_owner (v : View) (hv : WFView v) (hlive : ∃ n ∈ v, n.valid = true) (h : Nat) :
    ∃ n ∈ validNodes v, isRange (ownerRange v n.id) h = true ∧ route v h = some n.id ∧
      ∀ m ∈ validNodes v, isRange (ownerRange v m.id) h = true → m = n := by
  obtain ⟨n0, hn0, hval0⟩ := hlive
  have hn0V : n0 ∈ validNodes v := by unfold validNodes; simp [hn0, hval0]
  have hLpos : 0 < (validNodes v).length := List.length_pos_of_mem hn0V
  have hmod : h % (validNodes v).length < (validNodes v).length := Nat.mod_lt _ hLpos
  let n := (validNodes v)[h % (validNodes v).length]
  have hnV : n ∈ validNodes v := List.getElem_mem hmod
  have hnv : n ∈ v ∧ n.valid = true := by
    unfold validNodes at hnV; simpa using hnV
  have hroute : route v h = some n.id := by
    unfold route
    have hVne : (validNodes v).isEmpty = false := by
      cases hV : validNodes v with
      | nil => rw [hV] at hLpos; simp at hLpos
      | cons a t => rfl
    simp only [hVne, Bool.false_eq_true, if_false, List.getElem?_eq_getElem hmod, Option.map_some]
    rfl
  refine ⟨n, hnV, (owner_iff_route v hv n hnv.1 hnv.2 h).mpr hroute, hroute, ?_⟩
  intro m hmV hm
  have hmv : m ∈ v ∧ m.valid = true := by unfold validNodes at hmV; simpa using hmV
  have hr := (owner_iff_route v hv m hmv.1 hmv.2 h).mp hm
  rw [hroute] at hr
  have hid : n.id = m.id := by simpa using hr
  exact inj_of_nodup_map hv hmv.1 hnv.1 hid.symm

/-- no service is left without an owner because some node is down (corollary, stated as in the
property text): the set of owners among the live nodes is never empty -/
theorem never_unowned (v : View) (hv : WFView v) (hlive : ∃ n ∈ v, n.valid = true) (h : Nat) :
    ∃ n ∈ v, n.valid = true ∧ isRange (ownerRange v n.id) h = true := by
  obtain ⟨n, hnV, ho, _, _⟩ := exactly_one_owner v hv hlive h
  have : n ∈ v ∧ n.valid = true := by unfold validNodes at hnV; simpa using hnV
  exact ⟨n, this.1, this.2, ho⟩

/-! ## the cached range follows the view at every status tick -/

/-- after every `check_node_status` tick the cached owner range is the range of the *current* view –
whatever happened before (nodes timing out, nodes reporting in again) -/
theorem range_fresh_after_tick (m : NM) (timedOut : Nat → Bool) :
    (m.tick timedOut).range = ownerRange (m.tick timedOut).view m.loc := rfl

/-- hence, once the tick has run, a live local node owns exactly the keys routed to it -/
theorem owner_exact_after_tick (m : NM) (timedOut : Nat → Bool) (n : Node)
    (hv : WFView (m.tick timedOut).view) (hn : n ∈ (m.tick timedOut).view) (hval : n.valid = true)
    (hloc : n.id = m.loc) (h : Nat) :
    isRange (m.tick timedOut).range h = true ↔ route (m.tick timedOut).view h = some n.id := by
  rw [range_fresh_after_tick, ← hloc]
  exact owner_iff_route _ hv n hn hval h

/-- a node that reports in again does not change the cached range by itself (the window until the next
tick is at most the 3 s period – runtime, not modelled further) -/
theorem active_keeps_range (m : NM) (id : Nat) : (m.active id).range = m.range := rfl

/-! ## the rule the code used before the `fix:` commit (index among **all** nodes) is wrong -/

/-- pre-fix `get_current_process_range` -/
def ownerRangeOld (v : View) (loc : Nat) : Nat × Nat :=
  if v.isEmpty then (0, 1)
  else (positionOf (fun n => n.id == loc) v, (v.filter (isValidFor loc)).length)

/-- counter-example kept visible: nodes 1 (down), 2, 3 — hash residue 0 is routed to node 2 but owned
by nobody under the old rule (node 2 owns residue 1, node 3 owns "residue 2 of 2"). -/
theorem old_rule_counterexample :
    let v : View := [⟨1, false⟩, ⟨2, true⟩, ⟨3, true⟩]
    route v 0 = some 2 ∧ isRange (ownerRangeOld v 2) 0 = false ∧ isRange (ownerRangeOld v 3) 0 = false := by
  decide

/-! ## non-vacuity -/
example : WFView [⟨1, false⟩, ⟨2, true⟩, ⟨3, true⟩] ∧ (∃ n ∈ ([⟨1, false⟩, ⟨2, true⟩, ⟨3, true⟩] : View), n.valid = true) := by
  refine ⟨by unfold WFView; decide, ⟨2, true⟩, by simp, rfl⟩

example : isRange (ownerRange [⟨1, false⟩, ⟨2, true⟩, ⟨3, true⟩] 2) 0 = true ∧
    isRange (ownerRange [⟨1, false⟩, ⟨2, true⟩, ⟨3, true⟩] 3) 1 = true := by decide

end RNacos.Props.C14
