import RNacos.Lemmas.MgrSplit
import RNacos.Lemmas.LogHistory
/-!
# C03 — Raft log: truncation removes exactly the suffix; log stays appendable

Same model and invariant as C02 (`RNacos/Model/LogFile.lean`, `WF f es`).  The theorems are stated for every
file that holds some entry list `es` – any number of index entries, any record sizes, any cursor state, freshly
written or reopened – and every cut point `k`.
-/
namespace RNacos.Props.C03
open RNacos.LogFile RNacos.Spec.Stream

/-- **the cut**: deleting from `k` (inside the log) leaves a file that holds exactly the entries below `k` -/
theorem truncate_keeps_prefix (f : LogFile) (es : List Rec) (k : Nat) (h : WF f es)
    (hs : f.startIndex ≤ k) (hlt : k < endIndex f) :
    ∃ f', strip f k = some f' ∧ WF f' (es.take (k - f.startIndex)) ∧ endIndex f' = k := by
  obtain ⟨f', hf', hw⟩ := strip_wf f es k h hs hlt
  refine ⟨f', hf', hw, ?_⟩
  have hend := endIndex_wf f es h
  rw [endIndex_wf f' _ hw, List.length_take]
  have hst : f'.startIndex = f.startIndex := by
    have hs' : ¬ (k ≥ endIndex f) := by omega
    unfold strip at hf'
    simp only [hs', if_false] at hf'
    split at hf'
    · cases hf'
    · cases hf'
      unfold refreshTerm
      split
      · split
        · simp only [stripCore]; split <;> rfl
        · simp only [stripCore]; split <;> rfl
      · simp only [stripCore]; split <;> rfl
  rw [hst]; omega

/-- every entry below `k` is still there, unchanged -/
theorem below_cut_unchanged (es : List Rec) (n i : Nat) (hi : i < n) (hn : n ≤ es.length) :
    (es.take n)[i]'(by simp; omega) = es[i]'(by omega) := by
  simp

/-- **entries at or above `k` are unreadable**: whatever is read afterwards has an index below `k` -/
theorem above_cut_unreadable (f : LogFile) (es : List Rec) (k : Nat) (h : WF f es)
    (hs : f.startIndex ≤ k) (hlt : k < endIndex f) (f' : LogFile) (hf' : strip f k = some f') (a b : Nat)
    (rs : List Rec) (hr : readRecords f' a b = some rs) : ∀ r ∈ rs, r.index < k := by
  obtain ⟨g, hg, hw, he⟩ := truncate_keeps_prefix f es k h hs hlt
  rw [hf'] at hg; cases hg
  rw [read_wf f' _ a b hw] at hr
  cases hr
  intro r hr
  have hmem : r ∈ es.take (k - f.startIndex) := List.mem_of_mem_drop (List.mem_of_mem_take hr)
  obtain ⟨i, hi, rfl⟩ := List.getElem_of_mem hmem
  rw [hw.idx i hi]
  have : i < k - f.startIndex := by simp at hi; omega
  have hst : f'.startIndex + (es.take (k - f.startIndex)).length = k := by rw [← endIndex_wf f' _ hw]; exact he
  simp at hst hi
  omega

/-- a truncation never fills a file: the index cursor and the data cursor only move back -/
theorem strip_not_full (f : LogFile) (es : List Rec) (k : Nat) (h : WF f es) (hs : f.startIndex ≤ k)
    (hlt : k < endIndex f) (f' : LogFile) (hf' : strip f k = some f') (hfull : isFull f = false) :
    isFull f' = false := by
  obtain ⟨g, hg, hw, _⟩ := truncate_keeps_prefix f es k h hs hlt
  rw [hf'] at hg; cases hg
  have hend := endIndex_wf f es h
  have hn : k - f.startIndex ≤ es.length := by omega
  unfold isFull at hfull ⊢
  simp only [Bool.or_eq_false_iff, decide_eq_false_iff_not] at hfull ⊢
  have hst : f'.startIndex = f.startIndex ∧ f'.interval = f.interval ∧ f'.areaEnd = f.areaEnd := by
    have hs' : ¬ (k ≥ endIndex f) := by omega
    unfold strip at hf'
    simp only [hs', if_false] at hf'
    split at hf'
    · cases hf'
    · cases hf'
      unfold refreshTerm
      split
      · split
        · simp only [stripCore]; split <;> exact ⟨rfl, rfl, rfl⟩
        · simp only [stripCore]; split <;> exact ⟨rfl, rfl, rfl⟩
      · simp only [stripCore]; split <;> exact ⟨rfl, rfl, rfl⟩
  have hic : f'.indexCursor ≤ f.indexCursor := by
    rw [hw.ic, h.ic, hst.2.1]
    unfold idxBytes
    rw [List.length_take, Nat.min_eq_left hn]
    have hjn : (k - f.startIndex) / f.interval * f.interval ≤ k - f.startIndex := Nat.div_mul_le_self _ _
    rw [idxBytesUpTo_take f.interval es (k - f.startIndex) _ hjn]
    have := idxBytesUpTo_mono f.interval es ((k - f.startIndex) / f.interval) (es.length / f.interval)
      (Nat.div_le_div_right hn)
    omega
  have hdc : f'.dataCursor ≤ f.dataCursor := by
    rw [hw.dc, h.dc, offsetOf_take_end es _ hn]
    exact offsetOf_mono es _ _ hn
  rw [hst.2.2]
  omega

/-- **the log stays appendable**: the next append at index `k` is accepted and becomes the last entry -/
theorem append_at_cut_accepted (f : LogFile) (es : List Rec) (k : Nat) (h : WF f es) (hs : f.startIndex ≤ k)
    (hlt : k < endIndex f) (f' : LogFile) (hf' : strip f k = some f') (hfull : isFull f = false)
    (r : Rec) (hr : RecOK r) (hk : r.index = k) (hsz : f'.dataCursor + (frame (recBody r)).length < 2 ^ 64) :
    WF (write f' r).1 (es.take (k - f.startIndex) ++ [r]) ∧
      ((write f' r).2 = .success ∨ (write f' r).2 = .successToEnd) := by
  obtain ⟨g, hg, hw, he⟩ := truncate_keeps_prefix f es k h hs hlt
  rw [hf'] at hg; cases hg
  have hnf := strip_not_full f es k h hs hlt f' hf' hfull
  obtain ⟨h1, _, h3⟩ := write_wf f' _ r hw hnf (by rw [he]; exact hk) hr hsz
  exact ⟨h1, h3⟩

/-- **before and after a restart, and whatever is appended later**: the removed suffix never comes back.
After the cut, any further history – appends of shorter, equal or longer records, more cuts, reopens – leaves
a file that holds exactly the specified log, which no longer contains the removed entries. -/
theorem removed_never_returns (f : LogFile) (es : List Rec) (k : Nat) (h : WF f es) (hs : f.startIndex ≤ k)
    (hlt : k < endIndex f) (f' : LogFile) (hf' : strip f k = some f') (ops : List Op) (hok : HistOK f' ops) :
    WF (run (f', es.take (k - f.startIndex)) ops).1 (run (f', es.take (k - f.startIndex)) ops).2 := by
  obtain ⟨g, hg, hw, _⟩ := truncate_keeps_prefix f es k h hs hlt
  rw [hf'] at hg; cases hg
  exact run_wf ops f' _ hw hok

/-- the term reported after the cut is that of the last remaining entry -/
theorem truncate_reports_last_term (f : LogFile) (es : List Rec) (k : Nat) (h : WF f es)
    (hs : f.startIndex < k) (hlt : k < endIndex f) (hsp : f.splitOff < k) (f' : LogFile) (hf' : strip f k = some f')
    (hne : es.take (k - f.startIndex) ≠ []) :
    f'.lastTerm = ((es.take (k - f.startIndex)).getLast hne).term := by
  have hend := endIndex_wf f es h
  have hs' : ¬ (k ≥ endIndex f) := by omega
  unfold strip at hf'
  simp only [hs', if_false] at hf'
  rw [findIdx_layout f es k h.ivl h.indexs h.bound (by omega) (by omega)] at hf'
  cases hf'
  have hw := stripCore_wf' f es k _ _ _ h rfl rfl rfl (by omega) (by omega)
  have hek : endIndex (stripCore f k (entry f.startIndex f.interval es ((k - f.startIndex) / f.interval))
      (tailLen f.interval es (es.length / f.interval) ((k - f.startIndex) / f.interval))
      (es.length / f.interval - (k - f.startIndex) / f.interval)) = k := by
    rw [endIndex_wf _ _ hw, List.length_take]
    have : (stripCore f k (entry f.startIndex f.interval es ((k - f.startIndex) / f.interval))
      (tailLen f.interval es (es.length / f.interval) ((k - f.startIndex) / f.interval))
      (es.length / f.interval - (k - f.startIndex) / f.interval)).startIndex = f.startIndex := by
      simp only [stripCore]; split <;> rfl
    rw [this]; omega
  apply refreshTerm_lastTerm _ _ k hw hne hek.symm
  rw [hek]
  have : (stripCore f k (entry f.startIndex f.interval es ((k - f.startIndex) / f.interval))
      (tailLen f.interval es (es.length / f.interval) ((k - f.startIndex) / f.interval))
      (es.length / f.interval - (k - f.startIndex) / f.interval)).splitOff = f.splitOff := by
    simp only [stripCore]; split <;> rfl
  rw [this]; exact hsp

/-- a cut at or beyond the end is a no-op; a cut below the file's first index is refused, the file unchanged -/
theorem truncate_outside (f : LogFile) (es : List Rec) (k : Nat) (h : WF f es) :
    (endIndex f ≤ k → strip f k = some f) ∧ (k < f.startIndex → strip f k = none) :=
  ⟨strip_noop f k, strip_below f es k h⟩

/-! ### non-vacuity -/
example :
    let f := (run (create 1 0 0, []) [.append ⟨1, 1, [7]⟩, .append ⟨2, 1, [8, 8]⟩, .append ⟨3, 2, [9]⟩]).1
    f.startIndex ≤ 2 ∧ 2 < endIndex f ∧ (strip f 2).isSome ∧
    ((strip f 2).map fun g => readRecords g 0 9) = some (some [⟨1, 1, [7]⟩]) := by
  decide +kernel

end RNacos.Props.C03

/-! ## the whole log: several files (manager level) -/
namespace RNacos.Props.C03
open RNacos.LogManager RNacos.LogStore

/-- every visible entry lies below the next expected index -/
theorem absEnts_lt_next (ys : List File) (l : File) (hc : Chain (ys ++ [l])) :
    ∀ e ∈ absEnts (ys ++ [l]), e.index < endIdx l := by
  obtain ⟨hp, hl, _⟩ := (chain_snoc_iff ys l).1 hc
  intro e he
  rw [absEnts_snoc, List.mem_append] at he
  rcases he with he | he
  · simp only [absEnts, List.mem_flatMap] at he
    obtain ⟨f, hf, hef⟩ := he
    have hm := pre_mem ys _ hp f hf
    have := (mem_visible_bounds f hm.2.1 e hef).2
    have := hl.hi
    omega
  · exact (mem_visible_bounds l hl e he).2

/-- **`delete_logs_from(k)` refines the specification's `deleteFrom`, in one file or in several**: exactly the entries
from `k` on disappear, the next append is expected at `k` (or where it was, for a cut beyond the end), the file that
holds the cut is the open log - for every cut that is not below a compaction / snapshot pointer (`hk`, `hk0`: Raft
cuts only uncommitted entries) -/
theorem manager_delete_refines (fs : List File) (hc : Chain fs) (hne : fs ≠ []) (k t : Nat) (p : Option (Nat × Nat))
    (hk : ∀ f ∈ fs, f.start < f.splitOff → f.splitOff ≤ k)
    (hk0 : ∀ f0, fs.head? = some f0 → f0.start ≤ k) :
    Chain (strip ⟨fs, p⟩ k).files ∧
    absEnts (strip ⟨fs, p⟩ k).files = (deleteFrom { ents := absEnts fs, next := absNext fs, lastTerm := t, prePtr := p } k).ents ∧
    absNext (strip ⟨fs, p⟩ k).files = (deleteFrom { ents := absEnts fs, next := absNext fs, lastTerm := t, prePtr := p } k).next := by
  obtain ⟨h1, h2, h3⟩ := strip_spec fs p hc hne k hk hk0
  rcases snoc_cases fs with h | ⟨ys, l, h⟩
  · exact absurd h hne
  · subst h
    refine ⟨h1, ?_, ?_⟩
    · rw [h2]
      simp only [deleteFrom, absNext_snoc]
      by_cases hge : k ≥ endIdx l
      · simp only [hge, if_true]
        rw [List.filter_eq_self]
        intro e he
        have := absEnts_lt_next ys l hc e he
        simp; omega
      · simp only [hge, if_false]
    · rw [h3]
      simp only [deleteFrom, absNext_snoc, Option.map_some]
      by_cases hge : k ≥ endIdx l
      · simp only [hge, if_true]; congr 1; omega
      · simp only [hge, if_false]; congr 1; omega

/-- **compaction / installation pointer**: everything up to the pointer's index disappears, the pointer takes its
place, later entries and the next expected index are untouched - for a pointer inside the log (`hend`) and not below
the previous one (`hlo`).  At the excluded point - a pointer beyond the end of a non-empty log, i.e. a snapshot installed
on a node that fell behind - the unrepaired code kept the old log and refused every later entry (defect F28) -/
theorem manager_pointer_refines (full : File → Bool) (hfresh : ∀ f : File, f.recs = [] → full f = false)
    (fs : List File) (hc : Chain fs) (i t lt : Nat) (p : Option (Nat × Nat))
    (hend : ∀ l, fs.getLast? = some l → i + 1 ≤ endIdx l)
    (hlo : ∀ f0, fs.head? = some f0 → f0.splitOff ≤ i + 1) :
    Chain (savePointerFs full fs i t) ∧
    absEnts (savePointerFs full fs i t) = (LogStore.savePointer { ents := absEnts fs, next := absNext fs, lastTerm := lt, prePtr := p } i t).ents ∧
    absNext (savePointerFs full fs i t) = (LogStore.savePointer { ents := absEnts fs, next := absNext fs, lastTerm := lt, prePtr := p } i t).next := by
  obtain ⟨h1, h2, h3⟩ := savePointer_spec full hfresh fs hc i t hend hlo
  refine ⟨h1, ?_, ?_⟩
  · by_cases hne : fs = []
    · subst hne; simp only [LogStore.savePointer, absNext, List.getLast?_nil, Option.map_none]; exact (h2 rfl).1
    · rcases snoc_cases fs with h | ⟨ys, l, h⟩
      · exact absurd h hne
      · rw [(h3 hne).1]; subst h
        simp only [LogStore.savePointer, absNext_snoc]
        rfl
  · by_cases hne : fs = []
    · subst hne; simp only [LogStore.savePointer, absNext, List.getLast?_nil, Option.map_none]; exact (h2 rfl).2
    · rcases snoc_cases fs with h | ⟨ys, l, h⟩
      · exact absurd h hne
      · rw [(h3 hne).2]; subst h
        simp only [LogStore.savePointer, absNext_snoc]

/-- **snapshot installation** (the log part of `finalize_snapshot_installation`, C08): for EVERY catalogue of files the
node held - no hypothesis on it at all: empty, ending below the snapshot (F28), reaching beyond it (F29), holding
pointers of its own - the log is afterwards the list specification's: the snapshot's pointer alone, and the entry after
the snapshot is the one accepted next; the catalogue invariant is re-established -/
theorem manager_install_refines (full : File → Bool) (hfresh : ∀ f : File, f.recs = [] → full f = false)
    (m : Mgr) (s : LogStore.Store) (i t : Nat) :
    Chain (install full m i t).files ∧
    absEnts (install full m i t).files = (LogStore.install s i t).ents ∧
    absNext (install full m i t).files = (LogStore.install s i t).next ∧
    (install full m i t).prePtr = m.prePtr := by
  have h := writeOne_spec full hfresh [] trivial (ptrEnt i t)
  simp only [absNext, List.getLast?_nil, Option.map_none, true_or, if_true] at h
  obtain ⟨hc, -, he, hn⟩ := h
  refine ⟨hc, ?_, ?_, rfl⟩
  · simpa [LogManager.install, LogStore.install, absEnts, ptrEnt] using he
  · simpa [LogManager.install, LogStore.install, ptrEnt, absNext] using hn

/-- ... and the node is appendable right behind the snapshot, whatever it held: the leader's next entry is accepted and
is the log's second entry -/
theorem append_after_install_accepted (full : File → Bool) (hfresh : ∀ f : File, f.recs = [] → full f = false)
    (m : Mgr) (i t : Nat) (e : Ent) (he : e.index = i + 1) :
    (writeOne full (install full m i t).files e 2).2 = .ok ∧
    absEnts (writeOne full (install full m i t).files e 2).1 = [ptrEnt i t, e] := by
  obtain ⟨hc, hents, hnext, -⟩ := manager_install_refines full hfresh m {} i t
  have h := writeOne_spec full hfresh (install full m i t).files hc e
  rw [hnext] at h
  simp only [LogStore.install, he, or_true, if_true] at h
  refine ⟨h.2.1, ?_⟩
  rw [h.2.2.1, hents]; rfl

/-- non-vacuity: a log in two files, cut in the first one: the second file goes, the first is the open log again and
takes the next append at the cut -/
def full2 : File → Bool := fun f => decide (f.recs.length ≥ 2)
def twoFiles : List File := (writeBatchFs full2 [] (mkEnts 1 1 3 5 0)).1

example :
    twoFiles.length = 2 ∧ (strip ⟨twoFiles, none⟩ 2).files.length = 1 ∧
      absEnts (strip ⟨twoFiles, none⟩ 2).files = mkEnts 1 1 1 5 0 ∧
      (writeOne full2 (strip ⟨twoFiles, none⟩ 2).files ⟨2, 2, .normal 1 9⟩ 2).2 = .ok := by
  decide

/-- non-vacuity of the installation theorems: a snapshot at index 7 installed over a two-file log that ends at 3 (the
F28 situation) and one at index 2 installed under it (F29): the pointer alone remains, the hypothesis `hfresh` holds of
the fullness rule used, and the leader's next entry is taken -/
example :
    (∀ f : File, f.recs = [] → full2 f = false) ∧
    absEnts (LogManager.install full2 ⟨twoFiles, none⟩ 7 3).files = [ptrEnt 7 3] ∧
    absEnts (LogManager.install full2 ⟨twoFiles, none⟩ 2 1).files = [ptrEnt 2 1] ∧
    (writeOne full2 (LogManager.install full2 ⟨twoFiles, none⟩ 7 3).files ⟨8, 3, .normal 1 9⟩ 2).2 = .ok ∧
    (writeOne full2 (LogManager.install full2 ⟨twoFiles, none⟩ 7 3).files ⟨9, 3, .normal 1 9⟩ 2).2 = .indexError := by
  refine ⟨fun f h => by simp [full2, h], ?_, ?_, ?_, ?_⟩ <;> decide

end RNacos.Props.C03
