import RNacos.Model.LogFile
/-! # C03 — (theorems under construction) -/
namespace RNacos.Props.C03
open RNacos.LogFile

example : (write (create 1 0 0) ⟨1, 1, [7]⟩).2 = .success := by decide

end RNacos.Props.C03
