/- Oracle tables copied from the property texts (C16, C17, C18); written by tools/gen_oracle.py -/
namespace RNacos.Props.Oracle

/-- C16: endpoints that may be served without a token: the login endpoints, /nacos/metrics, the file-gated close-write -/
def openapiExceptions : List (List Nat) := [
  [47, 110, 97, 99, 111, 115, 47, 118, 49, 47, 97, 117, 116, 104, 47, 108, 111, 103, 105, 110] /- /nacos/v1/auth/login -/,
  [47, 110, 97, 99, 111, 115, 47, 118, 49, 47, 97, 117, 116, 104, 47, 117, 115, 101, 114, 115, 47, 108, 111, 103, 105, 110] /- /nacos/v1/auth/users/login -/,
  [47, 110, 97, 99, 111, 115, 47, 118, 51, 47, 97, 117, 116, 104, 47, 117, 115, 101, 114, 47, 108, 111, 103, 105, 110] /- /nacos/v3/auth/user/login -/,
  [47, 114, 110, 97, 99, 111, 115, 47, 118, 49, 47, 97, 117, 116, 104, 47, 117, 115, 101, 114, 47, 108, 111, 103, 105, 110] /- /rnacos/v1/auth/user/login -/,
  [47, 110, 97, 99, 111, 115, 47, 109, 101, 116, 114, 105, 99, 115] /- /nacos/metrics -/,
  [47, 110, 97, 99, 111, 115, 47, 118, 49, 47, 114, 97, 102, 116, 47, 99, 108, 111, 115, 101, 45, 119, 114, 105, 116, 101] /- /nacos/v1/raft/close-write -/]

/-- C16: gRPC request types that may be answered without a user session: server check, health check and the cluster-internal types -/
def grpcNoSessionTypes : List (List Nat) := [
  [83, 101, 114, 118, 101, 114, 67, 104, 101, 99, 107, 82, 101, 113, 117, 101, 115, 116] /- ServerCheckRequest -/,
  [72, 101, 97, 108, 116, 104, 67, 104, 101, 99, 107, 82, 101, 113, 117, 101, 115, 116] /- HealthCheckRequest -/,
  [82, 97, 102, 116, 65, 112, 112, 101, 110, 100, 82, 101, 113, 117, 101, 115, 116] /- RaftAppendRequest -/,
  [82, 97, 102, 116, 83, 110, 97, 112, 115, 104, 111, 116, 82, 101, 113, 117, 101, 115, 116] /- RaftSnapshotRequest -/,
  [82, 97, 102, 116, 86, 111, 116, 101, 82, 101, 113, 117, 101, 115, 116] /- RaftVoteRequest -/,
  [82, 97, 102, 116, 82, 111, 117, 116, 101, 82, 101, 113, 117, 101, 115, 116] /- RaftRouteRequest -/,
  [78, 97, 109, 105, 110, 103, 82, 111, 117, 116, 101, 82, 101, 113, 117, 101, 115, 116] /- NamingRouteRequest -/]

/-- C16: cluster-internal gRPC request types -/
def grpcClusterTypes : List (List Nat) := [
  [82, 97, 102, 116, 65, 112, 112, 101, 110, 100, 82, 101, 113, 117, 101, 115, 116] /- RaftAppendRequest -/,
  [82, 97, 102, 116, 83, 110, 97, 112, 115, 104, 111, 116, 82, 101, 113, 117, 101, 115, 116] /- RaftSnapshotRequest -/,
  [82, 97, 102, 116, 86, 111, 116, 101, 82, 101, 113, 117, 101, 115, 116] /- RaftVoteRequest -/,
  [82, 97, 102, 116, 82, 111, 117, 116, 101, 82, 101, 113, 117, 101, 115, 116] /- RaftRouteRequest -/,
  [78, 97, 109, 105, 110, 103, 82, 111, 117, 116, 101, 82, 101, 113, 117, 101, 115, 116] /- NamingRouteRequest -/]

/-- C16: gRPC request types that read or change configuration or registry data -/
def grpcDataTypes : List (List Nat) := [
  [67, 111, 110, 102, 105, 103, 81, 117, 101, 114, 121, 82, 101, 113, 117, 101, 115, 116] /- ConfigQueryRequest -/,
  [67, 111, 110, 102, 105, 103, 80, 117, 98, 108, 105, 115, 104, 82, 101, 113, 117, 101, 115, 116] /- ConfigPublishRequest -/,
  [67, 111, 110, 102, 105, 103, 82, 101, 109, 111, 118, 101, 82, 101, 113, 117, 101, 115, 116] /- ConfigRemoveRequest -/,
  [67, 111, 110, 102, 105, 103, 66, 97, 116, 99, 104, 76, 105, 115, 116, 101, 110, 82, 101, 113, 117, 101, 115, 116] /- ConfigBatchListenRequest -/,
  [73, 110, 115, 116, 97, 110, 99, 101, 82, 101, 113, 117, 101, 115, 116] /- InstanceRequest -/,
  [66, 97, 116, 99, 104, 73, 110, 115, 116, 97, 110, 99, 101, 82, 101, 113, 117, 101, 115, 116] /- BatchInstanceRequest -/,
  [83, 117, 98, 115, 99, 114, 105, 98, 101, 83, 101, 114, 118, 105, 99, 101, 82, 101, 113, 117, 101, 115, 116] /- SubscribeServiceRequest -/,
  [83, 101, 114, 118, 105, 99, 101, 81, 117, 101, 114, 121, 82, 101, 113, 117, 101, 115, 116] /- ServiceQueryRequest -/,
  [83, 101, 114, 118, 105, 99, 101, 76, 105, 115, 116, 82, 101, 113, 117, 101, 115, 116] /- ServiceListRequest -/]

/-- C17: console API endpoints reachable without a session: login, captcha, login configuration, OAuth2 callback -/
def consoleLoginExceptions : List (List Nat) := [
  [47, 114, 110, 97, 99, 111, 115, 47, 97, 112, 105, 47, 99, 111, 110, 115, 111, 108, 101, 47, 108, 111, 103, 105, 110, 47, 108, 111, 103, 105, 110] /- /rnacos/api/console/login/login -/,
  [47, 114, 110, 97, 99, 111, 115, 47, 97, 112, 105, 47, 99, 111, 110, 115, 111, 108, 101, 47, 108, 111, 103, 105, 110, 47, 99, 97, 112, 116, 99, 104, 97] /- /rnacos/api/console/login/captcha -/,
  [47, 114, 110, 97, 99, 111, 115, 47, 97, 112, 105, 47, 99, 111, 110, 115, 111, 108, 101, 47, 118, 50, 47, 108, 111, 103, 105, 110, 47, 108, 111, 103, 105, 110] /- /rnacos/api/console/v2/login/login -/,
  [47, 114, 110, 97, 99, 111, 115, 47, 97, 112, 105, 47, 99, 111, 110, 115, 111, 108, 101, 47, 118, 50, 47, 108, 111, 103, 105, 110, 47, 99, 97, 112, 116, 99, 104, 97] /- /rnacos/api/console/v2/login/captcha -/,
  [47, 114, 110, 97, 99, 111, 115, 47, 97, 112, 105, 47, 99, 111, 110, 115, 111, 108, 101, 47, 118, 50, 47, 108, 111, 103, 105, 110, 47, 99, 111, 110, 102, 105, 103] /- /rnacos/api/console/v2/login/config -/,
  [47, 114, 110, 97, 99, 111, 115, 47, 97, 112, 105, 47, 99, 111, 110, 115, 111, 108, 101, 47, 118, 50, 47, 108, 111, 103, 105, 110, 47, 111, 97, 117, 116, 104, 50, 47, 108, 111, 103, 105, 110] /- /rnacos/api/console/v2/login/oauth2/login -/]

/-- C17: handler-name prefixes that change data -/
def mutatingPrefixes : List (List Nat) := [
  [97, 100, 100, 95] /- add_ -/,
  [117, 112, 100, 97, 116, 101, 95] /- update_ -/,
  [114, 101, 109, 111, 118, 101, 95] /- remove_ -/,
  [100, 101, 108, 95] /- del_ -/,
  [105, 109, 112, 111, 114, 116, 95] /- import_ -/,
  [112, 117, 98, 108, 105, 115, 104, 95] /- publish_ -/]

/-- C17: handler-name prefixes that only read (POST download/query included) -/
def readonlyPrefixes : List (List Nat) := [
  [113, 117, 101, 114, 121, 95] /- query_ -/,
  [103, 101, 116, 95] /- get_ -/,
  [100, 111, 119, 110, 108, 111, 97, 100, 95] /- download_ -/,
  [103, 101, 110, 95] /- gen_ -/]

/-- C17: session handling and self-service (own password) handlers -/
def sessionHandlers : List (List Nat) := [
  [108, 111, 103, 105, 110] /- login -/,
  [108, 111, 103, 111, 117, 116] /- logout -/,
  [111, 97, 117, 116, 104, 50, 95, 99, 97, 108, 108, 98, 97, 99, 107] /- oauth2_callback -/,
  [114, 101, 115, 101, 116, 95, 112, 97, 115, 115, 119, 111, 114, 100] /- reset_password -/]

/-- C17: user management handlers (by base name) – manager only -/
def adminOnlyHandlers : List (List Nat) := [
  [97, 100, 100, 95, 117, 115, 101, 114] /- add_user -/,
  [117, 112, 100, 97, 116, 101, 95, 117, 115, 101, 114] /- update_user -/,
  [114, 101, 109, 111, 118, 101, 95, 117, 115, 101, 114] /- remove_user -/,
  [103, 101, 116, 95, 117, 115, 101, 114, 95, 112, 97, 103, 101, 95, 108, 105, 115, 116] /- get_user_page_list -/]

/-- C17: full-data transfer handlers live in this module -/
def transferMarkers : List (List Nat) := [
  [116, 114, 97, 110, 115, 102, 101, 114, 95, 97, 112, 105] /- transfer_api -/]

def roleManager : List Nat := [48]
def roleDeveloper : List Nat := [49]
def roleVisitor : List Nat := [50]

def methodGet : List Nat := [71, 69, 84]

end RNacos.Props.Oracle
