import RNacos.Model.Auth
import RNacos.Props.OracleTables
/-!
# C17 — console: every API needs a login session; roles cannot exceed their grants

Tables: `RNacos/Gen/Tables.lean` (re-generated from /repo on every run).  Oracle tables
(`LoginExceptions`, mutating / admin-only classification): `RNacos/Props/OracleTables.lean`, from the
property text.  Table theorems are closed by kernel evaluation over the *whole* generated table.
-/
namespace RNacos.Props.C17
open RNacos.Auth RNacos.Gen RNacos.Props.Oracle

/-! ## classification of handlers (the oracle) -/

/-- the handler's base name: what follows the last `:` -/
def baseName (h : Str) : Str := (h.reverse.takeWhile (· ≠ 58)).reverse

def hasPrefix (p s : Str) : Bool := p.isPrefixOf s

/-- sub-list search (exact) -/
def containsSub (needle : Str) : Str → Bool
  | [] => needle.isEmpty
  | b :: bs => needle.isPrefixOf (b :: bs) || containsSub needle bs

/-- does calling this route change configuration, services, namespaces, users or MCP data? -/
def mutating (r : Str × Str × Str) : Bool :=
  let bn := baseName r.2.2
  if sessionHandlers.contains bn then false
  else if mutatingPrefixes.any (hasPrefix · bn) then true
  else if readonlyPrefixes.any (hasPrefix · bn) then false
  else r.2.1 != methodGet

def adminOnly (r : Str × Str × Str) : Bool :=
  adminOnlyHandlers.contains (baseName r.2.2) || transferMarkers.any (containsSub · r.2.2)

/-! ## every API call needs a session -/

theorem routes_all_checked :
    (consoleRoutes.all fun r => consoleLoginExceptions.contains r.1 || consoleIsCheckPath r.1) = true := by
  decide +kernel

/-- **Every registered console API route outside the login exceptions is refused without a valid
session** (no token, or a token that resolves to no session: garbage / expired). -/
theorem api_needs_session (r : Str × Str × Str) (hr : r ∈ consoleRoutes)
    (hex : consoleLoginExceptions.contains r.1 = false) (token : Str) (session : Str → Option (List Str))
    (hno : token.isEmpty = true ∨ session token = none) :
    consoleDecide r.1 r.2.1 token session = .noLogin := by
  have h := List.all_eq_true.mp routes_all_checked r hr
  simp only [hex, Bool.false_or] at h
  unfold consoleDecide
  simp only [h, Bool.not_true, Bool.false_eq_true, if_false]
  rcases hno with h1 | h1
  · simp [h1]
  · by_cases ht : token.isEmpty = true
    · simp [ht]
    · simp [ht, h1]

/-- the exceptions granted by the code are exactly login pages and the endpoints named in the property:
nothing else under the API prefix is exempt -/
theorem ignore_list_within_exceptions :
    (consoleIgnoreLogin.all fun p =>
      consoleLoginExceptions.contains p || !(containsSub [47, 97, 112, 105, 47] p)) = true := by
  decide +kernel

/-- no API route has a path that the static-file pattern would let through unchecked -/
theorem no_api_path_is_static : (consoleRoutes.all fun r => !isStaticPath r.1) = true := by decide +kernel

/-! ## roles -/

/-- **a visitor can never change configuration, services, namespaces, users or MCP data** -/
theorem visitor_readonly :
    (consoleRoutes.all fun r => !(mutating r) || !(roleMatch roleVisitor r.1 r.2.1)) = true := by
  decide +kernel

/-- **a developer can never manage users or use the full-data transfer export/import** -/
theorem developer_no_user_admin_no_transfer :
    (consoleRoutes.all fun r => !(adminOnly r) || !(roleMatch roleDeveloper r.1 r.2.1)) = true := by
  decide +kernel

theorem visitor_no_user_admin_no_transfer :
    (consoleRoutes.all fun r => !(adminOnly r) || !(roleMatch roleVisitor r.1 r.2.1)) = true := by
  decide +kernel

/-- **on every registered route, whatever a lower role may do a higher role may do too** -/
theorem role_monotone :
    (consoleRoutes.all fun r =>
      (!(roleMatch roleVisitor r.1 r.2.1) || roleMatch roleDeveloper r.1 r.2.1) &&
      (!(roleMatch roleDeveloper r.1 r.2.1) || roleMatch roleManager r.1 r.2.1)) = true := by
  decide +kernel

/-- the role values known to the code are exactly manager/developer/visitor -/
theorem known_roles : permRoles.map (·.1) = [roleManager, roleDeveloper, roleVisitor] := by decide +kernel

/-- an unknown role string grants nothing -/
theorem unknown_role_nothing (v : Str) (h : lookup permRoles v = none) (p m : Str) :
    roleMatch v p m = false := by
  unfold roleMatch; simp [h]

/-- several roles = the union of their grants -/
theorem multi_role_is_union (a b : List Str) (p m : Str) :
    rolesMatch (a ++ b) p m = (rolesMatch a p m || rolesMatch b p m) := by
  unfold rolesMatch; simp [List.any_append]

theorem no_role_nothing (p m : Str) : rolesMatch [] p m = false := rfl

/-- **a route that is not listed for any role of the user is reachable by nobody**: a positive decision
always comes from a concrete grant entry of one of the user's roles -/
theorem unlisted_unreachable (roles : List Str) (p m : Str) (h : rolesMatch roles p m = true) :
    ∃ role ∈ roles, ∃ g ∈ (lookup permRoles role).getD [], ∃ res ∈ groupResources g, resMatch res p m = true := by
  unfold rolesMatch at h
  obtain ⟨role, hr, hm⟩ := List.any_eq_true.mp h
  unfold roleMatch at hm
  obtain ⟨g, hg, hm2⟩ := List.any_eq_true.mp hm
  obtain ⟨res, hres, hm3⟩ := List.any_eq_true.mp hm2
  exact ⟨role, hr, g, hg, res, hres, hm3⟩

/-- no grant entry is a wildcard path: a grant matches only the exact path it names -/
theorem no_wildcard_grants :
    (permGroups.all fun g => (groupResources g.1).all fun res => !res.1.isEmpty) = true := by
  decide +kernel

/-- with a valid session the decision is exactly the role table -/
theorem logged_in_decision (path method token : Str) (session : Str → Option (List Str)) (roles : List Str)
    (hc : consoleIsCheckPath path = true) (ht : token.isEmpty = false) (hs : session token = some roles) :
    consoleDecide path method token session =
      if rolesMatch roles path method then .served else .noPermission := by
  unfold consoleDecide; simp [hc, ht, hs]

/-! ## non-vacuity -/
example : ∃ r ∈ consoleRoutes, mutating r = true ∧ roleMatch roleDeveloper r.1 r.2.1 = true := by decide +kernel
example : ∃ r ∈ consoleRoutes, adminOnly r = true ∧ roleMatch roleManager r.1 r.2.1 = true := by decide +kernel
example : ∃ r ∈ consoleRoutes, roleMatch roleVisitor r.1 r.2.1 = true ∧ consoleLoginExceptions.contains r.1 = false := by
  decide +kernel

end RNacos.Props.C17
