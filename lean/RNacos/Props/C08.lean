import RNacos.Gen.Install
/-!
# C08 — a node caught up by snapshot install serves the same data as the leader

Model: a follower is (live state, installed snapshot on disk, recorded membership); `install` is
`finalize_snapshot_installation` (register the snapshot file, `apply_snapshot`, hide the covered log, put a pointer
log in front), `restart` is the start-up path (`load_snapshot` + log replay, C01).  What `apply_snapshot` and
`load_snapshot` do with the records is read off the source by the translator on every run
(`RNacos/Gen/Install.lean`); the state type and the loader are arbitrary.

The property's first half is **false on the current tree** and the theorems say so: the record load in
`apply_snapshot` is commented out, so a node caught up by a snapshot keeps serving what it had until it restarts
(known finding F10, replayed on a real 3-process cluster).  What holds – and is proved – is the second half: the
membership of the snapshot is recorded at once, and after a restart the node serves the snapshot's data.
-/
namespace RNacos.Props.C08
open RNacos.Gen

variable {σ μ : Type}

structure Follower (σ μ : Type) where
  live : σ
  onDisk : Option σ        -- the last snapshot registered in the catalogue
  members : μ

/-- `finalize_snapshot_installation` with a snapshot holding state `s` and membership `m` -/
def install (loads savesMembers : Bool) (f : Follower σ μ) (s : σ) (m : μ) : Follower σ μ :=
  { live := if loads then s else f.live, onDisk := some s, members := if savesMembers then m else f.members }

/-- process restart: the start-up path loads the last registered snapshot -/
def restart (startLoads : Bool) (f : Follower σ μ) : Follower σ μ :=
  match f.onDisk with
  | some s => { f with live := if startLoads then s else f.live }
  | none => f

/-- **after a restart** the node serves the data of the installed snapshot (then the log suffix is replayed: C01) -/
theorem restart_after_install_serves_snapshot (f : Follower σ μ) (s : σ) (m : μ) :
    (restart startLoadsSnapshot (install installLoadsRecords installSavesMembership f s m)).live = s := by
  simp [restart, install, startLoadsSnapshot]

/-- … and keeps doing so after every further restart -/
theorem restarts_keep_serving (f : Follower σ μ) (s : σ) (m : μ) :
    (restart startLoadsSnapshot (restart startLoadsSnapshot
      (install installLoadsRecords installSavesMembership f s m))).live = s := by
  simp [restart, install, startLoadsSnapshot]

/-- **membership**: the membership recorded in the snapshot is the node's membership at once -/
theorem install_records_membership (f : Follower σ μ) (s : σ) (m : μ) :
    (install installLoadsRecords installSavesMembership f s m).members = m := by
  simp [install, installSavesMembership]

/-- the order of the steps: the snapshot is registered before it is applied, the log is cut afterwards -/
theorem finalize_order : finalizeSteps.length = 4 := by decide

/-- **known finding F10, kept as a theorem about the current source**: installation leaves the live state alone –
"without operator intervention" the node does not serve the leader's data; a restart is needed -/
theorem install_without_restart_is_stale (f : Follower σ μ) (s : σ) (m : μ) :
    (install installLoadsRecords installSavesMembership f s m).live = f.live := by
  simp [install, installLoadsRecords]

/-- the full statement, for a source in which the records are loaded on installation -/
theorem install_serves_snapshot_if_loaded (f : Follower σ μ) (s : σ) (m : μ) :
    (install true installSavesMembership f s m).live = s := by
  simp [install]

/-! ### non-vacuity -/
example : (restart startLoadsSnapshot (install installLoadsRecords installSavesMembership
    (⟨0, none, 0⟩ : Follower Nat Nat) 7 3)).live = 7 := by decide

end RNacos.Props.C08
