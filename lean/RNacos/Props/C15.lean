import RNacos.Model.Sync
import RNacos.Model.Digest
import RNacos.Gen.Sync
/-!
# C15 — registry converges: after quiescence every node returns the same instances

Safety form of convergence, proved on the message-level model `RNacos/Model/Sync.lean` for every interleaving of
client operations, delayed batch flushes and deliveries over an ordered link: whenever nothing is pending and
nothing is in flight, the receiver's copy of a node's instances **is** that node's instances
(`quiescent_copy_is_own`).  Coalescing – the delayed-notify actor keeps only the last change per key – does not
change what a batch does (`coalescing_sound`).
"Eventually" (that the queues do drain: timers fire, streams stay up, a dead node is detected) is liveness over the
real scheduler: explored on real 3-process clusters by `./check C15` (model `cluster`), not proved.  That every
client operation reaches exactly one owner is C14.
-/
namespace RNacos.Props.C15
open RNacos.Sync

theorem upd_same (v : View) (k : Key) (a b : Val) : upd (upd v ⟨k, a⟩) ⟨k, b⟩ = upd v ⟨k, b⟩ := by
  funext x; unfold upd; simp only; split <;> rfl

theorem upd_comm (v : View) (c d : Change) (h : c.key ≠ d.key) : upd (upd v c) d = upd (upd v d) c := by
  funext x; unfold upd
  by_cases h1 : x = d.key <;> by_cases h2 : x = c.key <;> simp_all

/-- a change to a key that is changed again later in the list does not matter -/
theorem overwritten (cs : List Change) (v : View) (c : Change) (h : cs.any (·.key == c.key) = true) :
    applyAll (upd v c) cs = applyAll v cs := by
  induction cs generalizing v with
  | nil => simp at h
  | cons d rest ih =>
    unfold applyAll at ih ⊢
    simp only [List.foldl_cons]
    by_cases hk : d.key = c.key
    · have : upd (upd v c) d = upd v d := by
        cases c with | mk ck cv => cases d with | mk dk dv =>
        simp only at hk; subst hk; exact upd_same v dk cv dv
      rw [this]
    · have hrest : rest.any (·.key == c.key) = true := by
        simp only [List.any_cons, Bool.or_eq_true] at h
        rcases h with h | h
        · simp at h; exact absurd h hk
        · exact h
      rw [upd_comm v c d (fun e => hk e.symm)]
      exact ih (upd v d) hrest

/-- **coalescing is sound**: the batch that keeps only the last change per key has the effect of all changes -/
theorem coalescing_sound (cs : List Change) (v : View) : applyAll v (coalesce cs) = applyAll v cs := by
  induction cs generalizing v with
  | nil => rfl
  | cons c rest ih =>
    unfold coalesce
    split
    · rename_i h
      rw [ih v]
      show applyAll v rest = applyAll (upd v c) rest
      exact (overwritten rest v c h).symm
    · show applyAll (upd v c) (coalesce rest) = applyAll (upd v c) rest
      exact ih (upd v c)

theorem applyAll_append (v : View) (a b : List Change) : applyAll v (a ++ b) = applyAll (applyAll v a) b := by
  unfold applyAll; rw [List.foldl_append]

/-- what the receiver will hold once everything in flight and pending has arrived -/
def eventual (l : Link) : View := applyAll (l.inflight.foldl applyAll l.copy) l.pending

/-- **the invariant**: the owner's instances are the receiver's copy plus everything still on its way, in order; a queued
heartbeat carries what the owner holds for that instance and no change of that instance is waiting to be flushed -/
def Inv (l : Link) : Prop :=
  eventual l = l.own ∧ ∀ b ∈ l.beats, l.own b.key = b.val ∧ l.pending.any (·.key == b.key) = false

/-- applying changes that say what the view already holds changes nothing -/
theorem applyAll_noop (v : View) (bs : List Change) (h : ∀ b ∈ bs, v b.key = b.val) : applyAll v bs = v := by
  induction bs generalizing v with
  | nil => rfl
  | cons b bs ih =>
    have hb := h b (by simp)
    have hv : upd v b = v := by
      funext k; unfold upd; split
      · rename_i hk; rw [hk, hb]
      · rfl
    simp only [applyAll, List.foldl_cons] at ih ⊢
    rw [hv]
    exact ih v (fun c hc => h c (by simp [hc]))

/-- changes of other keys do not touch a key -/
theorem applyAll_other (v : View) (cs : List Change) (k : Key) (h : cs.any (·.key == k) = false) :
    applyAll v cs k = v k := by
  induction cs generalizing v with
  | nil => rfl
  | cons c cs ih =>
    simp only [List.any_cons, Bool.or_eq_false_iff, beq_eq_false_iff_ne] at h
    simp only [applyAll, List.foldl_cons] at ih ⊢
    rw [ih (upd v c) h.2]
    unfold upd
    have : ¬ k = c.key := fun e => h.1 e.symm
    simp [this]

/-- the last change of a key decides that key, whatever the view was before -/
theorem overwritten_key (cs : List Change) (v w : View) (k : Key) (h : cs.any (·.key == k) = true) :
    applyAll v cs k = applyAll w cs k := by
  induction cs generalizing v w with
  | nil => simp at h
  | cons d rest ih =>
    simp only [applyAll, List.foldl_cons] at ih ⊢
    by_cases hr : rest.any (·.key == k) = true
    · exact ih (upd v d) (upd w d) hr
    · have hr' : rest.any (·.key == k) = false := by simpa using hr
      have hd : d.key = k := by
        simp only [List.any_cons, Bool.or_eq_true, beq_iff_eq] at h
        rcases h with h | h
        · exact h
        · exact absurd h hr
      have e1 := applyAll_other (upd v d) rest k hr'
      have e2 := applyAll_other (upd w d) rest k hr'
      simp only [applyAll] at e1 e2
      rw [e1, e2]; unfold upd; simp [hd]

theorem inv_step (l : Link) (s : Step) (h : Inv l) : Inv (l.step s) := by
  obtain ⟨h1, h2⟩ := h
  unfold eventual at h1
  cases s with
  | client c =>
    refine ⟨?_, ?_⟩
    · simp only [Link.step, eventual]
      rw [applyAll_append, h1]; rfl
    · intro b hb
      simp only [Link.step, List.mem_filter, bne_iff_ne, ne_eq] at hb
      obtain ⟨hbm, hne⟩ := hb
      have := h2 b hbm
      simp only [Link.step, upd, hne, if_false, List.any_append, List.any_cons, List.any_nil, Bool.or_false]
      refine ⟨this.1, ?_⟩
      simp [this.2]; exact fun e => hne e.symm
  | flush =>
    simp only [Link.step]
    split
    · exact ⟨h1, h2⟩
    · refine ⟨?_, ?_⟩
      · simp only [eventual, List.foldl_append, List.foldl_cons, List.foldl_nil]
        rw [coalescing_sound]
        exact h1
      · intro b hb; exact ⟨(h2 b hb).1, by simp⟩
  | deliver =>
    simp only [Link.step]
    split
    · exact ⟨h1, h2⟩
    · rename_i b rest hb
      rw [hb] at h1
      exact ⟨by simpa [eventual] using h1, h2⟩
  | beat k =>
    simp only [Link.step]
    split
    · exact ⟨h1, h2⟩
    · rename_i v hv
      split
      · exact ⟨h1, h2⟩
      · rename_i hp
        refine ⟨h1, ?_⟩
        intro b hb
        simp only [List.mem_append, List.mem_filter, List.mem_singleton] at hb
        rcases hb with hb | hb
        · exact h2 b hb.1
        · subst hb; exact ⟨hv, by simpa using hp⟩
  | beatFlush =>
    simp only [Link.step]
    split
    · exact ⟨h1, h2⟩
    · refine ⟨?_, by intro b hb; simp at hb⟩
      simp only [eventual, List.foldl_append, List.foldl_cons, List.foldl_nil]
      -- the heartbeat batch is applied before the pending changes; it only says what the owner holds, for keys that
      -- no pending change touches
      rw [← h1]
      funext k
      by_cases hk : l.pending.any (·.key == k) = true
      · -- a pending change of k decides k in both views
        exact overwritten_key l.pending _ _ k hk
      · have hk' : l.pending.any (·.key == k) = false := by simpa using hk
        rw [applyAll_other _ _ k hk', applyAll_other _ _ k hk']
        -- before the pending changes: the heartbeats say what that view holds for their keys
        have hX : ∀ b ∈ l.beats, (l.inflight.foldl applyAll l.copy) b.key = b.val := by
          intro b hb
          have := h2 b hb
          rw [← this.1, ← h1, applyAll_other _ _ _ this.2]
        rw [applyAll_noop _ _ hX]

theorem inv_run (ss : List Step) (l : Link) (h : Inv l) : Inv (l.run ss) := by
  induction ss generalizing l with
  | nil => exact h
  | cons s ss ih => exact ih _ (inv_step l s h)

/-- **convergence at quiescence**: for every interleaving of client operations, flushes and deliveries starting from
agreeing, quiet nodes – whenever nothing is pending and nothing is in flight, the copy equals the owner's instances -/
theorem quiescent_copy_is_own (ss : List Step) (v : View) (hq : ((⟨v, [], [], v, []⟩ : Link).run ss).quiescent) :
    ((⟨v, [], [], v, []⟩ : Link).run ss).copy = ((⟨v, [], [], v, []⟩ : Link).run ss).own := by
  have h := (inv_run ss ⟨v, [], [], v, []⟩ ⟨rfl, by intro b hb; simp at hb⟩).1
  unfold eventual at h
  rw [hq.1, hq.2.1] at h
  exact h

/-- every node that receives the same batches in the same order holds the same copy: two receivers of one owner
agree at quiescence -/
theorem receivers_agree (ss1 ss2 : List Step) (v : View)
    (h1 : ((⟨v, [], [], v, []⟩ : Link).run ss1).quiescent) (h2 : ((⟨v, [], [], v, []⟩ : Link).run ss2).quiescent)
    (hown : ((⟨v, [], [], v, []⟩ : Link).run ss1).own = ((⟨v, [], [], v, []⟩ : Link).run ss2).own) :
    ((⟨v, [], [], v, []⟩ : Link).run ss1).copy = ((⟨v, [], [], v, []⟩ : Link).run ss2).copy := by
  rw [quiescent_copy_is_own ss1 v h1, quiescent_copy_is_own ss2 v h2, hown]

/-! ### non-vacuity -/
example : ((⟨fun _ => none, [], [], fun _ => none, []⟩ : Link).run
    [.client ⟨1, some 5⟩, .client ⟨1, none⟩, .client ⟨1, some 7⟩, .flush, .client ⟨2, some 1⟩, .deliver, .flush, .deliver]).quiescent := by
  unfold Link.quiescent; decide


/-- a heartbeat queued before a deregistration is discarded with it: after the heartbeat flush the receiver still has
no such instance (the sequence of the seeded change "stale heartbeat resurrects a deregistered instance") -/
example :
    let l := (⟨fun _ => none, [], [], fun _ => none, []⟩ : Link).run
      [.client ⟨1, some 5⟩, .flush, .deliver, .beat 1, .client ⟨1, none⟩, .flush, .deliver, .beatFlush, .deliver]
    l.quiescent ∧ l.copy 1 = none ∧ l.own 1 = none := by
  unfold Link.quiescent; decide

/-- … and a heartbeat of an instance that stays registered travels as an update that changes nothing -/
example :
    let l := (⟨fun _ => none, [], [], fun _ => none, []⟩ : Link).run
      [.client ⟨1, some 5⟩, .flush, .deliver, .beat 1, .beatFlush, .deliver]
    l.quiescent ∧ l.copy 1 = some 5 := by
  unfold Link.quiescent; decide

/-! ### what the ordered link is needed for (11.5: the real sender does not wait for the previous batch)

The model delivers batches oldest first.  The two theorems below bound that assumption: two batches may overtake each
other freely **unless they change a common key** (`batches_commute_of_disjoint`, for all batches and views), and when
they do share a key an overtaking delivery really leaves the receiver with an instance the owner has removed
(`overtaking_removal_leaves_a_ghost`, a concrete witness).  So the transport assumption is exactly "batches of one
sender that touch the same instance arrive in the order they were sent". -/

def disjointKeys (a b : List Change) : Prop := ∀ c ∈ a, ∀ d ∈ b, c.key ≠ d.key

theorem upd_applyAll_comm (v : View) (c : Change) (b : List Change) (h : ∀ d ∈ b, c.key ≠ d.key) :
    applyAll (upd v c) b = upd (applyAll v b) c := by
  induction b generalizing v with
  | nil => rfl
  | cons d b ih =>
    have hd : c.key ≠ d.key := h d (by simp)
    show applyAll (upd (upd v c) d) b = upd (applyAll (upd v d) b) c
    rw [upd_comm v c d hd]
    exact ih (upd v d) (fun e he => h e (by simp [he]))

/-- two batches that change no common key can be delivered in either order -/
theorem batches_commute_of_disjoint (v : View) (a b : List Change) (h : disjointKeys a b) :
    applyAll (applyAll v a) b = applyAll (applyAll v b) a := by
  induction a generalizing v with
  | nil => rfl
  | cons c a ih =>
    show applyAll (applyAll (upd v c) a) b = applyAll (upd (applyAll v b) c) a
    rw [ih (upd v c) (fun x hx y hy => h x (by simp [hx]) y hy),
      upd_applyAll_comm v c b (fun d hd => h c (by simp) d hd)]

/-- delivery of the *second* batch in flight first (what an unordered transport could do) -/
def _root_.RNacos.Sync.Link.deliverSecond (l : Link) : Link :=
  match l.inflight with
  | a :: b :: rest => { l with inflight := a :: rest, copy := applyAll l.copy b }
  | _ => l

/-- overtaking is harmless for batches without a common key: the state after both deliveries is the same -/
theorem overtaking_harmless_of_disjoint (l : Link) (a b : List Change) (rest : List (List Change))
    (hl : l.inflight = a :: b :: rest) (h : disjointKeys a b) :
    (l.deliverSecond.step .deliver).copy = ((l.step .deliver).step .deliver).copy
    ∧ (l.deliverSecond.step .deliver).inflight = ((l.step .deliver).step .deliver).inflight := by
  simp only [Link.deliverSecond, Link.step, hl]
  exact ⟨(batches_commute_of_disjoint l.copy a b h).symm, trivial⟩

/-- ... and it is not for batches that share a key: a registration and the removal that follows it, delivered in the
opposite order, leave the receiver with an instance its owner no longer has, in a quiescent state (nothing will repair
it at this level; the periodic digests of `Model/Digest` cover gRPC connections only) -/
theorem overtaking_removal_leaves_a_ghost :
    let l := ((⟨fun _ => none, [], [], fun _ => none, []⟩ : Link).run
      [.client ⟨1, some 5⟩, .flush, .client ⟨1, none⟩, .flush]).deliverSecond.step .deliver
    l.quiescent ∧ l.own 1 = none ∧ l.copy 1 = some 5 := by
  unfold Link.quiescent; decide

example : disjointKeys [⟨1, some 5⟩, ⟨2, none⟩] [⟨3, some 1⟩] := by
  intro c hc d hd; simp at hc hd; rcases hc with rfl | rfl <;> subst hd <;> decide

end RNacos.Props.C15

/-! ## the digest of a node's gRPC connections

`RNacos/Model/Digest.lean`: every 12 s a node sends every peer the list of its gRPC connections with the instances they
hold; the peer forgets the connections it remembers for that node that are not named, removes recorded instances that
are not listed and asks for listed ones it lacks.  It is the repair path for removals that a peer missed - in
particular when the node was restarted before the peers declared it dead and holds no connection any more.  Whether the
digest goes out also when it is empty is read off the source on every run (`Gen.digestSentWhenEmpty`). -/
namespace RNacos.Props.C15
open RNacos.Digest

theorem lookup_none (d : Held) (c : Client) (h : lookup d c = none) : (d.map (·.1)).contains c = false := by
  unfold lookup at h
  simp only [Option.map_eq_none_iff, List.find?_eq_none] at h
  cases hc : (d.map (·.1)).contains c with
  | false => rfl
  | true =>
    simp only [List.contains_iff_mem, List.mem_map] at hc
    obtain ⟨e, he, rfl⟩ := hc
    exact absurd (by simp) (h e he)

/-- what a peer has recorded is recorded for a connection it remembers (instances arrive together with the
connection's id: `node_add_client`) -/
def PeerOK (p : Peer) : Prop := ∀ c, p.recorded c ≠ [] → p.remembered.contains c = true

/-- **a digest makes the peer's record equal to the sender's**: for every connection, named or not, the peer holds
afterwards exactly what the digest lists for it - nothing for a connection the digest does not name -/
theorem receive_matches_sender (p : Peer) (d : Held) (hp : PeerOK p) (c : Client) :
    (receive p d).recorded c = (lookup d c).getD [] := by
  unfold receive reconcile dropStale
  simp only
  cases hl : lookup d c with
  | some ks => rfl
  | none =>
    simp only [Option.getD_none]
    rw [lookup_none d c hl]
    cases hr : p.remembered.contains c with
    | true => simp
    | false =>
      simp only [Bool.false_and, Bool.false_eq_true, if_false]
      cases hrec : p.recorded c with
      | nil => rfl
      | cons a l => exact absurd (hp c (by rw [hrec]; simp)) (by rw [hr]; simp)

/-- in particular **the empty digest clears everything** the peer still holds for the node -/
theorem empty_digest_clears (p : Peer) (hp : PeerOK p) (c : Client) : (receive p []).recorded c = [] := by
  rw [receive_matches_sender p [] hp c]; rfl

/-- and the invariant is kept -/
theorem receive_keeps_peerOK (p : Peer) (d : Held) (hp : PeerOK p) : PeerOK (receive p d) := by
  intro c hc
  rw [receive_matches_sender p d hp c] at hc
  cases hl : lookup d c with
  | none => rw [hl] at hc; exact absurd rfl hc
  | some ks =>
    have hnamed : (d.map (·.1)).contains c = true := by
      cases hn : (d.map (·.1)).contains c with
      | true => rfl
      | false =>
        unfold lookup at hl
        simp only [Option.map_eq_some_iff] at hl
        obtain ⟨e, he, _⟩ := hl
        have hm := List.mem_of_find?_eq_some he
        have hk : e.1 = c := by simpa using List.find?_some he
        have : c ∈ d.map (·.1) := List.mem_map.2 ⟨e, hm, hk⟩
        rw [← List.contains_iff_mem] at this
        rw [hn] at this; cases this
    unfold receive reconcile dropStale
    simp only [List.contains_iff_mem, List.mem_append, List.mem_filter, List.mem_map] at hnamed ⊢
    by_cases hin : c ∈ p.remembered
    · left; exact ⟨hin, by simpa [List.contains_iff_mem] using hnamed⟩
    · right
      refine ⟨by simpa using hnamed, ?_⟩
      simp only [Bool.not_eq_true', List.contains_eq_mem, decide_eq_false_iff_not, List.mem_filter, not_and]
      intro h _; exact absurd h hin

/-- **one round heals the peer**, as the code stands (the digest is sent whatever it contains): after it the peer's record
of the node's connections is the node's own - also for a node that was restarted and holds none -/
theorem digest_round_heals (h : Held) (p : Peer) (hp : PeerOK p) (c : Client) :
    (round RNacos.Gen.digestSentWhenEmpty h p).recorded c = (lookup h c).getD [] := by
  have hflag : RNacos.Gen.digestSentWhenEmpty = true := by decide
  rw [hflag]
  unfold round send
  simp only [Bool.not_true, Bool.and_false, Bool.false_eq_true, if_false]
  exact receive_matches_sender p h hp c

/-- kept visible: were the empty digest not sent, a peer that missed the removal would list the instances of a
connection that is gone for ever -/
theorem unsent_empty_digest_leaves_ghosts :
    ∃ (p : Peer), PeerOK p ∧ (round false [] p).recorded 7 ≠ (lookup [] 7).getD [] :=
  ⟨⟨[7], fun c => if c = 7 then [1] else []⟩, by intro c hc; by_cases h : c = 7 <;> simp_all, by decide⟩

/-! non-vacuity -/
example : PeerOK ⟨[7, 8], fun c => if c = 7 then [1, 2] else []⟩ := by
  intro c hc; by_cases h : c = 7 <;> simp_all
example : (receive ⟨[7, 8], fun c => if c = 7 then [1, 2] else []⟩ [(8, [3])]).recorded 7 = [] ∧
    (receive ⟨[7, 8], fun c => if c = 7 then [1, 2] else []⟩ [(8, [3])]).recorded 8 = [3] := by decide

end RNacos.Props.C15
