import RNacos.Model.Sync
/-!
# C15 — registry converges: after quiescence every node returns the same instances

Safety form of convergence, proved on the message-level model `RNacos/Model/Sync.lean` for every interleaving of
client operations, delayed batch flushes and deliveries over an ordered link: whenever nothing is pending and
nothing is in flight, the receiver's copy of a node's instances **is** that node's instances
(`quiescent_copy_is_own`).  Coalescing – the delayed-notify actor keeps only the last change per key – does not
change what a batch does (`coalescing_sound`).
"Eventually" (that the queues do drain: timers fire, streams stay up, a dead node is detected) is liveness over the
real scheduler: explored on real 3-process clusters by `./check C15` (model `cluster`), not proved.  That every
client operation reaches exactly one owner is C14.
-/
namespace RNacos.Props.C15
open RNacos.Sync

theorem upd_same (v : View) (k : Key) (a b : Val) : upd (upd v ⟨k, a⟩) ⟨k, b⟩ = upd v ⟨k, b⟩ := by
  funext x; unfold upd; simp only; split <;> rfl

theorem upd_comm (v : View) (c d : Change) (h : c.key ≠ d.key) : upd (upd v c) d = upd (upd v d) c := by
  funext x; unfold upd
  by_cases h1 : x = d.key <;> by_cases h2 : x = c.key <;> simp_all

/-- a change to a key that is changed again later in the list does not matter -/
theorem overwritten (cs : List Change) (v : View) (c : Change) (h : cs.any (·.key == c.key) = true) :
    applyAll (upd v c) cs = applyAll v cs := by
  induction cs generalizing v with
  | nil => simp at h
  | cons d rest ih =>
    unfold applyAll at ih ⊢
    simp only [List.foldl_cons]
    by_cases hk : d.key = c.key
    · have : upd (upd v c) d = upd v d := by
        cases c with | mk ck cv => cases d with | mk dk dv =>
        simp only at hk; subst hk; exact upd_same v dk cv dv
      rw [this]
    · have hrest : rest.any (·.key == c.key) = true := by
        simp only [List.any_cons, Bool.or_eq_true] at h
        rcases h with h | h
        · simp at h; exact absurd h hk
        · exact h
      rw [upd_comm v c d (fun e => hk e.symm)]
      exact ih (upd v d) hrest

/-- **coalescing is sound**: the batch that keeps only the last change per key has the effect of all changes -/
theorem coalescing_sound (cs : List Change) (v : View) : applyAll v (coalesce cs) = applyAll v cs := by
  induction cs generalizing v with
  | nil => rfl
  | cons c rest ih =>
    unfold coalesce
    split
    · rename_i h
      rw [ih v]
      show applyAll v rest = applyAll (upd v c) rest
      exact (overwritten rest v c h).symm
    · show applyAll (upd v c) (coalesce rest) = applyAll (upd v c) rest
      exact ih (upd v c)

theorem applyAll_append (v : View) (a b : List Change) : applyAll v (a ++ b) = applyAll (applyAll v a) b := by
  unfold applyAll; rw [List.foldl_append]

/-- what the receiver will hold once everything in flight and pending has arrived -/
def eventual (l : Link) : View := applyAll (l.inflight.foldl applyAll l.copy) l.pending

/-- **the invariant**: the owner's instances are the receiver's copy plus everything still on its way, in order -/
def Inv (l : Link) : Prop := eventual l = l.own

theorem inv_step (l : Link) (s : Step) (h : Inv l) : Inv (l.step s) := by
  unfold Inv eventual at *
  cases s with
  | client c =>
    simp only [Link.step]
    rw [applyAll_append, h]; rfl
  | flush =>
    simp only [Link.step]
    split
    · exact h
    · simp only [List.foldl_append, List.foldl_cons, List.foldl_nil]
      rw [coalescing_sound]
      exact h
  | deliver =>
    simp only [Link.step]
    split
    · exact h
    · rename_i b rest hb
      rw [hb] at h
      simpa using h

theorem inv_run (ss : List Step) (l : Link) (h : Inv l) : Inv (l.run ss) := by
  induction ss generalizing l with
  | nil => exact h
  | cons s ss ih => exact ih _ (inv_step l s h)

/-- **convergence at quiescence**: for every interleaving of client operations, flushes and deliveries starting from
agreeing, quiet nodes – whenever nothing is pending and nothing is in flight, the copy equals the owner's instances -/
theorem quiescent_copy_is_own (ss : List Step) (v : View) (hq : ((⟨v, [], [], v⟩ : Link).run ss).quiescent) :
    ((⟨v, [], [], v⟩ : Link).run ss).copy = ((⟨v, [], [], v⟩ : Link).run ss).own := by
  have h := inv_run ss ⟨v, [], [], v⟩ rfl
  unfold Inv eventual at h
  rw [hq.1, hq.2] at h
  exact h

/-- every node that receives the same batches in the same order holds the same copy: two receivers of one owner
agree at quiescence -/
theorem receivers_agree (ss1 ss2 : List Step) (v : View)
    (h1 : ((⟨v, [], [], v⟩ : Link).run ss1).quiescent) (h2 : ((⟨v, [], [], v⟩ : Link).run ss2).quiescent)
    (hown : ((⟨v, [], [], v⟩ : Link).run ss1).own = ((⟨v, [], [], v⟩ : Link).run ss2).own) :
    ((⟨v, [], [], v⟩ : Link).run ss1).copy = ((⟨v, [], [], v⟩ : Link).run ss2).copy := by
  rw [quiescent_copy_is_own ss1 v h1, quiescent_copy_is_own ss2 v h2, hown]

/-! ### non-vacuity -/
example : ((⟨fun _ => none, [], [], fun _ => none⟩ : Link).run
    [.client ⟨1, some 5⟩, .client ⟨1, none⟩, .client ⟨1, some 7⟩, .flush, .client ⟨2, some 1⟩, .deliver, .flush, .deliver]).quiescent := by
  unfold Link.quiescent; decide

end RNacos.Props.C15
