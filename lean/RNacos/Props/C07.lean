import RNacos.Model.Apply
import RNacos.Gen.ApplyPaths
/-!
# C07 — leader apply, follower replication and restart replay yield the same state

The three paths are three hand-written copies of one match over `ClientRequest`.  The translator re-extracts the
three dispatch tables from src/raft/filestore/raftdata.rs on every run (`RNacos/Gen/ApplyPaths.lean`: per variant
the target component and the message expression, with the delivery syntax – `send().await??`, `do_send`,
`send().await.ok()` – stripped).  The theorems: the regenerated tables are equal row by row and cover the enum
(kernel-evaluated), and – for **arbitrary** behaviour of the components – equal tables give equal states for every
request sequence and every split into batches.
-/
namespace RNacos.Props.C07
open RNacos.Apply RNacos.Gen

/-- **the three copies agree**: same variants in the same order, same target, same message for every variant -/
theorem paths_same_dispatch : followerTable = leaderTable ∧ replayTable = leaderTable := by
  decide +kernel

/-- every variant of the enum has a row (none is silently dropped on any path), exactly one -/
theorem every_variant_routed :
    (∀ v ∈ clientRequestVariants, (leaderTable.lookup v).isSome) ∧
    leaderTable.map (·.variant) = clientRequestVariants.filter (fun v => (leaderTable.lookup v).isSome) ∨
    (leaderTable.map (·.variant)).Nodup := by
  right; decide +kernel

theorem every_variant_has_a_row : ∀ v ∈ clientRequestVariants, (leaderTable.lookup v).isSome := by
  decide +kernel

theorem rows_only_for_variants : ∀ r ∈ leaderTable, r.variant ∈ clientRequestVariants := by
  decide +kernel

/-- every component of the handler is asked for its part of a snapshot -/
theorem every_component_snapshotted : ∀ c ∈ handlerComponents, c ∈ buildSnapshotComponents := by
  decide +kernel

/-! ### what equal tables mean, for any behaviour of the components -/

variable {α σ : Type}

/-- no request of the sequence is malformed (its message can be built) – what a committed sequence consists of:
the only fallible construction is `ConfigValueDO::from_bytes` of a `ConfigFullValue`, and those payloads are
produced by `to_bytes` -/
def WellFormed (sem : Sem α σ) (t : Table) (rs : List (Req α)) : Prop := ∀ r ∈ rs, failsOn sem t r = false

theorem applyBatch_eq_applyAll (sem : Sem α σ) (t : Table) (st : State σ) (rs : List (Req α))
    (h : WellFormed sem t rs) : applyBatch sem t st rs = applyAll sem t st rs := by
  induction rs generalizing st with
  | nil => rfl
  | cons r rs ih =>
    have hr : failsOn sem t r = false := h r (by simp)
    simp only [applyBatch, hr, Bool.false_eq_true, if_false, applyAll, List.foldl_cons]
    exact ih _ (fun x hx => h x (by simp [hx]))

/-- **any batching**: the follower path, whatever the split of the committed sequence into batches, reaches the
state of the leader path -/
theorem any_batching_same_state (sem : Sem α σ) (st : State σ) (bs : List (List (Req α)))
    (h : WellFormed sem leaderTable bs.flatten) :
    applyBatches sem followerTable st bs = applyAll sem leaderTable st bs.flatten := by
  rw [paths_same_dispatch.1]
  induction bs generalizing st with
  | nil => rfl
  | cons b bs ih =>
    simp only [applyBatches, List.foldl_cons, List.flatten_cons, applyAll, List.foldl_append]
    have hb : WellFormed sem leaderTable b := fun r hr => h r (by simp [hr])
    rw [applyBatch_eq_applyAll sem leaderTable st b hb]
    exact ih _ (fun r hr => h r (by simp [hr]))

/-- **replay**: the start-up path reaches the same state from the same log -/
theorem replay_same_state (sem : Sem α σ) (st : State σ) (rs : List (Req α)) :
    applyAll sem replayTable st rs = applyAll sem leaderTable st rs := by
  rw [paths_same_dispatch.2]

/-- kept visible: with a malformed request the paths do differ – the leader answers that entry with an error and
goes on, the follower drops the rest of its batch.  (Outside the property's "committed request sequence" as long
as such a payload cannot be committed; recorded in DESIGN.md.) -/
theorem malformed_request_diverges :
    ∃ (sem : Sem Nat Nat) (t : Table) (st : State Nat) (rs : List (Req Nat)),
      applyBatch sem t st rs ≠ applyAll sem t st rs := by
  refine ⟨⟨fun _ _ p s => s + p, fun _ p => p == 0⟩, [⟨[1], [2], [3]⟩], fun _ => 0,
    [⟨[1], 0⟩, ⟨[1], 5⟩], ?_⟩
  intro h
  have := congrFun h [2]
  revert this
  decide

/-! ### non-vacuity -/
example : WellFormed (⟨fun _ _ p s => s + p, fun _ _ => false⟩ : Sem Nat Nat) leaderTable [⟨[1], 3⟩] := by
  intro r _; unfold failsOn; split <;> rfl

end RNacos.Props.C07
