import RNacos.Model.Config
/-!
# C09 — config store: last write wins, md5 matches content, listings match store

Model: `RNacos/Model/Config.lean`.  All theorems are for arbitrary op histories (publish with/without
type and description, same or different content, remove, full-value import, temporary values) over
arbitrary keys — by invariants preserved by every step.
-/
namespace RNacos.Props.C09
open RNacos RNacos.Config

/-- a value that came through the replicated log (not only a follower's temporary value) -/
def Applied (v : Value) : Prop := ¬ (v.tmp = true ∧ v.hist = [])

/-- the invariant of the store -/
structure Inv (s : Store) : Prop where
  md5 : ∀ k v, AL.get? s.cache k = some v → v.md5 = v.content
  nodup : s.index.Nodup
  size : s.size = s.index.length
  listed_stored : ∀ k ∈ s.index, (AL.get? s.cache k).isSome = true
  applied_listed : ∀ k v, AL.get? s.cache k = some v → Applied v → k ∈ s.index

theorem inv_empty : Inv {} := by
  refine ⟨?_, by simp, rfl, ?_, ?_⟩ <;> simp

/-! ### helper facts about the elementary state updates -/

theorem inv_applyMark (s : Store) (m : Option Nat) (h : Inv s) : Inv (s.applyMark m) := by
  cases m <;> exact ⟨h.md5, h.nodup, h.size, h.listed_stored, h.applied_listed⟩

theorem applyMark_cache (s : Store) (m : Option Nat) : (s.applyMark m).cache = s.cache := by cases m <;> rfl

/-- storing a value under `k`: fine when its md5 is right and, if it is an applied value, `k` is listed -/
theorem inv_putCache (s : Store) (k : Key) (v : Value) (h : Inv s) (hm : v.md5 = v.content)
    (hl : Applied v → k ∈ s.index) : Inv (s.putCache k v) := by
  unfold Store.putCache
  refine ⟨?_, h.nodup, h.size, ?_, ?_⟩
  · intro k' v' hv
    by_cases e : k = k'
    · subst e; simp at hv; subst hv; exact hm
    · rw [AL.get?_set_other _ _ _ _ e] at hv; exact h.md5 k' v' hv
  · intro k' hk'
    by_cases e : k = k'
    · subst e; simp
    · simp only [AL.get?_set_other _ _ _ _ e]; exact h.listed_stored k' hk'
  · intro k' v' hv ha
    by_cases e : k = k'
    · subst e; simp at hv; subst hv; exact hl ha
    · rw [AL.get?_set_other _ _ _ _ e] at hv; exact h.applied_listed k' v' hv ha

/-- listing a key that is stored -/
theorem inv_indexInsert (s : Store) (k : Key) (h : Inv s) (hs : (AL.get? s.cache k).isSome = true) :
    Inv (s.indexInsert k) := by
  unfold Store.indexInsert
  by_cases hk : k ∈ s.index
  · simp only [hk, if_true]; exact h
  · simp only [hk, if_false]
    refine ⟨h.md5, List.nodup_cons.mpr ⟨hk, h.nodup⟩, by simp [h.size], ?_, ?_⟩
    · intro k' hk'
      simp only [List.mem_cons] at hk'
      rcases hk' with rfl | hk'
      · exact hs
      · exact h.listed_stored k' hk'
    · intro k' v' hv ha
      exact List.mem_cons_of_mem _ (h.applied_listed k' v' hv ha)

theorem mem_indexInsert (s : Store) (k : Key) : k ∈ (s.indexInsert k).index := by
  unfold Store.indexInsert; split <;> simp_all

theorem indexInsert_cache (s : Store) (k : Key) : (s.indexInsert k).cache = s.cache := by
  unfold Store.indexInsert; split <;> rfl

/-- insert-then-store and store-then-insert give the same state -/
theorem put_insert_comm (s : Store) (k : Key) (v : Value) :
    (s.putCache k v).indexInsert k = (s.indexInsert k).putCache k v := by
  unfold Store.putCache Store.indexInsert
  by_cases hk : k ∈ s.index <;> simp [hk]

/-- storing a value and listing its key, in either order -/
theorem inv_store_listed (s : Store) (k : Key) (v : Value) (h : Inv s) (hm : v.md5 = v.content) :
    Inv ((s.putCache k v).indexInsert k) := by
  -- go through an intermediate state in which `k` is stored (with a harmless temporary value if absent)
  have h1 : Inv (s.putCache k { v with tmp := true, hist := [] }) :=
    inv_putCache s k _ h hm (fun ha => absurd ⟨rfl, rfl⟩ ha)
  have h2 : Inv ((s.putCache k { v with tmp := true, hist := [] }).indexInsert k) :=
    inv_indexInsert _ k h1 (by simp [Store.putCache])
  have h3 := inv_putCache _ k v h2 hm (fun _ => mem_indexInsert _ k)
  have e : ((s.putCache k { v with tmp := true, hist := [] }).indexInsert k).putCache k v =
      (s.putCache k v).indexInsert k := by
    rw [put_insert_comm, put_insert_comm]
    unfold Store.putCache Store.indexInsert
    by_cases hk : k ∈ s.index <;> simp [hk, AL.set, AL.erase, AL.erase_erase_same]
  rw [e] at h3; exact h3

/-! ### every step preserves the invariant -/

theorem inv_setTmp (s : Store) (k : Key) (val : String) (now : Int) (h : Inv s) : Inv (s.setTmp k val now) := by
  unfold Store.setTmp
  cases hg : AL.get? s.cache k with
  | none => exact inv_putCache s k _ h rfl (fun ha => absurd ⟨rfl, rfl⟩ ha)
  | some v =>
    apply inv_putCache s k _ h rfl
    intro ha
    apply h.applied_listed k v hg
    intro ⟨_, hh⟩
    exact ha ⟨rfl, hh⟩

theorem inv_delConfig (s : Store) (k : Key) (h : Inv s) : Inv (s.delConfig k) := by
  unfold Store.delConfig Store.indexRemove
  by_cases hk : k ∈ s.index
  · simp only [hk, if_true]
    refine ⟨?_, h.nodup.erase k, ?_, ?_, ?_⟩
    · intro k' v' hv
      by_cases e : k = k'
      · subst e; simp [AL.get?_erase_same] at hv
      · rw [AL.get?_erase_other _ _ _ e] at hv; exact h.md5 k' v' hv
    · simp only; rw [h.size, List.length_erase_of_mem hk]
    · intro k' hk'
      have hne : k' ≠ k := by
        intro e; subst e
        exact (List.Nodup.mem_erase_iff h.nodup).mp hk' |>.1 rfl
      have hmem : k' ∈ s.index := List.mem_of_mem_erase hk'
      simp only [AL.get?_erase_other _ _ _ (Ne.symm hne)]
      exact h.listed_stored k' hmem
    · intro k' v' hv ha
      by_cases e : k = k'
      · subst e; simp [AL.get?_erase_same] at hv
      · rw [AL.get?_erase_other _ _ _ e] at hv
        have := h.applied_listed k' v' hv ha
        exact (List.mem_erase_of_ne (Ne.symm e)).mpr this
  · simp only [hk, if_false]
    refine ⟨?_, h.nodup, h.size, ?_, ?_⟩
    · intro k' v' hv
      by_cases e : k = k'
      · subst e; simp [AL.get?_erase_same] at hv
      · rw [AL.get?_erase_other _ _ _ e] at hv; exact h.md5 k' v' hv
    · intro k' hk'
      have hne : k ≠ k' := by intro e; subst e; exact hk hk'
      simp only [AL.get?_erase_other _ _ _ hne]; exact h.listed_stored k' hk'
    · intro k' v' hv ha
      by_cases e : k = k'
      · subst e; simp [AL.get?_erase_same] at hv
      · rw [AL.get?_erase_other _ _ _ e] at hv; exact h.applied_listed k' v' hv ha

theorem inv_setFull (s : Store) (k : Key) (c : String) (hist : List Hist) (t d : Option String)
    (l : Option Nat) (h : Inv s) : Inv (s.setFull k c hist t d l) := by
  unfold Store.setFull
  apply inv_applyMark
  rw [← put_insert_comm]
  exact inv_store_listed s k _ h rfl

theorem inv_setConfig (s : Store) (p : SetParam) (h : Inv s) : Inv (s.setConfig p).1 := by
  have h' := inv_applyMark s p.mark h
  unfold Store.setConfig
  simp only
  generalize s.applyMark p.mark = s' at h'
  cases hg : AL.get? s'.cache p.key with
  | none =>
    simp only
    exact inv_store_listed s' p.key _ h' rfl
  | some v =>
    simp only
    have hm0 := h'.md5 p.key v hg
    by_cases hun : (!(v.refresh p.ctype p.desc).tmp && (v.refresh p.ctype p.desc).md5 == p.value) = true
    · simp only [hun, if_true]
      have htmp : v.tmp = false := by
        simp only [Bool.and_eq_true, Bool.not_eq_true'] at hun; exact hun.1
      apply inv_putCache s' p.key (v.refresh p.ctype p.desc) h' (show (v.refresh p.ctype p.desc).md5 = (v.refresh p.ctype p.desc).content from hm0)
      intro _
      exact h'.applied_listed p.key v hg (by intro ⟨ht, _⟩; rw [htmp] at ht; cases ht)
    · simp only [hun, Bool.false_eq_true, if_false]
      by_cases he : (v.refresh p.ctype p.desc).hist.isEmpty = true
      · simp only [he, if_true]
        have : Inv (s'.indexInsert p.key) := inv_indexInsert s' p.key h' (by simp [hg])
        exact inv_putCache _ p.key _ this rfl (fun _ => mem_indexInsert _ _)
      · simp only [he, Bool.false_eq_true, if_false]
        apply inv_putCache s' p.key _ h' rfl
        intro _
        apply h'.applied_listed p.key v hg
        intro ⟨_, hh⟩
        apply he
        show v.hist.isEmpty = true
        rw [hh]; rfl

theorem inv_step (s : Store) (op : Op) (h : Inv s) : Inv (s.step op) := by
  cases op with
  | add p => exact inv_setConfig s p h
  | remove k => exact inv_delConfig s k h
  | full k c hs t d l => exact inv_setFull s k c hs t d l h
  | tmp k v n => exact inv_setTmp s k v n h

/-- **the invariant holds in every reachable state** -/
theorem inv_reachable (ops : List Op) : Inv (Store.run {} ops) := by
  have : ∀ (ops : List Op) (s : Store), Inv s → Inv (Store.run s ops) := by
    intro ops
    induction ops with
    | nil => intro s h; exact h
    | cons op rest ih => intro s h; exact ih _ (inv_step s op h)
  exact this ops {} inv_empty

/-! ## the property, clause by clause -/

/-- **md5 matches content** for every stored value in every reachable state -/
theorem md5_matches (ops : List Op) (k : Key) (v : Value) (h : (Store.run {} ops).get k = some v) :
    v.md5 = v.content := (inv_reachable ops).md5 k v h

/-- **every stored (applied) configuration is listed, exactly once; the counter equals the listing** -/
theorem listed_exactly_once (ops : List Op) :
    (Store.run {} ops).index.Nodup ∧ (Store.run {} ops).size = (Store.run {} ops).index.length ∧
    ∀ k v, (Store.run {} ops).get k = some v → Applied v → k ∈ (Store.run {} ops).index :=
  ⟨(inv_reachable ops).nodup, (inv_reachable ops).size, (inv_reachable ops).applied_listed⟩

/-- **removed ones never appear**: whatever is listed is stored -/
theorem listed_is_stored (ops : List Op) (k : Key) (h : k ∈ (Store.run {} ops).index) :
    ((Store.run {} ops).get k).isSome = true := (inv_reachable ops).listed_stored k h

/-- **last write wins (publish)**: right after a publish is applied a read returns exactly the
published content and its md5, as a stored (non-temporary) value -/
theorem get_after_publish (s : Store) (hinv : Inv s) (p : SetParam) :
    ∃ v, (s.setConfig p).1.get p.key = some v ∧ v.content = p.value ∧ v.md5 = p.value ∧ v.tmp = false := by
  have h' := inv_applyMark s p.mark hinv
  unfold Store.setConfig Store.get
  simp only
  generalize s.applyMark p.mark = s' at h'
  cases hg : AL.get? s'.cache p.key with
  | none =>
    simp only [indexInsert_cache, Store.putCache, AL.get?_set_same]
    exact ⟨_, rfl, rfl, rfl, rfl⟩
  | some v =>
    simp only
    by_cases hun : (!(v.refresh p.ctype p.desc).tmp && (v.refresh p.ctype p.desc).md5 == p.value) = true
    · simp only [hun, if_true, Store.putCache, AL.get?_set_same]
      have h1 : v.tmp = false := by
        simp only [Bool.and_eq_true, Bool.not_eq_true'] at hun; exact hun.1
      have h2 : v.md5 = p.value := by
        simp only [Bool.and_eq_true, beq_iff_eq] at hun; exact hun.2
      refine ⟨_, rfl, ?_, h2, h1⟩
      show v.content = p.value
      rw [← h'.md5 p.key v hg, h2]
    · simp only [hun, Bool.false_eq_true, if_false, Store.putCache, AL.get?_set_same]
      exact ⟨_, rfl, rfl, rfl, rfl⟩

/-- type and description: the ones given with the publish, otherwise the previous ones (sticky) -/
theorem type_desc_after_publish (s : Store) (p : SetParam) :
    ∃ v, (s.setConfig p).1.get p.key = some v ∧
      v.ctype = (match p.ctype with | some t => some t | none => (s.get p.key).bind (·.ctype)) ∧
      v.desc = (match p.desc with | some d => some d | none => (s.get p.key).bind (·.desc)) := by
  unfold Store.setConfig Store.get
  simp only
  rw [← applyMark_cache s p.mark]
  generalize s.applyMark p.mark = s'
  cases hg : AL.get? s'.cache p.key with
  | none =>
    simp only [indexInsert_cache, Store.putCache, AL.get?_set_same]
    refine ⟨_, rfl, ?_, ?_⟩ <;> cases p.ctype <;> cases p.desc <;> rfl
  | some v =>
    simp only
    split
    · simp only [Store.putCache, AL.get?_set_same]
      refine ⟨_, rfl, ?_, ?_⟩
      · cases p.ctype <;> rfl
      · cases p.desc <;> rfl
    · simp only [Store.putCache, AL.get?_set_same]
      refine ⟨_, rfl, ?_, ?_⟩
      · cases p.ctype <;> rfl
      · cases p.desc <;> rfl

/-- **not-found after a remove** -/
theorem get_after_remove (s : Store) (k : Key) : (s.delConfig k).get k = none := by
  unfold Store.delConfig Store.indexRemove Store.get
  split <;> simp only [AL.get?_erase_same]

/-- operations on one key never change what another key reads (frame) -/
theorem get_other_key (s : Store) (op : Op) (k : Key)
    (hk : match op with | .add p => p.key ≠ k | .remove k' => k' ≠ k | .full k' .. => k' ≠ k | .tmp k' .. => k' ≠ k) :
    (s.step op).get k = s.get k := by
  cases op with
  | add p =>
    simp only at hk
    show (s.setConfig p).1.get k = s.get k
    unfold Store.setConfig Store.get
    simp only
    rw [← applyMark_cache s p.mark]
    generalize s.applyMark p.mark = s'
    cases AL.get? s'.cache p.key with
    | none => simp only [indexInsert_cache, Store.putCache, AL.get?_set_other _ _ _ _ hk]
    | some v =>
      simp only
      split
      · simp only [Store.putCache, AL.get?_set_other _ _ _ _ hk]
      · split <;> simp only [Store.putCache, indexInsert_cache, AL.get?_set_other _ _ _ _ hk]
  | remove k' =>
    simp only at hk
    show (s.delConfig k').get k = s.get k
    unfold Store.delConfig Store.indexRemove Store.get
    split
    · exact AL.get?_erase_other _ _ _ hk
    · exact AL.get?_erase_other _ _ _ hk
  | full k' c hs t d l =>
    simp only at hk
    show (s.setFull k' c hs t d l).get k = s.get k
    unfold Store.setFull Store.get
    simp only [applyMark_cache, Store.putCache, indexInsert_cache, AL.get?_set_other _ _ _ _ hk]
  | tmp k' v n =>
    simp only at hk
    show (s.setTmp k' v n).get k = s.get k
    unfold Store.setTmp Store.get
    split <;> exact AL.get?_set_other _ _ _ _ hk

/-! ### paging -/

/-- **pages partition the listing and every page reports the same total** -/
theorem pages_partition (s : Store) (q : Query) (n : Nat) :
    ((List.range n).map fun i => (s.queryPage { q with offset := i * q.limit }).2).flatten =
      (s.listing q).take (n * q.limit) ∧
    ∀ i, (s.queryPage { q with offset := i * q.limit }).1 = (s.listing q).length := by
  constructor
  · have hlist : ∀ o, s.listing { q with offset := o } = s.listing q := fun _ => rfl
    induction n with
    | zero => simp
    | succ n ih =>
      rw [List.range_succ, List.map_append, List.flatten_append, ih]
      simp only [List.map_cons, List.map_nil, List.flatten_cons, List.flatten_nil, List.append_nil,
        Store.queryPage, hlist]
      rw [Nat.succ_mul, List.take_add]
  · intro i; rfl

/-- every listed page entry is a listed key of the right tenant (no invented or foreign entries) -/
theorem page_entries_listed (s : Store) (q : Query) (k : Key) (h : k ∈ (s.queryPage q).2) :
    k ∈ s.listing q := by
  unfold Store.queryPage at h
  exact List.mem_of_mem_drop (List.mem_of_mem_take h)

/-! ### history -/

/-- **history: newest first**, every publish that changes the content adds exactly one entry at the
front of the page, older entries keep their order; bounded by 100 -/
theorem history_after_change (v : Value) (c : String) (hid : Nat) (t : Int) (u : Option String) :
    (v.update c hid t u).hist.reverse.head? = some ⟨hid, c, t, u⟩ ∧
    (v.hist.length < 100 → (v.update c hid t u).hist = v.hist ++ [⟨hid, c, t, u⟩]) ∧
    (v.hist.length ≤ 100 → (v.update c hid t u).hist.length ≤ 100) := by
  unfold Value.update
  refine ⟨by simp, ?_, ?_⟩
  · intro h
    have : ¬ (v.hist.length ≥ 100) := by omega
    simp [this]
  · intro h
    simp only
    split
    · simp only [List.length_append, List.length_drop, List.length_cons, List.length_nil]; omega
    · simp only [List.length_append, List.length_cons, List.length_nil]; omega

/-- `historyPage` returns the stored history reversed (newest first), cut by offset/limit, with the
full length as total -/
theorem history_page_spec (s : Store) (k : Key) (v : Value) (hg : s.get k = some v) (o l : Nat) :
    s.historyPage k (some o) (some l) = (v.hist.length, (v.hist.reverse.drop o).take l) := by
  unfold Store.historyPage; unfold Store.get at hg; rw [hg]

/-- a publish with unchanged content adds no history entry and notifies nobody -/
theorem history_unchanged (s : Store) (p : SetParam) (v : Value) (hg : s.get p.key = some v)
    (ht : v.tmp = false) (hm : v.md5 = p.value) :
    ∃ v', (s.setConfig p).1.get p.key = some v' ∧ v'.hist = v.hist ∧ (s.setConfig p).2 = false := by
  unfold Store.get at hg
  rw [← applyMark_cache s p.mark] at hg
  unfold Store.setConfig Store.get
  simp only
  generalize s.applyMark p.mark = s' at hg
  rw [hg]
  have hun : (!(v.refresh p.ctype p.desc).tmp && (v.refresh p.ctype p.desc).md5 == p.value) = true := by
    show (!v.tmp && v.md5 == p.value) = true
    simp [ht, hm]
  simp only [hun, if_true, Store.putCache, AL.get?_set_same]
  exact ⟨_, rfl, rfl, trivial⟩

/-! ### non-vacuity -/
example : ∃ ops : List Op, (Store.run {} ops).index.length = 1 ∧ (Store.run {} ops).cache.length = 2 :=
  ⟨[.add ⟨⟨"d", "g", "t"⟩, "v1", none, none, 1, some 100, 5, none⟩, .tmp ⟨"d2", "g", "t"⟩ "x" 7], by decide⟩

end RNacos.Props.C09
