import RNacos.Model.Privilege
/-!
# C18 — namespace-scoped users never see or change data outside their namespaces

The decision every console data handler has to take is `NamespacePrivilegeGroup::check_permission`; this file
proves that the decision is the one the property states, for every stored privilege group and every way a
namespace can be spelled.  Whether *every handler takes it* is a statement about ~65 call sites: it is settled per
endpoint by the sweep of the real console (correspondence `priv`), and the handlers that do not are listed as
known findings.
-/
namespace RNacos.Props.C18
open RNacos.Privilege

/-- the specification: permitted = (all or listed) in the whitelist and not (all or listed) in the blacklist – of an
enabled group; a disabled group permits everything -/
def Permitted (s : Stored) (k : Ns) : Prop :=
  s.enabled = false ∨
  ((s.whitelistIsAll = true ∨ canon k ∈ s.whitelist) ∧ ¬ (s.blacklistIsAll = true ∨ canon k ∈ s.blacklist))

/-- **the check is the specification** -/
theorem check_iff_permitted (s : Stored) (k : Ns) : (build s).check k = true ↔ Permitted s k := by
  unfold Permitted build Group.check Group.checkRaw Group.atWhitelist Group.atBlacklist Group.all
  cases s with
  | mk en wa ba w b =>
  cases en <;> cases wa <;> cases ba <;> simp [List.contains_iff_mem]

/-- **the blacklist wins**: a blacklisted namespace is refused even if whitelisted (or whitelist = all) -/
theorem blacklist_wins (s : Stored) (k : Ns) (he : s.enabled = true)
    (hb : s.blacklistIsAll = true ∨ canon k ∈ s.blacklist) : (build s).check k = false := by
  have : ¬ Permitted s k := by
    unfold Permitted; intro h
    rcases h with h | ⟨_, h⟩
    · rw [he] at h; cases h
    · exact h hb
  cases hc : (build s).check k with
  | false => rfl
  | true => exact absurd ((check_iff_permitted s k).mp hc) this

/-- an empty whitelist (and not "all") permits nothing -/
theorem empty_whitelist_permits_nothing (s : Stored) (k : Ns) (he : s.enabled = true)
    (hw : s.whitelistIsAll = false) (hl : s.whitelist = []) : (build s).check k = false := by
  cases hc : (build s).check k with
  | false => rfl
  | true =>
    have := (check_iff_permitted s k).mp hc
    unfold Permitted at this
    rcases this with h | ⟨h, _⟩
    · rw [he] at h; cases h
    · rcases h with h | h
      · rw [hw] at h; cases h
      · rw [hl] at h; cases h

/-- **the default namespace is like any other**: every spelling of it – "", "public" – is decided by the same
list entry ("" in the lists), neither more nor less permitted than a named namespace with the same listing -/
theorem default_spellings_agree (g : Group) : g.check [] = g.check publicName := by
  unfold Group.check canon isDefault; simp

theorem default_needs_listing (s : Stored) (he : s.enabled = true) (hw : s.whitelistIsAll = false)
    (hn : ([] : Ns) ∉ s.whitelist) : (build s).check publicName = false ∧ (build s).check [] = false := by
  have h1 : ¬ Permitted s publicName := by
    unfold Permitted; intro h
    rcases h with h | ⟨h, _⟩
    · rw [he] at h; cases h
    · rcases h with h | h
      · rw [hw] at h; cases h
      · exact hn (by simpa [canon, isDefault] using h)
  have h2 : (build s).check publicName = false := by
    cases hc : (build s).check publicName with
    | false => rfl
    | true => exact absurd ((check_iff_permitted s _).mp hc) h1
  exact ⟨h2, by rw [default_spellings_agree]; exact h2⟩

/-- a named namespace is never confused with the default one -/
theorem named_is_itself (k : Ns) (h : isDefault k = false) : canon k = k := by
  unfold canon; simp [h]

/-- an omitted namespace parameter is decided by the handler's default, a present one by the check -/
theorem option_value (g : Group) (k : Option Ns) (d : Bool) :
    g.checkOpt k d = (match k with | some k => g.check k | none => d) := rfl

/-- a user whose group is not enabled is unrestricted -/
theorem disabled_is_unrestricted (s : Stored) (k : Ns) (h : s.enabled = false) : (build s).check k = true :=
  (check_iff_permitted s k).mpr (Or.inl h)

/-! ### changing a user's group (`UserManager::update_user`, what the next login copies into the session) -/

/-- every list and flag that an update names replaces the stored one - an empty list included -/
theorem update_sets_given_fields (s : Stored) (p : Param) :
    (∀ w, p.whitelist = some w → (updateUser s (some p)).whitelist = w) ∧
    (∀ b, p.blacklist = some b → (updateUser s (some p)).blacklist = b) ∧
    (∀ x, p.whitelistIsAll = some x → (updateUser s (some p)).whitelistIsAll = x) ∧
    (∀ x, p.blacklistIsAll = some x → (updateUser s (some p)).blacklistIsAll = x) := by
  refine ⟨?_, ?_, ?_, ?_⟩ <;> intro v hv <;> simp [updateUser, hv]

/-- and what it does not name stays as stored (for an enabled group) -/
theorem update_keeps_unnamed_fields (s : Stored) (p : Param) (he : s.enabled = true) :
    (p.whitelist = none → (updateUser s (some p)).whitelist = s.whitelist) ∧
    (p.blacklist = none → (updateUser s (some p)).blacklist = s.blacklist) ∧
    (p.whitelistIsAll = none → (updateUser s (some p)).whitelistIsAll = s.whitelistIsAll) ∧
    (p.blacklistIsAll = none → (updateUser s (some p)).blacklistIsAll = s.blacklistIsAll) := by
  refine ⟨?_, ?_, ?_, ?_⟩ <;> intro hv <;> simp [updateUser, hv, build, he]

/-- **revoking works**: after an update that empties the whitelist of a user who is not whitelisted for everything,
the session of the next login is permitted no namespace at all -/
theorem cleared_whitelist_permits_nothing (s : Stored) (p : Param) (hw : p.whitelist = some [])
    (hall : (updateUser s (some p)).whitelistIsAll = false) (k : Ns) :
    (build (updateUser s (some p))).check k = false := by
  have h1 := (update_sets_given_fields s p).1 [] hw
  have he : (updateUser s (some p)).enabled = true := rfl
  cases hc : (build (updateUser s (some p))).check k with
  | false => rfl
  | true =>
    have := (check_iff_permitted _ _).mp hc
    unfold Permitted at this
    rcases this with h | ⟨h, _⟩
    · rw [he] at h; cases h
    · rcases h with h | h
      · rw [hall] at h; cases h
      · rw [h1] at h; cases h

/-- a namespace that an update puts on the blacklist is excluded from then on, whatever the whitelist says -/
theorem update_blacklist_excludes (s : Stored) (p : Param) (b : List Ns) (hb : p.blacklist = some b) (k : Ns)
    (hk : canon k ∈ b) : (build (updateUser s (some p))).check k = false := by
  have h1 := (update_sets_given_fields s p).2.1 b hb
  have he : (updateUser s (some p)).enabled = true := rfl
  cases hc : (build (updateUser s (some p))).check k with
  | false => rfl
  | true =>
    have := (check_iff_permitted _ _).mp hc
    unfold Permitted at this
    rcases this with h | ⟨_, h⟩
    · rw [he] at h; cases h
    · exact absurd (Or.inr (by rw [h1]; exact hk)) h

/-- a new user without a privilege parameter is unrestricted; with one, the lists are exactly the given ones -/
theorem add_user_lists (p : Param) :
    (addUser (some p)).whitelist = p.whitelist.getD [] ∧ (addUser (some p)).blacklist = p.blacklist.getD [] ∧
    ∀ k, (build (addUser none)).check k = true := by
  refine ⟨rfl, rfl, fun k => ?_⟩
  exact (check_iff_permitted _ _).mpr (Or.inr ⟨Or.inl rfl, by simp [addUser]⟩)

/-! ### non-vacuity -/
example : (build ⟨true, false, false, [[110, 115, 97]], []⟩).check [110, 115, 97] = true ∧
    (build ⟨true, false, false, [[110, 115, 97]], []⟩).check [110, 115, 98] = false ∧
    (build ⟨true, true, false, [], [[110, 115, 97]]⟩).check [110, 115, 97] = false := by decide

example : (build (updateUser ⟨true, false, false, [[110, 115, 97]], []⟩ (some { whitelist := some [] }))).check [110, 115, 97] = false := by decide

end RNacos.Props.C18
