import RNacos.Lemmas.Scan
import RNacos.Lemmas.FileReader
/-!
# C20 — length-prefixed record streams decode identically under every chunking

Only property theorems live here (helper lemmas: `RNacos/Lemmas/{Varint,BufReader,Drain,Scan,FileReader}`).
Model: `RNacos/Model/{Varint,BufReader,FileReader}.lean` (hand transcription of
`src/common/protobuf_utils.rs` and of `LogInnerManager::move_to_index_by_count`), tied to the code by
the `codec` correspondence run of `/verif/check C20`.

All statements are for *every* u64 / every record-length sequence / every partition into chunks; no
bound on sizes or counts.
-/
namespace RNacos.Props.C20
open RNacos.Varint RNacos.BufReader RNacos.FileReader RNacos.Spec.Stream

/-! ## varint writer, reader and size function agree for every 64-bit value -/

/-- reader ∘ writer = id, whatever bytes follow -/
theorem varint_read_write (v : Nat) (hv : v < 2 ^ 64) (rest : List Nat) :
    vread (vwrite v ++ rest) 0 = .ok v := vread_vwrite v rest hv

/-- size function = number of bytes written -/
theorem varint_size (v : Nat) (hv : v < 2 ^ 64) : (vwrite v).length = vsizeof v :=
  vwrite_length_eq_vsizeof v hv

/-- never more than 10 bytes, never none -/
theorem varint_len_bounds (v : Nat) : 1 ≤ (vwrite v).length ∧ (vwrite v).length ≤ 10 :=
  ⟨vwrite_length_pos v, vwrite_length_le v⟩

/-- a non-zero length never starts with the end marker -/
theorem varint_nonzero_head (v : Nat) (hv : 0 < v) : (vwrite v).head? ≠ some 0 :=
  vwriteF_head_ne_zero 9 v hv

/-! ## the reader loop: same records under every chunking -/

/-- **Main theorem (snapshot / transfer / metadata / `read_records` pattern).**  For every sequence of
record bodies, every well-formed tail and *every* partition of the byte stream into chunks, feeding the
chunks to a fresh `MessageBufReader` and taking messages after each chunk yields exactly the written
frames, in order, nothing dropped, nothing added, and the loop does not spin. -/
theorem drain_any_chunking (bodies : List (List Nat)) (tail : List Nat) (chunks : List (List Nat))
    (hb : BodiesOK bodies) (ht : TailOK tail) (hc : chunks.flatten = stream bodies tail) :
    (drainAll new chunks).1 = bodies.map frame ∧ (drainAll new chunks).2.2 = false :=
  drainAll_correct chunks new bodies tail (wf_new _) hb ht (by rw [window_new]; simpa using hc)
    (by intro b rest _; rw [window_new]; exact frame_length_pos b)

/-- the result does not depend on the chunking at all -/
theorem drain_chunking_independent (bodies : List (List Nat)) (tail : List Nat)
    (c1 c2 : List (List Nat)) (hb : BodiesOK bodies) (ht : TailOK tail)
    (h1 : c1.flatten = stream bodies tail) (h2 : c2.flatten = stream bodies tail) :
    (drainAll new c1).1 = (drainAll new c2).1 := by
  rw [(drain_any_chunking bodies tail c1 hb ht h1).1, (drain_any_chunking bodies tail c2 hb ht h2).1]

/-- the capacity of the internal buffer is irrelevant (1024 is only the initial size) -/
theorem drain_any_capacity (cap : Nat) (bodies : List (List Nat)) (tail : List Nat)
    (chunks : List (List Nat)) (hb : BodiesOK bodies) (ht : TailOK tail)
    (hc : chunks.flatten = stream bodies tail) :
    (drainAll (new cap) chunks).1 = bodies.map frame :=
  (drainAll_correct chunks (new cap) bodies tail (wf_new _) hb ht (by rw [window_new]; simpa using hc)
    (by intro b rest _; rw [window_new]; exact frame_length_pos b)).1

/-! ## the end-of-log scan (`move_to_index_by_count`): stops at the first zero length, never earlier -/

/-- **Scan theorem.** For every chunking of a well-formed stream, the scan with limit `count ≥ 1`
counts exactly `min count |records|` records and advances the cursor by exactly their bytes – in
particular (limit not reached) it stops at the first zero length byte / end of file and never earlier,
whether or not a record ends on a chunk boundary. -/
theorem scan_any_chunking (bodies : List (List Nat)) (tail : List Nat) (chunks : List (List Nat))
    (count : Nat) (hcount : 0 < count)
    (hb : BodiesOK bodies) (ht : TailOK tail) (hc : chunks.flatten = stream bodies tail) :
    scanCount new chunks 0 0 count =
      ((frames (bodies.take (min count bodies.length))).length, min count bodies.length, false) := by
  have h := scanCount_correct chunks new bodies tail 0 0 count (wf_new _) hb ht
    (by rw [window_new]; simpa using hc)
    (by intro b rest _; rw [window_new]; exact frame_length_pos b) (Or.inr hcount)
  have hk : kOf count 0 bodies.length = min count bodies.length := by
    unfold kOf; split <;> simp_all <;> omega
  rw [h, hk]; simp

/-- the end-of-log form used by `LogInnerManager::init` (`count = 0xffff`, fewer records than that
since the last index entry): every record is found. -/
theorem scan_to_end (bodies : List (List Nat)) (tail : List Nat) (chunks : List (List Nat))
    (hn : bodies.length ≤ 0xffff)
    (hb : BodiesOK bodies) (ht : TailOK tail) (hc : chunks.flatten = stream bodies tail) :
    scanCount new chunks 0 0 0xffff = ((frames bodies).length, bodies.length, false) := by
  rw [scan_any_chunking bodies tail chunks 0xffff (by omega) hb ht hc]
  have : min 0xffff bodies.length = bodies.length := by omega
  rw [this, List.take_length]

/-- `count = 0` never matches `c == count` (the counter starts at 1): the scan runs to the end of
the records.  (This is the arithmetic fact behind C03's "cut on an index boundary" defect.) -/
theorem scan_count_zero_runs_to_end (bodies : List (List Nat)) (tail : List Nat)
    (chunks : List (List Nat))
    (hb : BodiesOK bodies) (ht : TailOK tail) (hc : chunks.flatten = stream bodies tail) :
    scanCount new chunks 0 0 0 = ((frames bodies).length, bodies.length, false) := by
  have h := scanCount_correct chunks new bodies tail 0 0 0 (wf_new _) hb ht
    (by rw [window_new]; simpa using hc)
    (by intro b rest _; rw [window_new]; exact frame_length_pos b) (Or.inl rfl)
  have hk : kOf 0 0 bodies.length = bodies.length := by unfold kOf; simp
  rw [h, hk, List.take_length]; simp

/-! ## the oracle and the file reader -/

/-- the whole-stream reference decoder used as the check's oracle returns exactly the frames -/
theorem oracle_is_spec (bodies : List (List Nat)) (tail : List Nat)
    (hb : BodiesOK bodies) (ht : TailOK tail) :
    specDecode (stream bodies tail).length (stream bodies tail) = bodies.map frame :=
  specDecode_stream bodies tail _ hb ht (by
    rw [stream_eq, List.length_append]; have := frames_length_ge bodies; omega)

/-- `FileMessageReader::read_index_position(i)` = offset and length of record `i`; error past the end -/
theorem fileReader_index_position (bodies : List (List Nat)) (i : Nat) (pre tail : List Nat)
    (hb : BodiesOK bodies) (ht : TailOK tail) :
    (readIndexPosition i ⟨pre ++ stream bodies tail, pre.length⟩).map (·.1) =
      if h : i < bodies.length then
        some (pre.length + (frames (bodies.take i)).length, (frame bodies[i]).length)
      else none :=
  readIndexPosition_stream bodies i pre tail hb ht

/-- `FileMessageReader::read_next`, called until it fails (the catalogue, snapshot and transfer readers): exactly the
records of the stream, in order, nothing dropped or added - wherever the stream starts in the file, with or without an
end mark behind it, however close to the end of the file a record starts -/
theorem fileReader_read_next (bodies : List (List Nat)) (pre tail : List Nat) (n : Nat)
    (hb : BodiesOK bodies) (ht : TailOK tail) (hn : bodies.length ≤ n) :
    readAll n ⟨pre ++ stream bodies tail, pre.length⟩ = bodies.map frame :=
  readAll_stream bodies pre tail n hb ht hn

/-! ## non-vacuity: the hypotheses are met by concrete non-trivial streams -/

example : BodiesOK [[7, 8], [1, 1, 1, 1, 1]] ∧ TailOK [0, 0, 0] ∧
    [[2, 7], [8, 5], [1, 1, 1, 1, 1, 0, 0], [0]].flatten = stream [[7, 8], [1, 1, 1, 1, 1]] [0, 0, 0] := by
  refine ⟨?_, Or.inr rfl, by decide⟩
  intro b hb
  simp only [List.mem_cons, List.mem_nil_iff, or_false] at hb
  rcases hb with rfl | rfl <;> exact ⟨by decide, by simp⟩

/-- a concrete run (capacity 4, so the buffer has to grow and to shift): records split inside the
length prefix and inside the body come out whole -/
example : (drainAll (new 4) [[2, 7], [8, 5], [1, 1, 1, 1, 1, 0, 0], [0]]).1 =
    [[7, 8], [1, 1, 1, 1, 1]].map frame := by decide

example : scanCount (new 4) [[2, 7], [8, 5], [1, 1, 1, 1, 1, 0, 0], [0]] 0 0 0xffff = (9, 2, false) := by
  decide

end RNacos.Props.C20
