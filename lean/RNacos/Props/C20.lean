import RNacos.Model.BufReader
import RNacos.Spec.Stream
namespace RNacos.Props.C20
open RNacos.Varint

theorem stub : vwrite 300 = [172, 2] := by decide

end RNacos.Props.C20
