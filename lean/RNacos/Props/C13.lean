import RNacos.Lemmas.Naming
import RNacos.Props.C12
/-!
# C13 — ephemeral HTTP instances expire without heartbeats, never while heart-beating

Model: `RNacos/Model/Naming.lean` (`Svc.timeCheck`, the two time-out sets, `Inst.enableTimeout`).
Theorems are about one service and arbitrary contents of the two time-out sets (any number of instances,
any stale entries): what a time check at time `now` does to an instance, as a function of when it was
last heard of.  `ht = now - healthTimeout`, `ot = now - instanceTimeout`, `ot ≤ ht`.

*Partial*: the 2 s timer that drives the checks, and the propagation "and then everywhere", are runtime
(see C15); the instance taken over from a failed node is the open known finding F16c.
-/
namespace RNacos.Props.C13
open RNacos RNacos.Naming

/-! ## never while heart-beating -/

theorem skip_of_recent (s : Svc) (key : ShortKey) (i : Inst) (limit : Int)
    (hg : AL.get? s.insts key = some i) (hr : i.lastModified > limit) : s.skipTimeout key limit = true := by
  unfold Svc.skipTimeout; rw [hg]; simp [hr]

theorem expireFold_keeps_recent (now limit : Int) (key : ShortKey) (i : Inst) (hr : i.lastModified > limit) :
    ∀ (keys : List ShortKey) (acc : Svc × List ShortKey), AL.get? acc.1.insts key = some i →
      AL.get? (keys.foldl (Svc.expireStep now limit) acc).1.insts key = some i := by
  intro keys
  induction keys with
  | nil => intro acc h; exact h
  | cons k rest ih =>
    intro acc h
    simp only [List.foldl_cons]
    apply ih
    unfold Svc.expireStep
    by_cases hs : acc.1.skipTimeout k limit = true
    · simp only [hs, if_true]; exact h
    · simp only [hs, Bool.false_eq_true, if_false]
      have hne : k ≠ key := by intro e; subst e; exact hs (skip_of_recent _ _ _ _ h hr)
      rw [removeInstance_other _ _ _ _ _ hne]; exact h

theorem unhealthyFold_keeps_recent (limit : Int) (key : ShortKey) (i : Inst) (hr : i.lastModified > limit) :
    ∀ (keys : List ShortKey) (acc : Svc × List ShortKey), AL.get? acc.1.insts key = some i →
      AL.get? (keys.foldl (Svc.unhealthyStep limit) acc).1.insts key = some i := by
  intro keys
  induction keys with
  | nil => intro acc h; exact h
  | cons k rest ih =>
    intro acc h
    simp only [List.foldl_cons]
    apply ih
    unfold Svc.unhealthyStep
    by_cases hs : acc.1.skipTimeout k limit = true
    · simp only [hs, if_true]; exact h
    · simp only [hs, Bool.false_eq_true, if_false]
      have hne : k ≠ key := by intro e; subst e; exact hs (skip_of_recent _ _ _ _ h hr)
      rw [markUnhealthy_other _ _ _ hne]; exact h

/-- **an instance whose last heartbeat is younger than the health time-out is neither marked unhealthy
nor removed by a time check** – whatever stale entries the time-out sets hold -/
theorem never_while_beating (s : Svc) (ht ot now : Int) (hle : ot ≤ ht) (key : ShortKey) (i : Inst)
    (hg : AL.get? s.insts key = some i) (hbeat : i.lastModified > ht) :
    AL.get? (s.timeCheck ht ot now).1.insts key = some i := by
  unfold Svc.timeCheck Svc.unhealthyPass
  simp only
  apply unhealthyFold_keeps_recent ht key i hbeat
  simp only
  unfold Svc.expirePass
  exact expireFold_keeps_recent now ot key i (by omega) _ _ hg

/-- **persistent and gRPC-connected (and replicated) instances are never expired by the heartbeat clock** -/
theorem persistent_grpc_never_expire (s : Svc) (ht ot now : Int) (key : ShortKey) (i : Inst)
    (hg : AL.get? s.insts key = some i) (hn : i.ephemeral = false ∨ i.fromGrpc = true ∨ i.fromCluster > 0) :
    AL.get? (s.timeCheck ht ot now).1.insts key = some i := by
  apply timeCheck_keeps s ht ot now key i hg
  unfold Inst.enableTimeout
  rcases hn with h | h | h <;> simp [h]

/-! ## expiry without heartbeats -/

theorem mem_insertByTime {α : Type} (x a : Int × α) (l : List (Int × α)) :
    a ∈ insertByTime x l ↔ a = x ∨ a ∈ l := by
  induction l with
  | nil => simp [insertByTime]
  | cons y ys ih =>
    unfold insertByTime
    split
    · simp
    · simp only [List.mem_cons, ih]
      constructor
      · rintro (h | h | h)
        · exact Or.inr (Or.inl h)
        · exact Or.inl h
        · exact Or.inr (Or.inr h)
      · rintro (h | h | h)
        · exact Or.inr (Or.inl h)
        · exact Or.inl h
        · exact Or.inr (Or.inr h)

theorem mem_sortByTime {α : Type} (a : Int × α) (l : List (Int × α)) : a ∈ sortByTime l ↔ a ∈ l := by
  unfold sortByTime
  induction l with
  | nil => simp
  | cons y ys ih => simp only [List.foldr_cons, mem_insertByTime, ih, List.mem_cons]

theorem mem_toSplit {α : Type} (l : List (Int × α)) (now : Int) (t : Int) (a : α)
    (hm : (t, a) ∈ l) (ht : t ≤ now) : a ∈ (toSplit l now).1 := by
  unfold toSplit
  simp only
  apply List.mem_map.mpr
  refine ⟨(t, a), ?_, rfl⟩
  rw [mem_sortByTime]
  exact List.mem_filter.mpr ⟨hm, by simpa using ht⟩

/-- a silent instance: subject to the heartbeat clock and last heard of at or before `limit` -/
def Silent (i : Inst) (limit : Int) : Prop := i.enableTimeout = true ∧ i.lastModified ≤ limit

theorem not_skip_of_silent (s : Svc) (key : ShortKey) (i : Inst) (limit : Int)
    (hg : AL.get? s.insts key = some i) (hs : Silent i limit) : s.skipTimeout key limit = false := by
  unfold Svc.skipTimeout; rw [hg]
  have : ¬ (i.lastModified > limit) := by have := hs.2; omega
  simp [hs.1, this]

/-- the unhealthy pass marks every due silent instance unhealthy -/
theorem unhealthyFold_marks (limit : Int) (key : ShortKey) (lm : Int) :
    ∀ (keys : List ShortKey) (acc : Svc × List ShortKey),
      (∃ i, AL.get? acc.1.insts key = some i ∧ Silent i limit ∧ i.lastModified = lm ∧
        (i.healthy = false ∨ key ∈ keys)) →
      ∃ i, AL.get? (keys.foldl (Svc.unhealthyStep limit) acc).1.insts key = some i ∧ i.healthy = false ∧
        i.lastModified = lm := by
  intro keys
  induction keys with
  | nil =>
    intro acc ⟨i, h1, _, h3, h4⟩
    rcases h4 with h4 | h4
    · exact ⟨i, h1, h4, h3⟩
    · cases h4
  | cons k rest ih =>
    intro acc ⟨i, h1, h2, h3, h4⟩
    simp only [List.foldl_cons]
    apply ih
    unfold Svc.unhealthyStep
    by_cases e : k = key
    · subst e
      rw [not_skip_of_silent _ _ _ _ h1 h2]
      simp only [Bool.false_eq_true, if_false]
      unfold Svc.markUnhealthy
      rw [h1]
      simp only
      by_cases hh : i.healthy = true
      · simp only [hh, if_true]
        exact ⟨{ i with healthy := false }, by simp, ⟨h2.1, h2.2⟩, h3, Or.inl rfl⟩
      · simp only [hh, Bool.false_eq_true, if_false]
        exact ⟨i, h1, h2, h3, Or.inl (by simpa using hh)⟩
    · have h4' : i.healthy = false ∨ key ∈ rest := by
        rcases h4 with h | h
        · exact Or.inl h
        · simp only [List.mem_cons] at h
          rcases h with h | h
          · exact absurd h.symm e
          · exact Or.inr h
      by_cases hs : acc.1.skipTimeout k limit = true
      · simp only [hs, if_true]; exact ⟨i, h1, h2, h3, h4'⟩
      · simp only [hs, Bool.false_eq_true, if_false]
        exact ⟨i, by rw [markUnhealthy_other _ _ _ e]; exact h1, h2, h3, h4'⟩

/-- the removal pass leaves an instance as it is or removes it -/
theorem expireFold_same_or_none (now limit : Int) (key : ShortKey) (i : Inst) :
    ∀ (keys : List ShortKey) (acc : Svc × List ShortKey), AL.get? acc.1.insts key = some i ∨ AL.get? acc.1.insts key = none →
      AL.get? (keys.foldl (Svc.expireStep now limit) acc).1.insts key = some i ∨
      AL.get? (keys.foldl (Svc.expireStep now limit) acc).1.insts key = none := by
  intro keys
  induction keys with
  | nil => intro acc h; exact h
  | cons k rest ih =>
    intro acc h
    simp only [List.foldl_cons]
    apply ih
    unfold Svc.expireStep
    split
    · exact h
    · simp only
      by_cases e : k = key
      · subst e
        rcases h with h | h
        · unfold Svc.removeInstance
          split
          · exact Or.inl h
          · rw [h]; simp only [Svc.dropInst]; exact Or.inr (AL.get?_erase_same _ _)
        · exact Or.inr (C12.removeInstance_none_stays _ _ _ _ _ h)
      · rw [removeInstance_other _ _ _ _ _ e]; exact h

theorem healthyTO_after_expire (s : Svc) (ot now : Int) : (s.expirePass ot now).1.healthyTO = s.healthyTO := by
  unfold Svc.expirePass
  have : ∀ (keys : List ShortKey) (acc : Svc × List ShortKey),
      (keys.foldl (Svc.expireStep now ot) acc).1.healthyTO = acc.1.healthyTO := by
    intro keys
    induction keys with
    | nil => intro acc; rfl
    | cons k rest ih =>
      intro acc
      simp only [List.foldl_cons]
      rw [ih]
      unfold Svc.expireStep
      split
      · rfl
      · simp only
        unfold Svc.removeInstance
        split
        · rfl
        · split <;> rfl
  rw [this]

/-- **an instance that stopped heart-beating is reported unhealthy (or already removed) after the first
time check past the health time-out**, provided its last heartbeat armed the health time-out set (every
HTTP registration/heartbeat does: `update_arms`) -/
theorem unhealthy_after (s : Svc) (ht ot now : Int) (key : ShortKey) (i : Inst)
    (hg : AL.get? s.insts key = some i) (hs : Silent i ht) (harm : (i.lastModified, key) ∈ s.healthyTO) :
    AL.get? (s.timeCheck ht ot now).1.insts key = none ∨
    ∃ i', AL.get? (s.timeCheck ht ot now).1.insts key = some i' ∧ i'.healthy = false ∧
      i'.lastModified = i.lastModified := by
  unfold Svc.timeCheck
  simp only
  have h1 : AL.get? (s.expirePass ot now).1.insts key = some i ∨ AL.get? (s.expirePass ot now).1.insts key = none := by
    unfold Svc.expirePass
    exact expireFold_same_or_none now ot key i _ _ (Or.inl hg)
  rcases h1 with h1 | h1
  · right
    unfold Svc.unhealthyPass
    apply unhealthyFold_marks ht key i.lastModified
    refine ⟨i, h1, hs, rfl, Or.inr ?_⟩
    rw [healthyTO_after_expire]
    exact mem_toSplit _ _ _ _ harm hs.2
  · left
    unfold Svc.unhealthyPass
    have : ∀ (keys : List ShortKey) (acc : Svc × List ShortKey), AL.get? acc.1.insts key = none →
        AL.get? (keys.foldl (Svc.unhealthyStep ht) acc).1.insts key = none := by
      intro keys
      induction keys with
      | nil => intro acc h; exact h
      | cons k rest ih =>
        intro acc h
        simp only [List.foldl_cons]
        apply ih
        unfold Svc.unhealthyStep
        split
        · exact h
        · simp only
          by_cases e : k = key
          · subst e; unfold Svc.markUnhealthy; rw [h]; exact h
          · rw [markUnhealthy_other _ _ _ e]; exact h
    exact this _ _ h1

/-- the removal pass removes every due silent instance -/
theorem expireFold_removes (now limit : Int) (key : ShortKey) :
    ∀ (keys : List ShortKey) (acc : Svc × List ShortKey),
      (AL.get? acc.1.insts key = none ∨ ∃ i, AL.get? acc.1.insts key = some i ∧ Silent i limit ∧ key ∈ keys) →
      AL.get? (keys.foldl (Svc.expireStep now limit) acc).1.insts key = none := by
  intro keys
  induction keys with
  | nil =>
    intro acc h
    rcases h with h | ⟨i, _, _, h⟩
    · exact h
    · cases h
  | cons k rest ih =>
    intro acc h
    simp only [List.foldl_cons]
    apply ih
    unfold Svc.expireStep
    rcases h with h | ⟨i, h1, h2, h3⟩
    · left
      split
      · exact h
      · exact C12.removeInstance_none_stays _ _ _ _ _ h
    · by_cases e : k = key
      · subst e
        left
        rw [not_skip_of_silent _ _ _ _ h1 h2]
        simp only [Bool.false_eq_true, if_false]
        exact (C12.deregister_own acc.1 k i "" now h1 (Or.inl rfl)).2 |> fun hx => by
          unfold Svc.removeInstance at hx ⊢
          unfold Svc.refuses at hx ⊢
          simpa [h1, Svc.dropInst, AL.get?_erase_same] using hx
      · right
        have h3' : key ∈ rest := by
          simp only [List.mem_cons] at h3
          rcases h3 with h | h
          · exact absurd h.symm e
          · exact h
        split
        · exact ⟨i, h1, h2, h3'⟩
        · exact ⟨i, by simp only; rw [removeInstance_other _ _ _ _ _ e]; exact h1, h2, h3'⟩

/-- **an unhealthy instance that stays silent is removed by the first time check past the instance
time-out**, provided it was queued when it became (or was registered) unhealthy (`markUnhealthy_arms`) -/
theorem removed_after (s : Svc) (ht ot now : Int) (key : ShortKey) (i : Inst)
    (hg : AL.get? s.insts key = some i) (hs : Silent i ot) (harm : (i.lastModified, key) ∈ s.unhealthyTO) :
    AL.get? (s.timeCheck ht ot now).1.insts key = none := by
  unfold Svc.timeCheck
  simp only
  have h1 : AL.get? (s.expirePass ot now).1.insts key = none := by
    unfold Svc.expirePass
    apply expireFold_removes now ot key
    exact Or.inr ⟨i, hg, hs, mem_toSplit _ _ _ _ harm hs.2⟩
  unfold Svc.unhealthyPass
  have : ∀ (keys : List ShortKey) (acc : Svc × List ShortKey), AL.get? acc.1.insts key = none →
      AL.get? (keys.foldl (Svc.unhealthyStep ht) acc).1.insts key = none := by
    intro keys
    induction keys with
    | nil => intro acc h; exact h
    | cons k rest ih =>
      intro acc h
      simp only [List.foldl_cons]
      apply ih
      unfold Svc.unhealthyStep
      split
      · exact h
      · simp only
        by_cases e : k = key
        · subst e; unfold Svc.markUnhealthy; rw [h]; exact h
        · rw [markUnhealthy_other _ _ _ e]; exact h
  exact this _ _ h1

/-! ## the time-out sets are armed where the theorems above need it -/

/-- every HTTP registration / heartbeat handled by the responsible node arms the health time-out -/
theorem update_arms (s : Svc) (inst : Inst) (tag : Option Tag) :
    ∀ fin, AL.get? (s.updateInstance inst tag false).1.insts inst.short = some fin → fin.enableTimeout = true →
      (fin.lastModified, inst.short) ∈ (s.updateInstance inst tag false).1.healthyTO := by
  intro fin hfin hen
  unfold Svc.updateInstance at hfin ⊢
  cases hg : AL.get? s.insts inst.short with
  | none =>
    rw [hg] at hfin
    simp only [Svc.insertInst, AL.get?_set_same, Option.some.injEq] at hfin ⊢
    subst hfin
    simp [hen]
  | some old =>
    rw [hg] at hfin
    simp only [Svc.replaceInst] at hfin ⊢
    have hk : (applyTag (keepOwner inst old) old tag).1.short = inst.short := by
      rw [applyTag_short, keepOwner_short]
    rw [← hk] at hfin
    simp only [AL.get?_set_same, Option.some.injEq] at hfin
    have hsk : fin.short = inst.short := by rw [← hfin]; exact hk
    rw [hfin, hen, hsk]
    simp

/-- marking an instance unhealthy queues it for removal – also when it already was unhealthy
(registered that way; fixed finding F16a) -/
theorem markUnhealthy_arms (s : Svc) (key : ShortKey) (i : Inst) (hg : AL.get? s.insts key = some i) :
    (i.lastModified, key) ∈ (s.markUnhealthy key).unhealthyTO := by
  unfold Svc.markUnhealthy
  rw [hg]
  simp only
  split <;> simp

/-- kept visible (open finding F16c): an HTTP instance replicated from another node is not subject to the
heartbeat clock even after this node has taken the key over – `refreshRange` re-arms the set, the flag
`fromCluster` stays, so `enableTimeout` stays false and the instance never expires without a new heartbeat -/
theorem taken_over_never_expires (s : Svc) (ht ot now : Int) (key : ShortKey) (i : Inst)
    (hg : AL.get? s.insts key = some i) (hfc : i.fromCluster > 0) :
    AL.get? (s.refreshRange.timeCheck ht ot now).1.insts key = some i :=
  persistent_grpc_never_expire s.refreshRange ht ot now key i hg (Or.inr (Or.inr hfc))

/-! ## non-vacuity: a silent instance goes unhealthy, then away -/
example :
    let i : Inst := ⟨"1.1.1.1", 80, 1000, true, true, true, false, 0, "", 1000⟩
    let s0 : Svc := (({} : Svc).updateInstance i none false).1
    let s1 := (s0.timeCheck (20000 - 18000) (20000 - 33000) 20000).1
    let s2 := (s1.timeCheck (40000 - 18000) (40000 - 33000) 40000).1
    (AL.get? s1.insts i.short).map (·.healthy) = some false ∧ AL.get? s2.insts i.short = none := by
  decide


/-- **a heartbeat never changes what a registered instance is**: `PUT /instance/beat` sends an update tag with nothing
set (and `ephemeral = true` unless the client says otherwise); for a registered instance the stored persistence class,
enabled flag and weight stay those of the registration - so a persistent instance that receives beats stays outside the
heartbeat clock (`persistent_grpc_never_expire`), and the persistent set is not touched -/
theorem beat_keeps_persistence (s : Svc) (inst old : Inst) (t : Tag) (ht : t.isNone = true)
    (hold : AL.get? s.insts inst.short = some old) (fromSync : Bool) :
    ∃ fin, AL.get? (s.updateInstance inst (some t) fromSync).1.insts inst.short = some fin ∧
      fin.ephemeral = old.ephemeral ∧ fin.enabled = old.enabled ∧ fin.weight = old.weight ∧
      (s.updateInstance inst (some t) fromSync).1.perpetual = s.perpetual ∧
      (s.updateInstance inst (some t) fromSync).2.1 = UpdType.updateTime := by
  unfold Svc.updateInstance
  rw [hold]
  have hk : (applyTag (keepOwner inst old) old (some t)).1.short = inst.short := by
    rw [applyTag_short, keepOwner_short]
  refine ⟨(applyTag (keepOwner inst old) old (some t)).1, ?_, ?_, ?_, ?_, ?_, ?_⟩
  · simp only [Svc.replaceInst]; rw [← hk]; exact AL.get?_set_same _ _ _
  · simp [applyTag, ht]
  · simp [applyTag, ht]
  · simp [applyTag, ht]
  · simp only [Svc.replaceInst]
    have he : (applyTag (keepOwner inst old) old (some t)).1.ephemeral = old.ephemeral := by simp [applyTag, ht]
    rw [he]
    cases old.ephemeral <;> simp
  · simp [applyTag, ht]

/-- the beat handler's tag is such a tag -/
example : ({ weight := false, metadata := false, enabled := false, ephemeral := false, fromUpdate := false } : Tag).isNone = true := by
  decide

/-! ## the host probe of persistent instances -/

/-- what a failed host probe leaves at the address: the same instance, reported unhealthy -/
theorem probe_failed_instance (s : Svc) (key : ShortKey) (i : Inst) (hg : AL.get? s.insts key = some i) :
    AL.get? (s.markUnhealthy key).insts key = some { i with healthy := false } := by
  unfold Svc.markUnhealthy
  rw [hg]
  simp only
  split
  · exact AL.get?_set_same _ _ _
  · rename_i hh
    rw [hg]
    have : i.healthy = false := by simpa using hh
    cases i; simp_all

/-- **a failed host probe does not hand a persistent (or gRPC-connected, or replicated) instance to the heartbeat
clock**: the probe (`update_perpetual_health`, the health check of persistent instances) marks it unhealthy and queues
its address in the removal set; however old its last modification is, no later time check removes it -/
theorem probed_persistent_never_expires (s : Svc) (ht ot now : Int) (key : ShortKey) (i : Inst)
    (hg : AL.get? s.insts key = some i) (hn : i.ephemeral = false ∨ i.fromGrpc = true ∨ i.fromCluster > 0) :
    AL.get? ((s.markUnhealthy key).timeCheck ht ot now).1.insts key = some { i with healthy := false } ∧
    (i.lastModified, key) ∈ (s.markUnhealthy key).unhealthyTO :=
  ⟨persistent_grpc_never_expire _ ht ot now key _ (probe_failed_instance s key i hg) hn, markUnhealthy_arms s key i hg⟩

/-- a successful probe brings a persistent instance back to healthy and touches nothing else at the address -/
theorem probe_ok_instance (s : Svc) (key : ShortKey) (i : Inst) (hg : AL.get? s.insts key = some i) :
    AL.get? (s.probeValid key).insts key = some (if !i.healthy && !i.ephemeral then { i with healthy := true } else i) := by
  unfold Svc.probeValid
  rw [hg]
  simp only
  split
  · exact AL.get?_set_same _ _ _
  · exact hg

end RNacos.Props.C13
