import RNacos.Model.Sequence
/-!
# C19 — issued sequence ids are unique and increasing across restarts and nodes

Models: `RNacos/Model/Sequence.lean`.  Three layers, three groups of theorems:
1. `SequenceDbManager` (replicated): ranges handed out for a key are disjoint and increasing, also when
   a log suffix is applied a second time after a restart (ids are skipped, never repeated);
2. `SeqGroup` (per node double buffer): whatever the interleaving of range arrivals and id requests,
   the ids handed out are pairwise distinct, provided the arriving ranges are disjoint (layer 1);
3. `SimpleSequence` (config history ids): in a cluster where the high-water mark travels with the
   committed request, ids are strictly increasing across leader changes and restarts.
-/
namespace RNacos.Props.C19
open RNacos.Sequence RNacos

/-! ## 3. history ids across leaders and restarts -/

/-- invariant: `top` (the last id issued) is at or below every node's `last`; a node holding reserved
ids (`cache > 0`) has its whole reservation at or below every *other* node's `last`. -/
def CInv (nodes : Cluster) (top : Nat) : Prop :=
  (∀ i, top ≤ (nodes i).last) ∧
  (∀ i j, i ≠ j → 0 < (nodes i).cache → (nodes i).endId ≤ (nodes j).last) ∧
  (∀ i, 1 ≤ (nodes i).batch)

theorem cinv_step (nodes : Cluster) (top : Nat) (op : COp) (h : CInv nodes top) :
    (∀ x, (clusterStep nodes op).2 = some x → top < x ∧ CInv (clusterStep nodes op).1 x) ∧
    ((clusterStep nodes op).2 = none → CInv (clusterStep nodes op).1 top) := by
  obtain ⟨h1, h2, h3⟩ := h
  cases op with
  | restart i =>
    refine ⟨by intro x hx; simp [clusterStep] at hx, ?_⟩
    intro _
    refine ⟨?_, ?_, ?_⟩
    · intro j
      simp only [clusterStep]
      split
      · simp only [SimpleSeq.setLastId, SimpleSeq.endId]; have := h1 i; omega
      · exact h1 j
    · intro a b hab hc
      simp only [clusterStep] at hc ⊢
      by_cases ha : a = i
      · simp [ha, SimpleSeq.setLastId] at hc
      · simp only [ha, if_false] at hc ⊢
        by_cases hb : b = i
        · simp only [hb, if_true, SimpleSeq.setLastId, SimpleSeq.endId]
          have := h2 a i (by omega) hc
          simp only [SimpleSeq.endId] at this; omega
        · simp only [hb, if_false]; exact h2 a b hab hc
    · intro j
      simp only [clusterStep]
      split
      · simp only [SimpleSeq.setLastId]; exact h3 i
      · exact h3 j
  | issue i =>
    refine ⟨?_, by intro hx; simp [clusterStep] at hx⟩
    intro x hx
    simp only [clusterStep, Option.some.injEq] at hx
    by_cases hc0 : (nodes i).cache = 0
    · -- a new block is opened: mark = last + batch reaches every node
      have hb := h3 i
      have hxe : x = (nodes i).last + 1 := by
        rw [← hx]; simp [SimpleSeq.nextState, hc0]
      refine ⟨by have := h1 i; omega, ?_, ?_, ?_⟩
      · intro j
        simp only [clusterStep, SimpleSeq.nextState, hc0, if_true, applyMark, SimpleSeq.setValidLastId]
        by_cases hj : j = i
        · simp only [hj, if_true]; split <;> simp <;> omega
        · simp only [hj, if_false]
          split
          · simp; omega
          · rename_i hnl
            -- node j keeps its state: its end is already ≥ mark; it must have cache = 0 ∨ …
            by_cases hjc : 0 < (nodes j).cache
            · have := h2 j i hj hjc
              simp only [SimpleSeq.endId] at this
              omega
            · have : (nodes j).cache = 0 := by omega
              omega
      · intro a b hab hca
        simp only [clusterStep, SimpleSeq.nextState, hc0, if_true, applyMark, SimpleSeq.setValidLastId,
          SimpleSeq.endId] at hca ⊢
        by_cases ha : a = i
        · subst ha
          have hbi : b ≠ a := fun e => hab e.symm
          simp only [if_true, hbi, if_false] at hca ⊢
          have hnot : ¬ ((nodes a).last + 1 + ((nodes a).batch - 1) < (nodes a).last + (nodes a).batch) := by
            omega
          simp only [hnot, if_false] at hca ⊢
          split
          · simp; omega
          · rename_i hnl
            by_cases hbc : 0 < (nodes b).cache
            · have := h2 b a hbi hbc
              simp only [SimpleSeq.endId] at this
              omega
            · have : (nodes b).cache = 0 := by omega
              omega
        · simp only [ha, if_false] at hca
          split at hca
          · simp at hca
          · rename_i hnl
            -- a keeps a non-empty reservation although i (cache = 0) opened a block above it: impossible
            exfalso
            have := h2 a i ha hca
            simp only [SimpleSeq.endId] at this
            omega
      · intro j
        simp only [clusterStep, SimpleSeq.nextState, hc0, if_true, applyMark, SimpleSeq.setValidLastId]
        by_cases hj : j = i
        · simp only [hj, if_true]; split <;> first | exact h3 i | (simp; exact h3 i)
        · simp only [hj, if_false]; split <;> first | exact h3 j | (simp; exact h3 j)
    · -- inside the leader's own block: no mark
      have hxe : x = (nodes i).last + 1 := by
        rw [← hx]; simp [SimpleSeq.nextState, hc0]
      have hcpos : 0 < (nodes i).cache := by omega
      refine ⟨by have := h1 i; omega, ?_, ?_, ?_⟩
      · intro j
        simp only [clusterStep, SimpleSeq.nextState, hc0, if_false, applyMark]
        by_cases hj : j = i
        · simp only [hj, if_true]; omega
        · simp only [hj, if_false]
          have := h2 i j (fun e => hj e.symm) hcpos
          simp only [SimpleSeq.endId] at this; omega
      · intro a b hab hca
        simp only [clusterStep, SimpleSeq.nextState, hc0, if_false, applyMark, SimpleSeq.endId] at hca ⊢
        by_cases ha : a = i
        · subst ha
          have hbi : b ≠ a := fun e => hab e.symm
          simp only [if_true, hbi, if_false] at hca ⊢
          have := h2 a b hab hcpos
          simp only [SimpleSeq.endId] at this; omega
        · simp only [ha, if_false] at hca ⊢
          exfalso
          -- two nodes with reservations contradict the invariant
          have e1 := h2 a i ha hca
          have e2 := h2 i a (fun e => ha e.symm) hcpos
          simp only [SimpleSeq.endId] at e1 e2
          omega
      · intro j
        simp only [clusterStep, SimpleSeq.nextState, hc0, if_false, applyMark]
        by_cases hj : j = i
        · simp only [hj, if_true]; exact h3 i
        · simp only [hj, if_false]; exact h3 j

/-- every id handed out by a run is above `top`, and the trace is strictly increasing -/
theorem cluster_run_increasing : ∀ (ops : List COp) (nodes : Cluster) (top : Nat), CInv nodes top →
    List.Pairwise (· < ·) (top :: (clusterRun nodes ops).2) := by
  intro ops
  induction ops with
  | nil => intro nodes top _; simp [clusterRun]
  | cons op rest ih =>
    intro nodes top h
    obtain ⟨hs, hn⟩ := cinv_step nodes top op h
    simp only [clusterRun]
    cases hv : (clusterStep nodes op).2 with
    | none =>
      have := ih (clusterStep nodes op).1 top (hn hv)
      simpa using this
    | some x =>
      obtain ⟨hlt, hinv⟩ := hs x hv
      have hrec := ih (clusterStep nodes op).1 x hinv
      rw [List.pairwise_cons] at hrec ⊢
      obtain ⟨hx, hp⟩ := hrec
      refine ⟨?_, by simp only; rw [List.pairwise_cons]; exact ⟨hx, hp⟩⟩
      intro y hy
      simp only [List.mem_cons] at hy
      rcases hy with rfl | hy
      · exact hlt
      · exact Nat.lt_trans hlt (hx y hy)

/-- **History ids are strictly increasing (hence never issued twice) across any sequence of
publishes by changing leaders and node restarts**, for every batch size ≥ 1 and any number of nodes,
when every node starts from the same persisted value. -/
theorem history_ids_strictly_increasing (start batch : Nat) (hb : 1 ≤ batch) (ops : List COp) :
    List.Pairwise (· < ·) (clusterRun (fun _ => SimpleSeq.new start batch) ops).2 := by
  have h := cluster_run_increasing ops (fun _ => SimpleSeq.new start batch) start
    ⟨by intro i; simp [SimpleSeq.new], by intro i j _ hc; simp [SimpleSeq.new] at hc,
     by intro i; simpa [SimpleSeq.new] using hb⟩
  exact (List.pairwise_cons.mp h).2

theorem history_ids_unique (start batch : Nat) (hb : 1 ≤ batch) (ops : List COp) :
    (clusterRun (fun _ => SimpleSeq.new start batch) ops).2.Nodup :=
  (history_ids_strictly_increasing start batch hb ops).imp (fun h => Nat.ne_of_lt h)

/-! ## 2. the per-node double buffer -/

/-- the ids a range can still hand out -/
def rem (r : SeqRange) (x : Nat) : Prop := r.start + r.cur ≤ x ∧ x < r.start + r.len

/-- `x` lies in one of the ranges received so far -/
def InRanges (ap : List (Nat × Nat)) (x : Nat) : Prop := ∃ p ∈ ap, p.1 ≤ x ∧ x < p.1 + p.2

/-- invariant over the two buffers, the ranges received and the ids handed out -/
def RInv (a b : SeqRange) (ap : List (Nat × Nat)) (iss : List Nat) : Prop :=
  (∀ x, rem a x → InRanges ap x) ∧ (∀ x, rem b x → InRanges ap x) ∧
  (∀ x ∈ iss, InRanges ap x) ∧ (∀ x ∈ iss, ¬ rem a x ∧ ¬ rem b x) ∧
  (∀ x, rem a x → ¬ rem b x) ∧ iss.Nodup

/-- what `next_id` can do: nothing, or hand out the next id of A, or of B -/
theorem nextId_cases (g : SeqGroup) :
    ((g.nextId).1 = none ∧ (g.nextId).2.a = g.a ∧ (g.nextId).2.b = g.b) ∨
    (g.a.cur < g.a.len ∧ (g.nextId).1 = some (g.a.start + g.a.cur) ∧
      (g.nextId).2.a = { g.a with cur := g.a.cur + 1 } ∧ (g.nextId).2.b = g.b) ∨
    (g.b.cur < g.b.len ∧ (g.nextId).1 = some (g.b.start + g.b.cur) ∧
      (g.nextId).2.b = { g.b with cur := g.b.cur + 1 } ∧ (g.nextId).2.a = g.a) := by
  unfold SeqGroup.nextId SeqGroup.doNext SeqRange.nextId
  by_cases hu : g.useA = true <;> by_cases ha : g.a.cur ≥ g.a.len <;> by_cases hb : g.b.cur ≥ g.b.len <;>
    simp [hu, ha, hb] <;> omega

theorem rinv_consume_a (a b : SeqRange) (ap : List (Nat × Nat)) (iss : List Nat)
    (h : RInv a b ap iss) (hc : a.cur < a.len) :
    a.start + a.cur ∉ iss ∧ RInv { a with cur := a.cur + 1 } b ap (iss ++ [a.start + a.cur]) := by
  obtain ⟨h1, h2, h3, h4, h5, h6⟩ := h
  have hrem : rem a (a.start + a.cur) := ⟨Nat.le_refl _, by omega⟩
  have hnot : a.start + a.cur ∉ iss := fun hm => (h4 _ hm).1 hrem
  refine ⟨hnot, ?_, h2, ?_, ?_, ?_, ?_⟩
  · intro x hx; exact h1 x ⟨by have := hx.1; simp at this; omega, hx.2⟩
  · intro x hx
    simp only [List.mem_append, List.mem_singleton] at hx
    rcases hx with hx | rfl
    · exact h3 x hx
    · exact h1 _ hrem
  · intro x hx
    simp only [List.mem_append, List.mem_singleton] at hx
    rcases hx with hx | rfl
    · exact ⟨fun hr => (h4 x hx).1 ⟨by have := hr.1; simp at this; omega, hr.2⟩, (h4 x hx).2⟩
    · exact ⟨fun hr => by have := hr.1; simp at this; omega, h5 _ hrem⟩
  · intro x hx; exact h5 x ⟨by have := hx.1; simp at this; omega, hx.2⟩
  · rw [List.nodup_append]
    refine ⟨h6, by simp, ?_⟩
    intro x hx y hy
    simp only [List.mem_singleton] at hy
    subst hy
    intro e; subst e; exact hnot hx

theorem rinv_swap (a b : SeqRange) (ap : List (Nat × Nat)) (iss : List Nat) (h : RInv a b ap iss) :
    RInv b a ap iss := by
  obtain ⟨h1, h2, h3, h4, h5, h6⟩ := h
  exact ⟨h2, h1, h3, fun x hx => ⟨(h4 x hx).2, (h4 x hx).1⟩, fun x hb ha => h5 x ha hb, h6⟩

/-- a newly received range that overlaps nothing received before may replace either buffer -/
theorem rinv_apply (a b : SeqRange) (ap : List (Nat × Nat)) (iss : List Nat) (s l : Nat)
    (h : RInv a b ap iss) (hd : ∀ x, s ≤ x → x < s + l → ¬ InRanges ap x) :
    RInv ⟨s, l, 0⟩ b ((s, l) :: ap) iss := by
  obtain ⟨h1, h2, h3, h4, h5, h6⟩ := h
  have mono : ∀ x, InRanges ap x → InRanges ((s, l) :: ap) x := by
    intro x ⟨p, hp, hx⟩; exact ⟨p, by simp [hp], hx⟩
  refine ⟨?_, fun x hx => mono x (h2 x hx), fun x hx => mono x (h3 x hx), ?_, ?_, h6⟩
  · intro x hx
    exact ⟨(s, l), by simp, by have := hx.1; simp at this; omega, hx.2⟩
  · intro x hx
    refine ⟨fun hr => hd x (by have := hr.1; simp at this; omega) hr.2 (h3 x hx), (h4 x hx).2⟩
  · intro x hr hb
    exact hd x (by have := hr.1; simp at this; omega) hr.2 (h2 x hb)

/-- the ranges that arrive never overlap anything that arrived before (guaranteed by layer 1) -/
def OpsOK : List (Nat × Nat) → List GOp → Prop
  | _, [] => True
  | ap, .next :: rest => OpsOK ap rest
  | ap, .apply s l :: rest => (∀ x, s ≤ x → x < s + l → ¬ InRanges ap x) ∧ OpsOK ((s, l) :: ap) rest

theorem group_run_nodup : ∀ (ops : List GOp) (g : SeqGroup) (ap : List (Nat × Nat)) (iss : List Nat),
    RInv g.a g.b ap iss → OpsOK ap ops → (iss ++ (g.run ops).2).Nodup := by
  intro ops
  induction ops with
  | nil => intro g ap iss h _; simpa [SeqGroup.run] using h.2.2.2.2.2
  | cons op rest ih =>
    intro g ap iss h hok
    cases op with
    | next =>
      simp only [SeqGroup.run]
      rcases nextId_cases g with ⟨hn, ea, eb⟩ | ⟨hc, hv, ea, eb⟩ | ⟨hc, hv, eb, ea⟩
      · rw [hn]
        exact ih g.nextId.2 ap iss (by rw [ea, eb]; exact h) hok
      · rw [hv]
        obtain ⟨_, hinv⟩ := rinv_consume_a g.a g.b ap iss h hc
        have := ih g.nextId.2 ap (iss ++ [g.a.start + g.a.cur]) (by rw [ea, eb]; exact hinv) hok
        simpa using this
      · rw [hv]
        obtain ⟨_, hinv⟩ := rinv_consume_a g.b g.a ap iss (rinv_swap _ _ _ _ h) hc
        have := ih g.nextId.2 ap (iss ++ [g.b.start + g.b.cur])
          (by rw [ea, eb]; exact rinv_swap _ _ _ _ hinv) hok
        simpa using this
    | apply s l =>
      obtain ⟨hd, hrest⟩ := hok
      simp only [SeqGroup.run]
      apply ih (g.applyRange s l) ((s, l) :: ap) iss _ hrest
      unfold SeqGroup.applyRange
      split
      · exact rinv_apply g.a g.b ap iss s l h hd
      · exact rinv_swap _ _ _ _ (rinv_apply g.b g.a ap iss s l (rinv_swap _ _ _ _ h) hd)

/-- **Ids handed out by a node's `SeqGroup` are pairwise distinct under every interleaving of id
requests and range arrivals** (including arrivals that overwrite a still unused buffer – those ids
are skipped), provided the arriving ranges do not overlap. -/
theorem group_unique (ops : List GOp) (h : OpsOK [] ops) : (SeqGroup.new.run ops).2.Nodup := by
  have := group_run_nodup ops SeqGroup.new [] [] (by
    refine ⟨?_, ?_, by simp, by simp, ?_, by simp⟩ <;>
    · intro x hx; simp [rem, SeqGroup.new] at hx) h
  simpa using this

/-- reordered range arrivals can make a node's ids go **backwards** (they stay unique): the second
range arrives first and is used first. Kept visible: "increasing" holds per node only when responses
are delivered in request order. -/
theorem group_not_monotone_under_reordering :
    (SeqGroup.new.run [.apply 101 100, .next, .apply 1 100, .next, .next]).2 = [101, 102, 103] ∧
    (SeqGroup.new.run ([.apply 101 2, .next, .apply 1 100, .next, .next, .next])).2 = [101, 102, 1, 2] := by
  decide

/-! ## 1. the replicated counters -/

def keyOf : DbOp → String
  | .nextId k => k | .nextRange k _ => k | .setId k _ => k | .removeId k => k

/-- the op is an explicit reset of key `k` -/
def resets (k : String) : DbOp → Bool
  | .setId k' _ => k' == k
  | .removeId k' => k' == k
  | _ => false

theorem next_set_same (db : SeqDb) (k : String) (v : Nat) : SeqDb.next (AL.set db k v) k = v := by
  simp [SeqDb.next]

theorem next_set_other (db : SeqDb) (k k2 : String) (v : Nat) (h : k ≠ k2) :
    SeqDb.next (AL.set db k v) k2 = SeqDb.next db k2 := by
  simp [SeqDb.next, AL.get?_set_other db k k2 v h]

theorem next_erase_other (db : SeqDb) (k k2 : String) (h : k ≠ k2) :
    SeqDb.next (AL.erase db k) k2 = SeqDb.next db k2 := by
  simp [SeqDb.next, AL.get?_erase_other db k k2 h]

/-- one step: a hand-out for `k` starts at the old `next k` and moves `next k` to its end; any other
non-resetting op leaves `next k` alone -/
theorem step_next (db : SeqDb) (k : String) (op : DbOp) (hr : resets k op = false) :
    (keyOf op = k → (db.step op).2.1 = db.next k ∨ (db.step op).2.2 = 0) ∧
    (db.step op).1.next k = db.next k + (if keyOf op = k then (db.step op).2.2 else 0) := by
  cases op with
  | nextId k' =>
    by_cases h : k' = k
    · subst h; simp [SeqDb.step, keyOf, next_set_same]
    · simp [SeqDb.step, keyOf, h, next_set_other _ _ _ _ h]
  | nextRange k' st =>
    by_cases h : k' = k
    · subst h; simp [SeqDb.step, keyOf, next_set_same]
    · simp [SeqDb.step, keyOf, h, next_set_other _ _ _ _ h]
  | setId k' v =>
    have h : k' ≠ k := by simpa [resets] using hr
    simp [SeqDb.step, keyOf, h, next_set_other _ _ _ _ h]
  | removeId k' =>
    have h : k' ≠ k := by simpa [resets] using hr
    simp [SeqDb.step, keyOf, h, next_erase_other _ _ _ h]

theorem run_cons (db : SeqDb) (op : DbOp) (rest : List DbOp) :
    SeqDb.run db (op :: rest) =
      ((SeqDb.run (db.step op).1 rest).1,
        if (db.step op).2.2 = 0 then (SeqDb.run (db.step op).1 rest).2
        else (keyOf op, (db.step op).2.1, (db.step op).2.2) :: (SeqDb.run (db.step op).1 rest).2) := by
  cases op <;> simp [SeqDb.run, keyOf]

/-- all hand-outs for `k` in a reset-free log lie between the initial and the final `next k` -/
theorem run_bounds (k : String) : ∀ (ops : List DbOp) (db : SeqDb), (∀ op ∈ ops, resets k op = false) →
    db.next k ≤ (SeqDb.run db ops).1.next k ∧
    ∀ e ∈ (SeqDb.run db ops).2, e.1 = k →
      db.next k ≤ e.2.1 ∧ e.2.1 + e.2.2 ≤ (SeqDb.run db ops).1.next k := by
  intro ops
  induction ops with
  | nil => intro db _; simp [SeqDb.run]
  | cons op rest ih =>
    intro db hnr
    have hr := hnr op (by simp)
    obtain ⟨hs1, hs2⟩ := step_next db k op hr
    obtain ⟨i1, i2⟩ := ih (db.step op).1 (fun o ho => hnr o (by simp [ho]))
    rw [run_cons]
    refine ⟨by simp only; omega, ?_⟩
    intro e he hek
    simp only at he ⊢
    split at he
    · obtain ⟨b1, b2⟩ := i2 e he hek
      exact ⟨by omega, b2⟩
    · rename_i hl
      simp only [List.mem_cons] at he
      rcases he with rfl | he
      · simp only at hek
        rcases hs1 hek with h0 | h0
        · simp only [hek, if_true] at hs2
          simp only; omega
        · exact absurd h0 hl
      · obtain ⟨b1, b2⟩ := i2 e he hek
        exact ⟨by omega, b2⟩

/-- **Ranges handed out for a key never overlap and only move upwards** as long as the key is not
explicitly reset (`SetId`/`RemoveId`): every earlier hand-out ends at or before the start of every
later one. -/
theorem db_ranges_disjoint_increasing (k : String) : ∀ (ops : List DbOp) (db : SeqDb),
    (∀ op ∈ ops, resets k op = false) →
    List.Pairwise (fun e1 e2 => e1.1 = k → e2.1 = k → e1.2.1 + e1.2.2 ≤ e2.2.1) (SeqDb.run db ops).2 := by
  intro ops
  induction ops with
  | nil => intro db _; simp [SeqDb.run]
  | cons op rest ih =>
    intro db hnr
    have hr := hnr op (by simp)
    have hrest : ∀ o ∈ rest, resets k o = false := fun o ho => hnr o (by simp [ho])
    obtain ⟨hs1, hs2⟩ := step_next db k op hr
    obtain ⟨_, i2⟩ := run_bounds k rest (db.step op).1 hrest
    rw [run_cons]
    simp only
    split
    · exact ih _ hrest
    · rename_i hl
      rw [List.pairwise_cons]
      refine ⟨?_, ih _ hrest⟩
      intro e he hk1 hk2
      simp only at hk1 ⊢
      obtain ⟨b1, _⟩ := i2 e he hk2
      rcases hs1 hk1 with h0 | h0
      · simp only [hk1, if_true] at hs2; omega
      · exact absurd h0 hl

/-- **Applying a log suffix a second time after a restart skips ids but never repeats one**: every
hand-out of the first run ends at or before the start of every hand-out of any continuation. -/
theorem db_replay_never_repeats (k : String) (ops ops2 : List DbOp) (db : SeqDb)
    (h1 : ∀ op ∈ ops, resets k op = false) (h2 : ∀ op ∈ ops2, resets k op = false) :
    ∀ e1 ∈ (SeqDb.run db ops).2, ∀ e2 ∈ (SeqDb.run (SeqDb.run db ops).1 ops2).2,
      e1.1 = k → e2.1 = k → e1.2.1 + e1.2.2 ≤ e2.2.1 := by
  intro e1 he1 e2 he2 hk1 hk2
  have a := (run_bounds k ops db h1).2 e1 he1 hk1
  have b := (run_bounds k ops2 _ h2).2 e2 he2 hk2
  omega

/-- the first id of a fresh key is 1 and ids are handed out one by one (sanity / non-vacuity) -/
example : (SeqDb.run [] [.nextId "a", .nextRange "a" 100, .nextId "b", .nextId "a"]).2 =
    [("a", 1, 1), ("a", 2, 100), ("b", 1, 1), ("a", 102, 1)] := by decide

example : OpsOK [] [.next, .apply 1 100, .next, .next, .apply 101 100, .next] := by
  simp [OpsOK, InRanges]; omega

end RNacos.Props.C19

/-! ## 3b. restart from a snapshot taken earlier, plus replay of the log since

History ids stay strictly increasing when a node restarts from a snapshot taken **earlier** and replays the
committed requests since (C19, and the part of C01 that concerns the configuration history-id counter). -/
namespace RNacos.Props.C19
open RNacos.Sequence RNacos

theorem applyMark_cache0 (m : Option Nat) (s : SimpleSeq) (h : s.cache = 0) :
    (applyMark m s).cache = 0 ∧ s.last ≤ (applyMark m s).last ∧ (applyMark m s).batch = s.batch ∧
      (∀ v, m = some v → v ≤ (applyMark m s).last) := by
  cases m with
  | none => simp [applyMark, h]
  | some v =>
    simp only [applyMark, SimpleSeq.setValidLastId]
    split
    · refine ⟨rfl, by simp; omega, rfl, ?_⟩; intro w hw; simp at hw; subst hw; simp
    · refine ⟨h, Nat.le_refl _, rfl, ?_⟩; intro w hw; simp at hw; subst hw; omega

theorem replay_fold_cache0 (ms : List (Option Nat)) (s : SimpleSeq) (h : s.cache = 0) :
    (ms.foldl (fun st m => applyMark m st) s).cache = 0 ∧ s.last ≤ (ms.foldl (fun st m => applyMark m st) s).last ∧
      (ms.foldl (fun st m => applyMark m st) s).batch = s.batch := by
  induction ms generalizing s with
  | nil => simp [h]
  | cons m ms ih =>
    have h1 := applyMark_cache0 m s h
    have h2 := ih (applyMark m s) h1.1
    simp only [List.foldl_cons]
    exact ⟨h2.1, by omega, by rw [h2.2.2, h1.2.2.1]⟩

theorem replay_props (sv : Saved) : sv.replay.cache = 0 ∧ sv.value ≤ sv.replay.last ∧ sv.replay.batch = sv.batch := by
  have := replay_fold_cache0 sv.marks ⟨0, sv.batch, sv.value⟩ rfl
  simpa [Saved.replay] using this

theorem replay_append (sv : Saved) (m : Option Nat) :
    ({ sv with marks := sv.marks ++ [m] } : Saved).replay = applyMark m sv.replay := by
  simp [Saved.replay, List.foldl_append]

/-- what a restart from the saved snapshot would produce is, at every moment, a state that keeps `CInv` -/
def SInv (c : Cluster2) (top : Nat) : Prop :=
  ∀ k sv, c.saved k = some sv →
    top ≤ sv.replay.last ∧ (∀ a, 0 < (c.nodes a).cache → (c.nodes a).endId ≤ sv.replay.last) ∧ 1 ≤ sv.batch

theorem cinv2_step (c : Cluster2) (top : Nat) (op : COp2) (h : CInv c.nodes top) (hs : SInv c top) :
    (∀ x, (cluster2Step c op).2 = some x → top < x ∧ CInv (cluster2Step c op).1.nodes x ∧ SInv (cluster2Step c op).1 x) ∧
    ((cluster2Step c op).2 = none → CInv (cluster2Step c op).1.nodes top ∧ SInv (cluster2Step c op).1 top) := by
  cases op with
  | issue i =>
    have hstep := cinv_step c.nodes top (.issue i) h
    refine ⟨?_, by intro hx; simp [cluster2Step, clusterStep] at hx⟩
    intro x hx
    have hx' : (clusterStep c.nodes (.issue i)).2 = some x := by simpa [cluster2Step] using hx
    obtain ⟨hlt, hinv⟩ := hstep.1 x hx'
    refine ⟨hlt, by simpa [cluster2Step] using hinv, ?_⟩
    obtain ⟨h1, h2, h3⟩ := h
    have hxe : x = (c.nodes i).last + 1 := by
      simp only [clusterStep, Option.some.injEq] at hx'
      rw [← hx']; simp only [SimpleSeq.nextState]; split <;> rfl
    intro k sv' hsv'
    simp only [cluster2Step] at hsv'
    cases hk : c.saved k with
    | none => simp [hk] at hsv'
    | some sv =>
      simp only [hk, Option.map_some, Option.some.injEq] at hsv'
      subst hsv'
      obtain ⟨p1, p2, p3⟩ := hs k sv hk
      have hr0 := replay_props sv
      rw [replay_append]
      have ham := applyMark_cache0 ((c.nodes i).nextState).1.2 sv.replay hr0.1
      by_cases hc0 : (c.nodes i).cache = 0
      · -- a new block: the mark reaches the replayed state too
        have hmark : ((c.nodes i).nextState).1.2 = some ((c.nodes i).last + (c.nodes i).batch) := by
          simp [SimpleSeq.nextState, hc0]
        have hM := ham.2.2.2 _ hmark
        have hmono := ham.2.1
        have hb := h3 i
        rw [hmark] at hM hmono ⊢
        generalize applyMark (some ((c.nodes i).last + (c.nodes i).batch)) sv.replay = R at hM hmono ⊢
        refine ⟨by omega, ?_, p3⟩
        intro a hca
        simp only [cluster2Step, clusterStep, SimpleSeq.nextState, hc0, if_true, applyMark, SimpleSeq.setValidLastId,
          SimpleSeq.endId] at hca ⊢
        by_cases ha : a = i
        · subst ha
          simp only [if_true] at hca ⊢
          have hnot : ¬ ((c.nodes a).last + 1 + ((c.nodes a).batch - 1) < (c.nodes a).last + (c.nodes a).batch) := by omega
          simp only [hnot, if_false] at hca ⊢
          omega
        · simp only [ha, if_false] at hca ⊢
          split at hca
          · simp at hca
          · rename_i hnl
            simp only [hnl, if_false]
            have := p2 a hca
            simp only [SimpleSeq.endId] at this
            omega
      · -- inside the leader's block: no mark; the id is covered by the reservation, which the replayed state covers
        have hmark : ((c.nodes i).nextState).1.2 = none := by simp [SimpleSeq.nextState, hc0]
        have hcpos : 0 < (c.nodes i).cache := by omega
        have hcov := p2 i hcpos
        simp only [SimpleSeq.endId] at hcov
        rw [hmark]
        simp only [applyMark]
        refine ⟨by omega, ?_, p3⟩
        intro a hca
        simp only [cluster2Step, clusterStep, SimpleSeq.nextState, hc0, if_false, applyMark, SimpleSeq.endId] at hca ⊢
        by_cases ha : a = i
        · subst ha; simp only [if_true] at hca ⊢; omega
        · simp only [ha, if_false] at hca ⊢
          have := p2 a hca
          simp only [SimpleSeq.endId] at this; omega
  | restart i =>
    have hstep := cinv_step c.nodes top (.restart i) h
    refine ⟨by intro x hx; simp [cluster2Step] at hx, ?_⟩
    intro _
    refine ⟨by simpa [cluster2Step] using hstep.2 (by simp [clusterStep]), ?_⟩
    intro k sv hsv
    simp only [cluster2Step] at hsv
    obtain ⟨p1, p2, p3⟩ := hs k sv hsv
    refine ⟨p1, ?_, p3⟩
    intro a hca
    simp only [cluster2Step, clusterStep] at hca ⊢
    by_cases ha : a = i
    · simp [ha, SimpleSeq.setLastId] at hca
    · simp only [ha, if_false] at hca ⊢; exact p2 a hca
  | snapshot i =>
    refine ⟨by intro x hx; simp [cluster2Step] at hx, ?_⟩
    intro _
    refine ⟨by simpa [cluster2Step] using h, ?_⟩
    obtain ⟨h1, h2, h3⟩ := h
    intro k sv hsv
    simp only [cluster2Step] at hsv
    by_cases hk : k = i
    · simp only [hk, if_true, Option.some.injEq] at hsv
      subst hsv
      simp only [Saved.replay, List.foldl_nil, cluster2Step]
      refine ⟨by have := h1 i; simp only [SimpleSeq.endId]; omega, ?_, h3 i⟩
      intro a hca
      by_cases ha : a = i
      · subst ha; exact Nat.le_refl _
      · have := h2 a i ha hca
        simp only [SimpleSeq.endId] at this ⊢; omega
    · simp only [hk, if_false] at hsv
      exact hs k sv hsv
  | restartSaved i =>
    refine ⟨by intro x hx; simp only [cluster2Step] at hx; split at hx <;> simp at hx, ?_⟩
    intro _
    cases hsi : c.saved i with
    | none => simp only [cluster2Step, hsi]; exact ⟨h, hs⟩
    | some sv =>
      simp only [cluster2Step, hsi]
      obtain ⟨p1, p2, p3⟩ := hs i sv hsi
      have hr0 := replay_props sv
      obtain ⟨h1, h2, h3⟩ := h
      refine ⟨⟨?_, ?_, ?_⟩, ?_⟩
      · intro j; by_cases hj : j = i
        · simp only [hj, if_true]; exact p1
        · simp only [hj, if_false]; exact h1 j
      · intro a b hab hca
        by_cases ha : a = i
        · simp only [ha, if_true] at hca; omega
        · simp only [ha, if_false] at hca ⊢
          by_cases hb : b = i
          · simp only [hb, if_true]; exact p2 a hca
          · simp only [hb, if_false]; exact h2 a b hab hca
      · intro j; by_cases hj : j = i
        · simp only [hj, if_true]; omega
        · simp only [hj, if_false]; exact h3 j
      · intro k svk hsvk
        obtain ⟨q1, q2, q3⟩ := hs k svk hsvk
        refine ⟨q1, ?_, q3⟩
        intro a hca
        by_cases ha : a = i
        · simp only [ha, if_true] at hca; omega
        · simp only [ha, if_false] at hca ⊢; exact q2 a hca

theorem cluster2_run_increasing : ∀ (ops : List COp2) (c : Cluster2) (top : Nat), CInv c.nodes top → SInv c top →
    List.Pairwise (· < ·) (top :: (cluster2Run c ops).2) := by
  intro ops
  induction ops with
  | nil => intro c top _ _; simp [cluster2Run]
  | cons op rest ih =>
    intro c top h hs
    obtain ⟨hsome, hnone⟩ := cinv2_step c top op h hs
    simp only [cluster2Run]
    cases hv : (cluster2Step c op).2 with
    | none =>
      obtain ⟨hc', hs'⟩ := hnone hv
      have := ih (cluster2Step c op).1 top hc' hs'
      simpa using this
    | some x =>
      obtain ⟨hlt, hinv, hsinv⟩ := hsome x hv
      have hrec := ih (cluster2Step c op).1 x hinv hsinv
      rw [List.pairwise_cons] at hrec ⊢
      obtain ⟨hx, hp⟩ := hrec
      refine ⟨?_, by simp only; rw [List.pairwise_cons]; exact ⟨hx, hp⟩⟩
      intro y hy
      simp only [List.mem_cons] at hy
      rcases hy with rfl | hy
      · exact hlt
      · exact Nat.lt_trans hlt (hx y hy)

/-- **History ids are strictly increasing across publishes by changing leaders, compactions at arbitrary points, and
restarts from the last snapshot plus replay of the log since** - for every batch size ≥ 1 and any number of nodes. -/
theorem history_ids_increasing_with_snapshots (start batch : Nat) (hb : 1 ≤ batch) (ops : List COp2) :
    List.Pairwise (· < ·) (cluster2Run ⟨fun _ => SimpleSeq.new start batch, fun _ => none⟩ ops).2 := by
  have h := cluster2_run_increasing ops ⟨fun _ => SimpleSeq.new start batch, fun _ => none⟩ start
    ⟨by intro i; simp [SimpleSeq.new], by intro i j _ hc; simp [SimpleSeq.new] at hc,
     by intro i; simpa [SimpleSeq.new] using hb⟩
    (by intro k sv hsv; simp at hsv)
  exact (List.pairwise_cons.mp h).2

/-- the statement is about something: a compaction in the middle of a block, two more ids, a restart from that
snapshot, one more id -/
example : (cluster2Run ⟨fun _ => SimpleSeq.new 0 100, fun _ => none⟩
    [.issue 0, .issue 0, .snapshot 0, .issue 0, .issue 0, .restartSaved 0, .issue 0]).2 = [1, 2, 3, 4, 101] := by
  decide

end RNacos.Props.C19
