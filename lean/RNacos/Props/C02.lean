import RNacos.Lemmas.MgrSplit
import RNacos.Lemmas.LogHistory
/-!
# C02 — Raft log: acknowledged entries survive reopen unchanged; none are invented

Model: `RNacos/Model/LogFile.lean` – one log file (`LogInnerManager`) byte by byte: header, varint index area,
length-prefixed record stream, zero padding, the cursors and the data handle's position.
Specification: a list of entries (`stepA`): an append is taken iff it is acknowledged, a truncation keeps the
entries below the cut, a reopen changes nothing.

`WF f es` ("file `f` holds exactly `es`") is the representation invariant; `run_wf` shows it for every history.
The theorems below are its observable consequences.  The 1024-byte chunked readers are represented by the
whole-stream parse (`scanFrames`); C20's `drain_any_chunking` / `scan_any_chunking` prove the chunked readers
equal to it for every chunking of a stream of this shape (frames followed by zeros).
-/
namespace RNacos.Props.C02
open RNacos.LogFile RNacos.Spec.Stream

/-- the state reached by a history from a new file -/
def after (start pre split : Nat) (ops : List Op) : LogFile × List Rec := run (create start pre split, []) ops

/-- **refinement for every history** (append / rejected append / truncation / reopen, any payload sizes, any
number of index steps): the file holds exactly the specified log -/
theorem history_holds_spec (start pre split : Nat) (ops : List Op) (hs : start < 2 ^ 64) (hp : pre < 2 ^ 64)
    (hok : HistOK (create start pre split) ops) :
    WF (after start pre split ops).1 (after start pre split ops).2 :=
  run_wf ops _ _ (create_wf start pre split 128 4096 (by omega) (by omega) (by omega) (by decide) hs hp) hok

/-- **reads return exactly the acknowledged entries**: same index, term and payload, contiguous, in order
(the slice `[max a split_off, min b end)` of the specified log) -/
theorem read_returns_spec (f : LogFile) (es : List Rec) (a b : Nat) (h : WF f es) :
    readRecords f a b = some ((es.drop (max a f.splitOff - f.startIndex)).take (min b (endIndex f) - max a f.splitOff)) :=
  read_wf f es a b h

/-- **nothing is invented**: whatever a read returns is an entry of the specified log -/
theorem read_subset_spec (f : LogFile) (es : List Rec) (a b : Nat) (h : WF f es) (rs : List Rec)
    (hr : readRecords f a b = some rs) : ∀ r ∈ rs, r ∈ es := by
  rw [read_wf f es a b h] at hr
  cases hr
  intro r hr
  exact List.mem_of_mem_drop (List.mem_of_mem_take hr)

/-- the entries are contiguous from the file's first index -/
theorem spec_contiguous (f : LogFile) (es : List Rec) (h : WF f es) (i : Nat) (hi : i < es.length) :
    es[i].index = f.startIndex + i := h.idx i hi

theorem startIndex_initTerm (f : LogFile) (t : Nat) : (initTerm f t).startIndex = f.startIndex := by
  unfold initTerm
  split
  · split
    · rfl
    · split <;> rfl
  · rfl

/-- **reopen**: closing and reopening (from the bytes alone – cursors, index list and counters are recomputed)
gives a file holding the same entries, with the same end index -/
theorem reopen_same_entries (f : LogFile) (es : List Rec) (h : WF f es) (fl pre sp : Nat) :
    WF (load f.bytes fl f.startIndex pre sp) es ∧
    endIndex (load f.bytes fl f.startIndex pre sp) = endIndex f := by
  have hw := load_wf f es h fl pre sp
  refine ⟨hw, ?_⟩
  rw [endIndex_wf _ es hw, endIndex_wf f es h, (load_eq f es h fl pre sp).1, startIndex_initTerm]
  rfl

/-- **the last entry is reported** after a reopen: last index and term are those of the last stored entry
(provided the catalogue has not split it off) -/
theorem reopen_reports_last (f : LogFile) (es : List Rec) (h : WF f es) (fl pre sp : Nat) (hne : es ≠ [])
    (hsp : max sp f.startIndex < endIndex f) :
    lastInfo (load f.bytes fl f.startIndex pre sp) = ((es.getLast hne).index, (es.getLast hne).term) := by
  obtain ⟨hw, he⟩ := reopen_same_entries f es h fl pre sp
  obtain ⟨hl, hw0⟩ := load_eq f es h fl pre sp
  have hlen : 0 < es.length := List.length_pos_iff.mpr hne
  have hend := endIndex_wf f es h
  unfold lastInfo
  rw [he]
  congr 1
  · rw [List.getLast_eq_getElem hne, h.idx (es.length - 1) (by omega), hend]; omega
  · rw [hl]
    apply initTerm_lastTerm _ es pre hw0 hne
    have : endIndex (reloaded f es fl pre sp) = endIndex f := by
      rw [endIndex_wf _ es hw0, hend]; rfl
    rw [this]; exact hsp

/-- an empty log reports the index before its first one and the catalogue's previous term -/
theorem reopen_reports_empty (f : LogFile) (h : WF f []) (fl pre sp : Nat) :
    lastInfo (load f.bytes fl f.startIndex pre sp) = (f.startIndex - 1, pre) := by
  obtain ⟨hl, hw0⟩ := load_eq f [] h fl pre sp
  rw [hl]
  unfold lastInfo initTerm
  have : ¬ ((reloaded f [] fl pre sp).msgCount > 0) := by simp [reloaded]
  simp only [this, if_false]
  simp [endIndex, reloaded]

/-- **appends**: an acknowledged append is the contiguous one, it becomes the last entry; a non-contiguous one is
refused and changes nothing -/
theorem append_ack (f : LogFile) (es : List Rec) (r : Rec) (h : WF f es) (hfull : isFull f = false)
    (hidx : r.index = endIndex f) (hr : RecOK r) (hsz : f.dataCursor + (frame (recBody r)).length < 2 ^ 64) :
    WF (write f r).1 (es ++ [r]) ∧ lastInfo (write f r).1 = (r.index, r.term) := by
  obtain ⟨hw, ht, _⟩ := write_wf f es r h hfull hidx hr hsz
  refine ⟨hw, ?_⟩
  unfold lastInfo
  rw [ht, endIndex_wf _ _ hw, hidx, endIndex_wf f es h]
  have : (write f r).1.startIndex = f.startIndex := by
    unfold write; simp only [hfull, Bool.false_eq_true, if_false]
    have hne : ¬ (endIndex f ≠ r.index) := by simp [hidx]
    simp only [hne, if_false]
    split <;> rfl
  rw [this]; simp

theorem append_refused (f : LogFile) (r : Rec) (hfull : isFull f = false) (hidx : r.index ≠ endIndex f) :
    write f r = (f, .indexEqualError) := by
  unfold write
  have : endIndex f ≠ r.index := fun e => hidx e.symm
  simp [hfull, this]

/-! ### non-vacuity: the hypotheses are met by concrete states -/
example : RecOK ⟨1, 1, [7, 8, 9]⟩ ∧ isFull (create 1 0 0) = false ∧ (⟨1, 1, [7, 8, 9]⟩ : Rec).index = endIndex (create 1 0 0) := by
  refine ⟨by unfold RecOK; decide, by decide, by decide⟩

/-- a history with an accepted append, a truncation, a reopen and a re-append, evaluated by the kernel: the
side conditions hold and the specified log is what one expects -/
example :
    let ops : List Op := [.append ⟨1, 1, [7]⟩, .append ⟨2, 1, []⟩, .strip 2, .reopen 0 0, .append ⟨2, 3, [1, 2]⟩]
    (after 1 0 0 ops).2 = [⟨1, 1, [7]⟩, ⟨2, 3, [1, 2]⟩] ∧
    readRecords (after 1 0 0 ops).1 0 9 = some [⟨1, 1, [7]⟩, ⟨2, 3, [1, 2]⟩] := by
  decide +kernel

end RNacos.Props.C02

/-! ## the whole log: several files (manager level)

`RNacos/Model/LogManager.lean` models `RaftLogManager` - the catalogue of files plus what each holds, with *when a
file is full* left as a parameter.  `Chain` (Lemmas/MgrBasic) is its invariant.  The theorems say that, whatever the
geometry of the files and the sizes of the records, the manager's operations are the list specification's
(`RNacos/Model/LogStore.lean`): where the files roll over cannot be seen. -/
namespace RNacos.Props.C02
open RNacos.LogManager RNacos.LogStore

/-- the list specification's view of a catalogue -/
def absStore (fs : List File) (t : Nat) (p : Option (Nat × Nat)) : Store := { ents := absEnts fs, next := absNext fs, lastTerm := t, prePtr := p }

/-- **append / replicate refine the specification for every file geometry**: a contiguous batch is taken iff the
specification takes it, the visible log and the next expected index are the specification's, the catalogue stays
well formed; a refused batch changes nothing that can be seen -/
theorem manager_append_refines (full : File → Bool) (hfresh : ∀ f : File, f.recs = [] → full f = false)
    (fs : List File) (hc : Chain fs) (e : Ent) (es : List Ent) (hcont : Contig (e :: es)) (t : Nat) (p : Option (Nat × Nat)) :
    Chain (writeBatchFs full fs (e :: es)).1 ∧
    ((writeBatchFs full fs (e :: es)).2 = .ok ↔ (append (absStore fs t p) (e :: es)).2 = true) ∧
    absEnts (writeBatchFs full fs (e :: es)).1 = (append (absStore fs t p) (e :: es)).1.ents ∧
    absNext (writeBatchFs full fs (e :: es)).1 = (append (absStore fs t p) (e :: es)).1.next := by
  have h := writeBatchFs_spec full hfresh (e :: es) fs hc hcont
  simp only at h
  by_cases hacc : absNext fs = none ∨ absNext fs = some e.index
  · rw [if_pos hacc] at h
    simp only [append, absStore, hacc, if_true]
    exact ⟨h.1, by simp [h.2.1], h.2.2.1, h.2.2.2⟩
  · rw [if_neg hacc] at h
    simp only [append, absStore, hacc, if_false]
    exact ⟨h.1, by simp [h.2.1], h.2.2.1, h.2.2.2⟩

/-- **reads** return exactly the specification's entries of the requested range -/
theorem manager_get_refines (fs : List File) (hc : Chain fs) (a b t : Nat) (p : Option (Nat × Nat)) :
    LogManager.get ⟨fs, p⟩ a b = LogStore.get (absStore fs t p) a b := by
  rw [get_spec fs p hc a b]; rfl

/-- non-vacuity: three appends with a file that is full after two records roll over, and read back as one log -/
def full2 : File → Bool := fun f => decide (f.recs.length ≥ 2)

example :
    (writeBatchFs full2 [] (mkEnts 1 1 3 5 0)).2 = .ok ∧ (writeBatchFs full2 [] (mkEnts 1 1 3 5 0)).1.length = 2 ∧
      absEnts (writeBatchFs full2 [] (mkEnts 1 1 3 5 0)).1 = mkEnts 1 1 3 5 0 := by
  decide

example : Contig (mkEnts 1 1 3 5 0) := by simp [mkEnts, Contig, List.range, List.range.loop]

end RNacos.Props.C02
