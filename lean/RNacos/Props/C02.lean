import RNacos.Model.LogFile
/-! # C02 — (theorems under construction) -/
namespace RNacos.Props.C02
open RNacos.LogFile

example : (write (create 1 0 0) ⟨1, 1, [7]⟩).2 = .success := by decide

end RNacos.Props.C02
