import RNacos.Model.Listener
import RNacos.Props.C09
/-!
# C10 — config change notification is complete: no listener waits on a stale md5

Model: `RNacos/Model/Listener.lean`.  The title is proved as an invariant over **every** interleaving
of listen / tick / subscribe / unsubscribe / client removal / publish / remove:
a registered long-poll always holds, for each of its keys, exactly the md5 the store has now — so a
change can never go unreported to it — and it is wired into the per-key index that `notify` consults.
-/
namespace RNacos.Props.C10
open RNacos RNacos.Config RNacos.Listener

/-- the alphabet the property quantifies over (temporary values and imports are other entry points) -/
def InAlphabet : Listener.Op → Bool
  | .tmp .. => false
  | .full .. => false
  | _ => true

/-- **no stale waiter**: every pending long-poll holds the current md5 of each of its keys, and is
registered under each of them -/
def NoStale (c : CState) : Prop :=
  ∀ p ∈ c.l.pending, ∀ it ∈ p.items,
    curMd5 c.store it.1 = it.2 ∧ ∃ vs, AL.get? c.l.byKey it.1 = some vs ∧ p.version ∈ vs

/-- bookkeeping invariant: versions of pending requests are ≤ the counter -/
def VersionsBelow (c : CState) : Prop := ∀ p ∈ c.l.pending, p.version ≤ c.l.version

theorem applyMark_cache' (s : Store) (m : Option Nat) : (s.applyMark m).cache = s.cache := by cases m <;> rfl

theorem changed_nil_iff (s : Store) (items : List (Key × String)) :
    changed s items = [] ↔ ∀ it ∈ items, curMd5 s it.1 = it.2 := by
  unfold changed curMd5
  rw [List.map_eq_nil_iff, List.filter_eq_nil_iff]
  constructor
  · intro h it hit
    have := h it hit
    cases hg : s.get it.1 with
    | none => simp [hg] at this ⊢; first | exact this | exact this.symm
    | some v => simp [hg] at this ⊢; exact this
  · intro h it hit
    have := h it hit
    cases hg : s.get it.1 with
    | none => simp [hg] at this ⊢; first | exact this | exact this.symm
    | some v => simp [hg] at this ⊢; exact this

/-- **told immediately if the held md5 differs**: a listen request with at least one differing item is
answered in the same step with exactly the differing keys, and nothing is registered -/
theorem immediate_if_differs (c : CState) (items : List (Key × String)) (dl : Int)
    (h : changed c.store items ≠ []) :
    c.listen items dl = (c, [Out.data 0 (changed c.store items)]) := by
  unfold CState.listen
  have : (changed c.store items).isEmpty = false := by
    cases hc : changed c.store items with
    | nil => exact absurd hc h
    | cons a t => rfl
  simp [this]

/-- otherwise (and with a positive timeout) it is registered and not answered yet -/
theorem registered_if_same (c : CState) (items : List (Key × String)) (dl : Int)
    (h : changed c.store items = []) (hd : 0 < dl) :
    c.listen items dl = ({ c with l := c.l.add items dl }, []) := by
  unfold CState.listen
  have : ¬ (dl ≤ 0) := by omega
  simp [h, this]

/-! ### the per-key index after `add` -/

theorem foldl_add_get (v : Nat) : ∀ (items : List (Key × String)) (acc : List (Key × List Nat)) (k : Key),
    (∃ vs, AL.get? acc k = some vs ∧ v ∈ vs) ∨ k ∈ items.map (·.1) →
    ∃ vs, AL.get? (items.foldl (fun acc it =>
        match AL.get? acc it.1 with
        | some vs => AL.set acc it.1 (vs ++ [v])
        | none => AL.set acc it.1 [v]) acc) k = some vs ∧ v ∈ vs := by
  intro items
  induction items with
  | nil =>
    intro acc k h
    rcases h with h | h
    · exact h
    · simp at h
  | cons it rest ih =>
    intro acc k h
    simp only [List.foldl_cons]
    apply ih
    by_cases hk : it.1 = k
    · left
      subst hk
      cases hg : AL.get? acc it.1 with
      | none => exact ⟨[v], by simp, by simp⟩
      | some vs => exact ⟨vs ++ [v], by simp, by simp⟩
    · rcases h with ⟨vs, hvs, hv⟩ | h
      · left
        refine ⟨vs, ?_, hv⟩
        cases hg : AL.get? acc it.1 <;> simp only [AL.get?_set_other _ _ _ _ hk, hvs]
      · right
        simp only [List.map_cons, List.mem_cons] at h
        rcases h with h | h
        · exact absurd h.symm hk
        · exact h

theorem foldl_add_mono (v : Nat) : ∀ (items : List (Key × String)) (acc : List (Key × List Nat)) (k : Key)
    (w : Nat), (∃ vs, AL.get? acc k = some vs ∧ w ∈ vs) →
    ∃ vs, AL.get? (items.foldl (fun acc it =>
        match AL.get? acc it.1 with
        | some vs => AL.set acc it.1 (vs ++ [v])
        | none => AL.set acc it.1 [v]) acc) k = some vs ∧ w ∈ vs := by
  intro items
  induction items with
  | nil => intro acc k w h; exact h
  | cons it rest ih =>
    intro acc k w ⟨vs, hvs, hw⟩
    simp only [List.foldl_cons]
    apply ih
    by_cases hk : it.1 = k
    · subst hk
      rw [hvs]
      exact ⟨vs ++ [v], by simp, by simp [hw]⟩
    · refine ⟨vs, ?_, hw⟩
      cases hg : AL.get? acc it.1 <;> simp only [AL.get?_set_other _ _ _ _ hk, hvs]

/-! ### `notify` answers and removes every pending request registered under the key -/

theorem notify_pending (l : LState) (k : Key) :
    ∀ p ∈ (l.notify k).1.pending, p ∈ l.pending ∧
      ∀ vs, AL.get? l.byKey k = some vs → p.version ∉ vs := by
  intro p hp
  unfold LState.notify at hp
  cases hg : AL.get? l.byKey k with
  | none => rw [hg] at hp; exact ⟨hp, by intro vs h; cases h⟩
  | some vs =>
    rw [hg] at hp
    simp only [List.mem_filter, Bool.not_eq_true', List.contains_eq_mem, decide_eq_false_iff_not] at hp
    exact ⟨hp.1, by intro vs' h; cases h; exact hp.2⟩

theorem notify_byKey_other (l : LState) (k k' : Key) (h : k ≠ k') :
    AL.get? (l.notify k).1.byKey k' = AL.get? l.byKey k' := by
  unfold LState.notify
  cases hg : AL.get? l.byKey k with
  | none => rfl
  | some vs => simp only [AL.get?_erase_other _ _ _ h]

theorem notify_version (l : LState) (k : Key) : (l.notify k).1.version = l.version := by
  unfold LState.notify; cases AL.get? l.byKey k <;> rfl

/-- after `notify k` no surviving pending request has `k` among its items -/
theorem notify_clears_key (c : CState) (k : Key) (h : NoStale c) :
    ∀ p ∈ (c.l.notify k).1.pending, ∀ it ∈ p.items, it.1 ≠ k := by
  intro p hp it hit hk
  obtain ⟨hp0, hnot⟩ := notify_pending c.l k p hp
  obtain ⟨_, vs, hvs, hv⟩ := h p hp0 it hit
  rw [hk] at hvs
  exact hnot vs hvs hv

/-- what the store says about other keys does not change when `k` is published or removed -/
theorem curMd5_other_publish (s : Store) (p : SetParam) (k : Key) (h : p.key ≠ k) :
    curMd5 (s.setConfig p).1 k = curMd5 s k := by
  unfold curMd5
  have := C09.get_other_key s (.add p) k (by simpa using h)
  simp only [Store.step] at this
  rw [this]

theorem curMd5_other_remove (s : Store) (k0 k : Key) (h : k0 ≠ k) :
    curMd5 (s.delConfig k0) k = curMd5 s k := by
  unfold curMd5
  have := C09.get_other_key s (.remove k0) k (by simpa using h)
  simp only [Store.step] at this
  rw [this]

/-- a publish that does not notify leaves the md5 of its key unchanged -/
theorem curMd5_unchanged_publish (s : Store) (hinv : C09.Inv s) (p : SetParam)
    (hn : (s.setConfig p).2 = false) : curMd5 (s.setConfig p).1 p.key = curMd5 s p.key := by
  have h' := C09.inv_applyMark s p.mark hinv
  unfold Store.setConfig at hn ⊢
  unfold curMd5 Store.get
  simp only at hn ⊢
  rw [← C09.applyMark_cache s p.mark]
  generalize s.applyMark p.mark = s' at h' hn ⊢
  cases hg : AL.get? s'.cache p.key with
  | none => simp [hg] at hn
  | some v =>
    simp only [hg] at hn ⊢
    by_cases hun : (!(v.refresh p.ctype p.desc).tmp && (v.refresh p.ctype p.desc).md5 == p.value) = true
    · simp only [hun, if_true, Store.putCache, AL.get?_set_same]
      rfl
    · simp [hun] at hn

/-- **Main invariant step**: every operation of the property's alphabet preserves "no stale waiter"
(together with the store invariant of C09 that it relies on) -/
theorem noStale_step (c : CState) (op : Listener.Op) (ha : InAlphabet op = true) (hinv : C09.Inv c.store)
    (h : NoStale c) : NoStale (c.step op).1 ∧ C09.Inv (c.step op).1.store := by
  cases op with
  | tmp k v n => simp [InAlphabet] at ha
  | full k ct hs t d l => simp [InAlphabet] at ha
  | publish p =>
    have hinv' := C09.inv_setConfig c.store p hinv
    simp only [CState.step]
    by_cases hn : (c.store.setConfig p).2 = true
    · simp only [hn, if_true]
      refine ⟨?_, hinv'⟩
      intro q hq it hit
      have hne := notify_clears_key c p.key h q hq it hit
      obtain ⟨hq0, _⟩ := notify_pending c.l p.key q hq
      obtain ⟨hm, vs, hvs, hv⟩ := h q hq0 it hit
      refine ⟨?_, vs, ?_, hv⟩
      · simp only; rw [curMd5_other_publish _ _ _ (Ne.symm hne)]; exact hm
      · simp only; rw [notify_byKey_other _ _ _ (Ne.symm hne)]; exact hvs
    · have hn' : (c.store.setConfig p).2 = false := by simpa using hn
      simp only [hn', Bool.false_eq_true, if_false]
      refine ⟨?_, hinv'⟩
      intro q hq it hit
      obtain ⟨hm, vs, hvs, hv⟩ := h q hq it hit
      refine ⟨?_, vs, hvs, hv⟩
      simp only
      by_cases hk : p.key = it.1
      · rw [← hk, curMd5_unchanged_publish _ hinv _ hn', hk]; exact hm
      · rw [curMd5_other_publish _ _ _ hk]; exact hm
  | remove k =>
    simp only [CState.step]
    refine ⟨?_, C09.inv_delConfig c.store k hinv⟩
    intro q hq it hit
    have hne := notify_clears_key c k h q hq it hit
    obtain ⟨hq0, _⟩ := notify_pending c.l k q hq
    obtain ⟨hm, vs, hvs, hv⟩ := h q hq0 it hit
    refine ⟨?_, vs, ?_, hv⟩
    · simp only; rw [curMd5_other_remove _ _ _ (Ne.symm hne)]; exact hm
    · simp only; rw [notify_byKey_other _ _ _ (Ne.symm hne)]; exact hvs
  | listen items dl =>
    simp only [CState.step]
    unfold CState.listen
    simp only
    by_cases hcond : (!(changed c.store items).isEmpty || decide (dl ≤ 0)) = true
    · simp only [hcond, if_true]; exact ⟨h, hinv⟩
    · simp only [hcond, Bool.false_eq_true, if_false]
      have hch : changed c.store items = [] := by
        simp only [Bool.or_eq_true, Bool.not_eq_true', decide_eq_true_eq, not_or] at hcond
        have := hcond.1
        cases hc : changed c.store items with
        | nil => rfl
        | cons a t => rw [hc] at this; simp at this
      refine ⟨?_, hinv⟩
      intro q hq it hit
      simp only [LState.add, List.mem_append, List.mem_singleton] at hq
      rcases hq with hq | hq
      · obtain ⟨hm, hreg⟩ := h q hq it hit
        exact ⟨hm, foldl_add_mono _ items c.l.byKey it.1 q.version hreg⟩
      · subst hq
        simp only at hit
        refine ⟨(changed_nil_iff c.store items).mp hch it hit, ?_⟩
        exact foldl_add_get _ items c.l.byKey it.1 (Or.inr (List.mem_map_of_mem hit))
  | tick now =>
    simp only [CState.step]
    refine ⟨?_, hinv⟩
    intro q hq it hit
    simp only [LState.timeout, List.mem_filter] at hq
    exact h q hq.1 it hit
  | subscribe cl items => exact ⟨h, hinv⟩
  | unsubscribe cl keys => exact ⟨h, hinv⟩
  | removeClient cl => exact ⟨h, hinv⟩

/-- **No ordering of listen, publish and remove can make a change go unreported**: in every state
reachable through the property's alphabet, no registered long-poll holds a stale md5. -/
theorem no_stale_waiter : ∀ (ops : List Listener.Op) (c : CState), (∀ op ∈ ops, InAlphabet op = true) →
    C09.Inv c.store → NoStale c → NoStale (c.run ops).1 := by
  intro ops
  induction ops with
  | nil => intro c _ _ h; exact h
  | cons op rest ih =>
    intro c ha hinv h
    obtain ⟨h1, h2⟩ := noStale_step c op (ha op (by simp)) hinv h
    simp only [CState.run]
    exact ih _ (fun o ho => ha o (by simp [ho])) h2 h1

theorem no_stale_waiter_from_start (ops : List Listener.Op) (ha : ∀ op ∈ ops, InAlphabet op = true) :
    NoStale (({} : CState).run ops).1 :=
  no_stale_waiter ops {} ha C09.inv_empty (by intro p hp; simp at hp)

/-- and a change of a key answers every long-poll registered under it in the same step -/
theorem change_answers_all (l : LState) (k : Key) (vs : List Nat) (hg : AL.get? l.byKey k = some vs)
    (p : Pending) (hp : p ∈ l.pending) (hv : p.version ∈ vs) :
    Out.data p.version [k] ∈ (l.notify k).2 := by
  unfold LState.notify
  rw [hg]
  simp only [List.mem_map, List.mem_eraseDups, List.mem_filter, List.any_eq_true, beq_iff_eq]
  exact ⟨p.version, ⟨hv, p, hp, rfl⟩, rfl⟩

/-! ### temporary values and imports are outside the alphabet for a reason -/

/-- counter-example kept visible: a follower's temporary value changes the served md5 without telling a
registered listener (this is C06 territory: the applied publish that follows does notify) -/
theorem tmp_breaks_no_stale :
    let k : Key := ⟨"d", "g", "t"⟩
    let ops : List Listener.Op := [.publish ⟨k, "a", none, none, 1, none, 1, none⟩, .listen [(k, "a")] 100, .tmp k "b" 0]
    ¬ NoStale (({} : CState).run ops).1 := by
  intro k ops h
  have := h ⟨1, [(k, "a")], 100⟩ (by decide) (k, "a") (by decide)
  exact absurd this.1 (by decide)


/-- **… and the applied publish that follows does notify**, whatever it contains - in particular when it carries the
very content the temporary value shows (the usual case: the follower stored what it forwarded): `set_config` takes the
"unchanged" shortcut only for a value that is *not* temporary -/
theorem publish_after_tmp_notifies (s : Store) (k : Key) (val : String) (now : Int) (p : SetParam) (hk : p.key = k) :
    ((s.setTmp k val now).setConfig p).2 = true := by
  have htmp : ∃ v, AL.get? ((s.setTmp k val now).applyMark p.mark).cache p.key = some v ∧ v.tmp = true := by
    rw [applyMark_cache' , hk]
    unfold Store.setTmp
    cases hg : AL.get? s.cache k with
    | none =>
      exact ⟨{ content := val, md5 := val, tmp := true, hist := [], ctype := none, desc := none, lastModified := now },
        by simp [Store.putCache, AL.get?_set_same], rfl⟩
    | some v =>
      exact ⟨{ v with tmp := true, md5 := val, content := val }, by simp [Store.putCache, AL.get?_set_same], rfl⟩
  obtain ⟨v, hv, ht⟩ := htmp
  unfold Store.setConfig
  simp only [hv]
  have : (v.refresh p.ctype p.desc).tmp = true := by simp [Value.refresh, ht]
  simp [this]

/-- hence every long-poll registered under the key is answered by that publish (with `change_answers_all`) -/
theorem publish_after_tmp_answers (c : CState) (k : Key) (val : String) (now : Int) (p : SetParam) (hk : p.key = k)
    (vs : List Nat) (hg : AL.get? c.l.byKey k = some vs) (q : Pending) (hq : q ∈ c.l.pending) (hv : q.version ∈ vs) :
    Out.data q.version [k] ∈ (((c.step (.tmp k val now)).1).step (.publish p)).2 := by
  have hn := publish_after_tmp_notifies c.store k val now p hk
  simp only [CState.step, hn, if_true, hk]
  exact List.mem_append_left _ (change_answers_all c.l k vs hg q hq hv)

/-! ### timeouts -/

/-- after a tick at `now`, no long-poll whose deadline passed is still pending (fewer than 10000 distinct
expired deadlines, the cap of one `timeout` call; `byTime` ascending as the `BTreeMap` is) -/
theorem tick_answers_expired (l : LState) (now : Int) (p : Pending) (hp : p ∈ (l.timeout now).1.pending)
    (hreg : ∃ e ∈ (l.byTime.take 10000).takeWhile (fun e => e.1 < now), p.version ∈ e.2) : False := by
  unfold LState.timeout at hp
  simp only [List.mem_filter, Bool.not_eq_true', List.contains_eq_mem, decide_eq_false_iff_not] at hp
  obtain ⟨e, he, hv⟩ := hreg
  exact hp.2 (List.mem_flatMap.mpr ⟨e, he, hv⟩)

/-! ### subscribers -/

/-- a content-changing publish notifies exactly the current subscribers of the key -/
theorem publish_notifies_subscribers (c : CState) (p : SetParam) (cs : List String)
    (hn : (c.store.setConfig p).2 = true) (hs : AL.get? c.sub.byKey p.key = some cs) :
    Out.notify p.key cs ∈ (c.step (.publish p)).2 := by
  simp only [CState.step, hn, if_true, SubState.notify, hs]
  simp

theorem remove_notifies_subscribers (c : CState) (k : Key) (cs : List String)
    (hs : AL.get? c.sub.byKey k = some cs) : Out.notify k cs ∈ (c.step (.remove k)).2 := by
  simp only [CState.step, SubState.notify, hs]
  simp

/-- **known finding F13, as a theorem about the model of the current code**: removing a key silently
drops its gRPC subscriptions, so a later re-publish is not reported to a client that never
unsubscribed. -/
theorem remove_drops_subscription_counterexample :
    let k : Key := ⟨"d", "g", "t"⟩
    let ops : List Listener.Op := [.publish ⟨k, "a", none, none, 1, none, 1, none⟩, .subscribe "c1" [(k, "a")],
      .remove k, .publish ⟨k, "b", none, none, 2, none, 2, none⟩]
    (({} : CState).run ops).2 = [Out.notify k ["c1"]] := by
  decide

/-- the partial form that does hold: as long as the key is not removed in between, a subscriber is in
every notification of the key – stated for one step: subscribing puts the client into the key's set -/
theorem subscribe_registers (s : SubState) (client : String) (keys : List Key) (k : Key) (hk : k ∈ keys) :
    ∃ cs, AL.get? (s.add client keys).byKey k = some cs ∧ client ∈ cs := by
  unfold SubState.add
  simp only
  have : ∀ (keys : List Key) (acc : List (Key × List String)),
      ((∃ cs, AL.get? acc k = some cs ∧ client ∈ cs) ∨ k ∈ keys) →
      ∃ cs, AL.get? (keys.foldl (fun acc k => AL.set acc k (setInsert ((AL.get? acc k).getD []) client)) acc) k =
        some cs ∧ client ∈ cs := by
    intro keys
    induction keys with
    | nil => intro acc h; rcases h with h | h; exact h; simp at h
    | cons k0 rest ih =>
      intro acc h
      simp only [List.foldl_cons]
      apply ih
      by_cases e : k0 = k
      · left; subst e
        refine ⟨_, AL.get?_set_same _ _ _, ?_⟩
        unfold setInsert; split
        · assumption
        · simp
      · rcases h with ⟨cs, h1, h2⟩ | h
        · left; exact ⟨cs, by rw [AL.get?_set_other _ _ _ _ e]; exact h1, h2⟩
        · right; simp only [List.mem_cons] at h; rcases h with h | h
          · exact absurd h.symm e
          · exact h
  exact this keys s.byKey (Or.inr hk)

/-! ### non-vacuity -/
example : ∃ c : CState, NoStale c ∧ c.l.pending ≠ [] :=
  ⟨(({} : CState).run [.publish ⟨⟨"d", "g", "t"⟩, "a", none, none, 1, none, 1, none⟩,
      .listen [(⟨"d", "g", "t"⟩, "a")] 100]).1,
   no_stale_waiter_from_start _ (by decide), by decide⟩

end RNacos.Props.C10
